"""C19  Descriptions and payloads survive normalisation and transport
(DESIGN 5 / C19)

R19.1  alias blocks of TaskDescription._verify (symbolic run of each block)
R19.2  mode -> required attribute table (finite domain over the mode
       constants), producer/consumer agreement with the raptor dispatchers,
       PilotDescription requirements
R19.3  schema / defaults key sets: information only (thorough tier)
R19.4  codec pairing: serializer primitives, PythonTask encoders vs decoder
R19.5  slot converters carry every key of Slot._schema
R19.6  derived defaults of _verify come after the alias blocks they depend on
R19.4b payload values are encoded at call time (inside the encoder)
R19.7  the mapping in which Slot/Node.__init__ convert compact core / GPU
       entries is the one the base constructor receives; no argument of
       higher precedence carries the same input unconverted
R19.8  the test of each alias unit, evaluated over the set values of the
       deprecated attribute's schema type, its default and its reset value:
       passes for all of the former, for none of the latter
R19.9  each payload value the decoder reads is computed from a parameter of
       the encoder for every set argument (`x and <literal>`, the wrapper
       itself, a module level object are not); no parameter is used twice
       while another reaches no entry
R19.10 where a slot converter takes an entry apart, RO(index=, occupation=)
       get the part of that name / of that position in RO._schema order; the
       old format is built from the index
R19.11 Slot/Node.__init__ convert each kind (cores, gpus) under tests on that
       kind only (presence of the entries decided, other tests open)
R19.12 a slot converter hands its input list back unconverted only under
       tests on the whole list (emptiness, all()/any(), a flag set by a loop
       over all slots, a list of one): a test on one slot (`slots[0]`, the
       variable of the loop the return sits in, a helper which looks at one
       element) does not decide for the others
R19.13 a handler of the serializer which tries the failed primitive again
       another way (fallback) catches at least what the handler around that
       retry gives up on.  Decided by agreement of the two handlers inside the
       package: what dill really raises is out of reach (external, C code)
R19.16 a file the serializer writes a payload to is opened in a truncating
       mode ('w'): the reader takes one object from the start of the file, so
       an appended payload ('a') is never read, an exclusive create ('x')
       fails for the second payload, 'r+' for the first (cf. R09.10).  The mode
       is followed through locals, module constants, conditional expressions
       and a parameter (default + callers inside the module)
R19.2  also runs a loop over a constant table of (modes, attribute, ..) rows
       row by row (VerifyModel._explore)
R19.14 a payload value which an encoder reads back from a keyed store that
       outlives the call (memo of the encoded function) is keyed by every
       parameter the stored entry is made from, as it is (the parameter, a
       tuple with it, id() of it): a key made from a part of the argument
       (attribute, getattr, type) lets two arguments share an entry.  A store
       local to the call, or written by every call before it is read, is no
       memo.  The codec rules (R19.4/4b/9) see through the store
R19.15 as_dict() of the typed dict classes is the radical.utils conversion or
       an override which returns it on every path; a return of the instance
       data / a copy of it is decided against the schemas of the class and its
       subclasses: typed dicts as direct values are excluded only by a guard
       `not any(isinstance(v, TypedDict) for v in data.values())`, typed dicts
       inside lists / dicts (slots: [Slot], cores: [RO], services:
       [TaskDescription]) by no test of the direct values
"""

import ast

from ..model import (walk, dotted, call_name, kwarg, unparse, short, UNKNOWN,
                     root_name, AnalysisError, calls_in, stores_in_target)
from ..cfg import cfg_of
from ..flow import (Exploration, loop_slice, const_compare, must_pass,
                    guards)
from .. import idioms as I

TD   = ('task_description.py', 'TaskDescription')
PD   = ('pilot_description.py', 'PilotDescription')
SER  = 'utils/serializer.py'
PYT  = ('pytask.py', 'PythonTask')
MISC = 'utils/misc.py'
RC   = 'resource_config.py'
WRK  = ('raptor/worker.py', 'Worker')

# documented "required attributes" of the task modes (TaskDescription
# docstring).  TASK_METHOD is not listed here: its documented attribute
# (`method`) is not in the schema - see R19.2b.
MODE_SPEC = {'TASK_EXECUTABLE': ('executable',),
             'TASK_SERVICE'   : ('executable',),
             'TASK_FUNCTION'  : ('function',),
             'TASK_EVAL'      : ('code',),
             'TASK_EXEC'      : ('code',),
             'TASK_SHELL'     : ('command',),
             'TASK_PROC'      : ('executable',),
             'RAPTOR_MASTER'  : (),
             'RAPTOR_WORKER'  : ()}


# ------------------------------------------------------------------------------
# helpers: reads of `self` entries
#
def _const_str(e, consts):
    if isinstance(e, ast.Constant) and isinstance(e.value, str):
        return e.value
    if consts and isinstance(e, ast.Name) and \
            isinstance(consts.get(e.id), str):
        return consts[e.id]
    return None


def self_key(expr, base='self', consts=None):
    """entry name if expr is base.<a> / base['a'] / base.get('a'[, d]); a key
    given by a name is looked up in `consts` (rows of a constant table)"""
    if isinstance(expr, ast.Attribute) and isinstance(expr.value, ast.Name) \
            and expr.value.id == base:
        return expr.attr
    if isinstance(expr, ast.Subscript) and isinstance(expr.value, ast.Name) \
            and expr.value.id == base:
        return _const_str(expr.slice, consts)
    if isinstance(expr, ast.Call) and isinstance(expr.func, ast.Attribute) \
            and expr.func.attr == 'get' and \
            isinstance(expr.func.value, ast.Name) and \
            expr.func.value.id == base and expr.args:
        return _const_str(expr.args[0], consts)
    return None


def self_reads(expr, base='self', consts=None):
    out = set()
    for n in walk(expr):
        k = self_key(n, base, consts)
        if k is not None and not (isinstance(n, (ast.Attribute, ast.Subscript))
                                  and isinstance(n.ctx, ast.Store)):
            out.add(k)
    return out


def fold_name(prog, module, e, cls=None):
    """prog.fold, plus module constants which are assigned several times with
    the same value (EXECUTABLE, ARGS, ... in task_description.py)"""
    v = prog.fold(module, e, cls)
    if v is UNKNOWN and isinstance(e, ast.Name):
        vals = [prog.fold(module, x) for x in module.assigns.get(e.id, [])]
        if vals and all(x is not UNKNOWN and x == vals[0] for x in vals):
            v = vals[0]
    return v


def const_expr(prog, f, e):
    """the expression a constant table is defined by: self.X / cls.X (class
    attribute along the MRO) or a module level name"""
    if isinstance(e, ast.Attribute) and isinstance(e.value, ast.Name) and \
            e.value.id in ('self', 'cls') and f.cls is not None:
        for k in prog.mro(f.cls):
            if e.attr in k.consts:
                return k.consts[e.attr], k.module, k
    if isinstance(e, ast.Name):
        r = prog.lookup(f.module, e.id)
        if r and r[0] == 'const' and len(r[2]) == 1:
            return r[2][0], r[1], None
    return None


def fold_table(prog, f, e):
    """dict / list-of-rows value of a constant table; elements which cannot be
    folded (type names, functions) stay ast nodes.  None if e is no table"""
    ce = const_expr(prog, f, e)
    if ce is None:
        return None
    node, module, cls = ce

    def el(x):
        v = fold_name(prog, module, x, cls)
        return x if v is UNKNOWN else v
    if isinstance(node, ast.Dict):
        out = {}
        for k, v in zip(node.keys, node.values):
            if k is None:
                return None
            kk = el(k)
            if isinstance(kk, ast.AST):
                return None
            try:
                out[kk] = el(v)
            except TypeError:
                return None
        return out
    if isinstance(node, (ast.Tuple, ast.List)):
        rows = []
        for r in node.elts:
            if isinstance(r, (ast.Tuple, ast.List)):
                rows.append(tuple(el(x) for x in r.elts))
            else:
                rows.append(el(r))
        return rows
    return None


def dict_keys(prog, module, cls, node):
    """folded keys of a dict literal (values may be anything)"""
    if not isinstance(node, ast.Dict):
        return None
    out = []
    for k in node.keys:
        if k is None:
            return None
        v = fold_name(prog, module, k, cls)
        if v is UNKNOWN:
            return None
        out.append(v)
    return out


def class_table_keys(prog, c, name):
    """keys of class level dict `name` (first definition along the MRO)"""
    for k in prog.mro(c):
        if name in k.consts:
            keys = dict_keys(prog, k.module, k, k.consts[name])
            if keys is None:
                raise AnalysisError('%s.%s is not a dict literal with constant '
                                    'keys' % (k.where, name))
            return keys
    raise AnalysisError('anchor table %s.%s not found' % (c.where, name))


# ------------------------------------------------------------------------------
# R19.1  alias blocks
#
FALSY = (0, '', None, False, 0.0)

# documented replacements (TaskDescription docstring "`x` replaces the
# deprecated attribute `y`", comments of the attribute constants).
# gpu_process_type is left out: docstring and schema comment disagree.
ALIAS_SPEC = {'cpu_processes'  : 'ranks',
              'cpu_threads'    : 'cores_per_rank',
              'cpu_thread_type': 'threading_type',
              'gpu_processes'  : 'gpus_per_rank',
              'lfs_per_process': 'lfs_per_rank',
              'mem_per_process': 'mem_per_rank',
              'scheduler'      : 'raptor_id',
              'worker_file'    : 'raptor_file',
              'worker_class'   : 'raptor_class'}


DEPRECATED = set(ALIAS_SPEC) | {'gpu_process_type'}


def _prefix_defs(prefix):
    defs = {}
    for a in prefix:
        if isinstance(a, ast.Assign) and len(a.targets) == 1 and \
                isinstance(a.targets[0], ast.Name):
            defs[a.targets[0].id] = a.value
    return defs


def guard_reads(test, consts, prefix):
    """entries of `self` a test reads, directly or through the names bound
    by the assignments in `prefix`"""
    defs, out, seen = _prefix_defs(prefix), set(), set()

    def rec(e):
        k = self_key(e, consts=consts)
        if k is not None:
            out.add(k)
            return
        if isinstance(e, ast.Name) and e.id in defs and e.id not in seen:
            seen.add(e.id)
            rec(defs[e.id])
            return
        for c in ast.iter_child_nodes(e):
            if isinstance(c, ast.expr):
                rec(c)
    rec(test)
    return out


class Block:
    """one alias unit: the statements which run when the deprecated entry is
    set.  `node` is the statement it comes from, `consts` the constants bound
    to names (a row of a table driven loop)"""

    def __init__(self, node, body, consts=None, guard=None, prefix=()):
        self.node, self.body, self.consts = node, body, consts or {}
        # the test which decides whether the unit runs (positive form) and the
        # assignments in front of it which bind the names it reads
        self.guard, self.prefix = guard, list(prefix)


def _writes_self(stmts, consts):
    for b in stmts:
        if isinstance(b, (ast.Assign, ast.AugAssign)):
            tg = b.targets if isinstance(b, ast.Assign) else [b.target]
            if any(self_key(t, consts=consts) is not None for t in tg):
                return True
    return False


def _table_units(prog, f, loop):
    """units of `for <names> in <constant table>: <alias block over the
    row>`; None if the loop is not of that shape"""
    rows = fold_table(prog, f, loop.iter)
    if not isinstance(rows, list) or not rows or loop.orelse:
        return None
    names = [e.id for e in loop.target.elts if isinstance(e, ast.Name)] \
        if isinstance(loop.target, (ast.Tuple, ast.List)) else (
            [loop.target.id] if isinstance(loop.target, ast.Name) else [])
    if not names:
        return None
    out = []
    for row in rows:
        row = row if isinstance(row, tuple) else (row,)
        if len(row) != len(names):
            return None
        consts = dict(zip(names, row))
        prefix, rest, guard = [], None, None
        for i, b in enumerate(loop.body):
            if isinstance(b, ast.Assign):
                prefix.append(b)
                continue
            if isinstance(b, ast.If) and not b.orelse:
                t = b.test
                if len(b.body) == 1 and isinstance(b.body[0], ast.Continue):
                    # early-continue form: the unit runs when the test fails
                    guard = t.operand if isinstance(t, ast.UnaryOp) and \
                        isinstance(t.op, ast.Not) else ast.copy_location(
                            ast.UnaryOp(op=ast.Not(), operand=t), t)
                    rest = loop.body[i + 1:]
                elif i == len(loop.body) - 1:
                    guard, rest = t, b.body
            break
        if guard is None:
            return None
        subj = guard_reads(guard, consts, prefix)
        if len(subj) != 1:
            return None
        old = list(subj)[0]
        out.append((old, Block(loop, prefix + list(rest), consts, guard,
                               prefix)))
    return out


def alias_blocks(f, prog=None):
    """[(old attribute, Block)]: `if self.<old>:` blocks of _verify without
    else whose body stores into self, and the rows of table driven loops of
    the same meaning"""
    out, ignored = [], []
    for s in f.node.body:
        if isinstance(s, ast.For) and prog is not None:
            units = _table_units(prog, f, s)
            if units and all(_writes_self(b.body, b.consts)
                             for o, b in units):
                out += units
            continue
        if not isinstance(s, ast.If) or s.orelse:
            continue
        old = self_key(s.test)
        if old is None:
            # a test of another form on a documented deprecated attribute
            # (`self.x > 0`, `self.x is not None`, ...): R19.8 decides for
            # which values it passes
            reads = guard_reads(s.test, None, ())
            if not (reads & DEPRECATED) or not _writes_self(s.body, None):
                continue
            if len(reads) != 1:
                raise AnalysisError(
                    'UNRECOGNISED-IDIOM %s: the alias block `if %s:` depends '
                    'on several attributes (%s)' % (f.where, short(s.test, 50),
                                                    sorted(reads)))
            old = list(reads)[0]
        if all(isinstance(b, ast.Pass) for b in s.body):
            ignored.append(old)
            continue
        if _writes_self(s.body, None):
            out.append((old, Block(s, s.body, None, s.test)))
    return out, ignored


def run_block(prog, f, old, block):
    """symbolic run of a straight-line alias block.  Values: 'old' (the value
    the deprecated entry had), 'der' (computed from it), ('const', v),
    'other'.  Returns (env, events)"""
    env = {'self.' + old: 'old'}
    events = []          # (stmt, target, previous class, new class)
    consts = block.consts

    def val(expr):
        reads = ['self.' + k for k in self_reads(expr, consts=consts)] + \
                [n.id for n in walk(expr) if isinstance(n, ast.Name)
                 and isinstance(n.ctx, ast.Load)]
        if any(env.get(r) in ('old', 'der') for r in reads):
            return 'der'
        if isinstance(expr, ast.Name) and expr.id in consts and \
                not isinstance(consts[expr.id], ast.AST):
            return ('const', consts[expr.id])
        v = prog.fold(f.module, expr, f.cls)
        if v is not UNKNOWN:
            return ('const', v)
        return 'other'

    for b in block.body:
        if isinstance(b, ast.Pass):
            continue
        if isinstance(b, ast.Expr):
            for c in calls_in(b):
                recv = c.func.value if isinstance(c.func, ast.Attribute) \
                    else None
                if (isinstance(recv, ast.Name) and recv.id == 'self') or any(
                        isinstance(a, ast.Name) and a.id == 'self'
                        for a in c.args):
                    raise AnalysisError(
                        'UNRECOGNISED-IDIOM %s: alias block `if self.%s:` '
                        'changes the description through `%s`'
                        % (f.where, old, short(c, 50)))
            continue
        if isinstance(b, ast.Assign):
            v = val(b.value)
            targets = b.targets
        elif isinstance(b, ast.AugAssign):
            v = 'der' if 'der' in (val(b.value), val(b.target)) else 'other'
            targets = [b.target]
        else:
            raise AnalysisError(
                'UNRECOGNISED-IDIOM %s: alias block `if self.%s:` contains '
                'control flow (%s)' % (f.where, old, type(b).__name__))
        for t in targets:
            k = self_key(t, consts=consts)
            if k is not None:
                loc = 'self.' + k
            elif isinstance(t, ast.Name):
                loc = t.id
            else:
                raise AnalysisError(
                    'UNRECOGNISED-IDIOM %s: alias block `if self.%s:` stores '
                    'into `%s`' % (f.where, old, short(t, 40)))
            events.append((b, loc, env.get(loc, 'other'), v))
            env[loc] = v
    return env, events


def r19_1(prog, rep, rid='R19.1'):
    rep.rule(rid, 'each `if self.<deprecated>:` block of TaskDescription.'
             '_verify leaves the deprecated value in a replacement attribute '
             '(the documented one), and leaves the deprecated attribute falsy '
             'or untouched (verify is idempotent)', minimum=30)
    f = prog.method(TD[0], TD[1], '_verify')
    rep.saw(f)
    blocks, ignored = alias_blocks(f, prog)
    if len(blocks) < 10:
        raise AnalysisError('%s: only %d alias blocks recognised in %s '
                            '(expected >= 10)' % (rid, len(blocks), f.where))
    for old in ignored:
        rep.info(rid, f, 'deprecated attribute %r is tested and ignored' % old)
    taken = {}
    for old, block in blocks:
        env, events = run_block(prog, f, old, block)
        carriers = sorted(k[5:] for k, v in env.items()
                          if k.startswith('self.') and k != 'self.' + old
                          and v in ('old', 'der'))
        # (A) the value survives in a replacement
        if carriers:
            rep.ok(rid, f, 'value of %r ends up in %s' % (old, carriers),
                   f.loc(block.node))
        else:
            killer = [e for e in events if e[2] in ('old', 'der')
                      and e[3] not in ('old', 'der') and e[1] != 'self.' + old]
            late = [e for e in events if e[1] == 'self.' + old]
            if killer:
                st, loc, was, now = killer[-1]
                why = '`%s` overwrites %s, which held the value of %s, with ' \
                      '%s' % (short(st, 50), loc, old,
                              repr(now[1]) if isinstance(now, tuple)
                              else 'an unrelated value')
                cons = '%s: %s' % (old, unparse(st))
                at = st
            elif late and any(e[0].lineno > late[0][0].lineno
                              for e in events if e[1] != 'self.' + old):
                st = late[0][0]
                why = '`%s` clears %s before it is copied' % (short(st, 50),
                                                              old)
                cons = '%s: cleared before copied' % old
                at = st
            else:
                why = 'no statement copies it into another attribute'
                cons = '%s: not copied' % old
                at = block.node
            rep.bad(rid, f, cons,
                    'alias block `if self.%s:` loses the value: %s; after '
                    'verify() no attribute holds what the application put '
                    'into the deprecated %r' % (old, why, old), f.loc(at),
                    history="TaskDescription({'executable': 'x', %r: V}) "
                    ".verify(): the replacement attribute does not hold V "
                    "afterwards%s" % (old, ' (it is %r)' % (
                        killer[-1][3][1],) if killer and isinstance(
                            killer[-1][3], tuple) else ''))
        # (B) idempotence: the deprecated entry is falsy or untouched
        after = env.get('self.' + old)
        st = [e[0] for e in events if e[1] == 'self.' + old]
        if after != 'old' and not isinstance(after, tuple):
            raise AnalysisError(
                'UNRECOGNISED-IDIOM %s: alias block `if self.%s:` leaves the '
                'deprecated attribute with a computed value (`%s`)'
                % (f.where, old, short(st[-1], 50) if st else ''))
        okb = after == 'old' or (not after[1] and after[1] in FALSY)
        rep.check(okb, rid, f,
                  '%r is %s after its block' % (
                      old, 'untouched' if after == 'old' else 'cleared'),
                  construct='%s: %s' % (old, unparse(st[-1]) if st else '-'),
                  message='alias block `if self.%s:` leaves the deprecated '
                  'attribute with a new truthy value (%s): a second verify() '
                  'maps that value onto the replacement' % (
                      old, short(st[-1], 50) if st else ''),
                  loc=f.loc(st[-1] if st else block.node),
                  history='verify() twice: the replacement changes on the '
                  'second call')
        # (C) the replacement is the documented one
        want = ALIAS_SPEC.get(old)
        if want is None or not carriers:
            rep.ok(rid, f, 'no documented replacement to compare for %r'
                   % old if want is None else 'replacement of %r: see above'
                   % old, f.loc(block.node))
        else:
            rep.check(carriers == [want], rid, f,
                      'the value of %r goes to its documented replacement %r'
                      % (old, want), construct='%s: replacement' % old,
                      message='alias block `if self.%s:` puts the value into '
                      '%s, documented replacement is %r' % (old, carriers,
                                                            want),
                      loc=f.loc(block.node),
                      history="TaskDescription({'executable': 'x', %r: V})"
                      ".verify(): %s is V, %s is not" % (
                          old, '/'.join(carriers), want))
        for c in carriers:
            if c in taken:
                rep.info(rid, f, 'deprecated attributes %r and %r share the '
                         'replacement %r' % (taken[c], old, c))
            taken.setdefault(c, old)


# ------------------------------------------------------------------------------
# R19.8  for which values does the guard of an alias unit pass
#
class _Raises(Exception):
    """evaluating the test raises in the analysed program"""


class _NoEval(Exception):
    """the test is outside of what the evaluator knows"""


# set values of a schema type which an application may put into a deprecated
# attribute (counts / sizes are positive; names are non-empty strings)
TYPE_DOMAIN = {'int'  : (1, 2, 3, 64),
               'float': (0.5, 1.0, 2.5),
               'str'  : ('a', 'x y'),
               'bool' : (True,)}
_EVAL_CALLS = {'bool': bool, 'int': int, 'float': float, 'str': str,
               'len': len, 'abs': abs}
_EVAL_TYPES = {'int': int, 'float': float, 'str': str, 'bool': bool,
               'list': list, 'dict': dict, 'tuple': tuple}
_CMP = {ast.Eq   : lambda a, b: a == b,  ast.NotEq: lambda a, b: a != b,
        ast.Lt   : lambda a, b: a < b,   ast.LtE  : lambda a, b: a <= b,
        ast.Gt   : lambda a, b: a > b,   ast.GtE  : lambda a, b: a >= b,
        ast.Is   : lambda a, b: a is b or (a == b and type(a) is type(b)),
        ast.IsNot: lambda a, b: not (a is b or (a == b and
                                                type(a) is type(b))),
        ast.In   : lambda a, b: a in b,  ast.NotIn: lambda a, b: a not in b}
_BIN = {ast.Add: lambda a, b: a + b, ast.Sub: lambda a, b: a - b,
        ast.Mult: lambda a, b: a * b, ast.Div: lambda a, b: a / b,
        ast.FloorDiv: lambda a, b: a // b, ast.Mod: lambda a, b: a % b}


def guard_value(prog, f, block, old, v):
    """value of the guard of an alias unit when the deprecated entry `old`
    holds `v` (a small interpreter over constants: nothing of the analysed
    program is executed)"""
    consts, defs = block.consts, _prefix_defs(block.prefix)

    def ev(e, depth=0):
        if depth > 20:
            raise _NoEval('too deep')
        k = self_key(e, consts=consts)
        if k is not None:
            if k == old:
                return v
            raise _NoEval('reads %r' % k)
        if isinstance(e, ast.Constant):
            return e.value
        if isinstance(e, ast.Name):
            if e.id in defs:
                return ev(defs[e.id], depth + 1)
            if e.id in consts and not isinstance(consts[e.id], ast.AST):
                return consts[e.id]
            x = fold_name(prog, f.module, e, f.cls)
            if x is UNKNOWN:
                raise _NoEval('name %r' % e.id)
            return x
        try:
            if isinstance(e, ast.UnaryOp):
                x = ev(e.operand, depth + 1)
                if isinstance(e.op, ast.Not):
                    return not x
                if isinstance(e.op, ast.USub):
                    return -x
                if isinstance(e.op, ast.UAdd):
                    return +x
            if isinstance(e, ast.BoolOp):
                x = None
                for sub in e.values:
                    x = ev(sub, depth + 1)
                    if isinstance(e.op, ast.And) and not x:
                        return x
                    if isinstance(e.op, ast.Or) and x:
                        return x
                return x
            if isinstance(e, ast.Compare):
                left = ev(e.left, depth + 1)
                for op, right in zip(e.ops, e.comparators):
                    r = ev(right, depth + 1)
                    if type(op) not in _CMP:
                        raise _NoEval(short(e, 40))
                    if not _CMP[type(op)](left, r):
                        return False
                    left = r
                return True
            if isinstance(e, ast.BinOp) and type(e.op) in _BIN:
                return _BIN[type(e.op)](ev(e.left, depth + 1),
                                        ev(e.right, depth + 1))
            if isinstance(e, ast.IfExp):
                return ev(e.body if ev(e.test, depth + 1) else e.orelse,
                          depth + 1)
            if isinstance(e, (ast.Tuple, ast.List, ast.Set)):
                return tuple(ev(x, depth + 1) for x in e.elts)
            if isinstance(e, ast.Call) and isinstance(e.func, ast.Name) and \
                    not e.keywords:
                if e.func.id in _EVAL_CALLS and len(e.args) == 1:
                    return _EVAL_CALLS[e.func.id](ev(e.args[0], depth + 1))
                if e.func.id == 'isinstance' and len(e.args) == 2:
                    ts = e.args[1].elts if isinstance(e.args[1], ast.Tuple) \
                        else [e.args[1]]
                    if all(isinstance(t, ast.Name) and t.id in _EVAL_TYPES
                           for t in ts):
                        return isinstance(ev(e.args[0], depth + 1), tuple(
                            _EVAL_TYPES[t.id] for t in ts))
        except (TypeError, ValueError, ZeroDivisionError) as exc:
            raise _Raises('%s: %s' % (type(exc).__name__, exc))
        raise _NoEval('`%s`' % short(e, 40))

    if block.guard is None:
        raise _NoEval('no test')
    return ev(block.guard)


def class_table(prog, c, name):
    """{key: folded value or ast node} of the class level dict `name` (first
    definition along the MRO)"""
    for k in prog.mro(c):
        node = k.consts.get(name)
        if isinstance(node, ast.Dict):
            out = {}
            for kk, vv in zip(node.keys, node.values):
                key = fold_name(prog, k.module, kk, k) if kk is not None \
                    else UNKNOWN
                if key is UNKNOWN:
                    raise AnalysisError('%s.%s: computed key' % (k.where,
                                                                  name))
                val = fold_name(prog, k.module, vv, k)
                out[key] = vv if val is UNKNOWN else val
            return out
    raise AnalysisError('anchor table %s.%s not found' % (c.where, name))


def r19_8(prog, rep, rid='R19.8'):
    rep.rule(rid, 'the test of each alias unit of TaskDescription._verify '
             'passes for every set value of the deprecated attribute (all '
             'non-default values of its schema type) and neither for its '
             'default nor for the value the unit resets it to', minimum=10)
    f = prog.method(TD[0], TD[1], '_verify')
    c = prog.cls(*TD)
    schema   = class_table(prog, c, '_schema')
    defaults = class_table(prog, c, '_defaults')
    blocks, ignored = alias_blocks(f, prog)
    for old, block in blocks:
        tp = schema.get(old)
        tname = tp.id if isinstance(tp, ast.Name) else None
        if tname not in TYPE_DOMAIN:
            raise AnalysisError('%s: schema type of the deprecated attribute '
                                '%r is not a scalar type (%s)'
                                % (rid, old, short(tp, 30) if isinstance(
                                    tp, ast.AST) else tp))
        if old not in defaults or isinstance(defaults[old], ast.AST):
            raise AnalysisError('%s: no constant default for the deprecated '
                                'attribute %r' % (rid, old))
        env, events = run_block(prog, f, old, block)
        unset = [('its default', defaults[old])]
        after = env.get('self.' + old)
        if isinstance(after, tuple) and not any(
                after[1] == u and type(after[1]) is type(u)
                for _, u in unset):
            unset.append(('the value the unit resets it to', after[1]))
        gtxt = short(block.guard, 60) if block.guard is not None else '?'
        missed, passed = [], []
        try:
            for v in TYPE_DOMAIN[tname]:
                try:
                    if not guard_value(prog, f, block, old, v):
                        missed.append((v, 'is false'))
                except _Raises as e:
                    missed.append((v, 'raises %s' % e))
            for what, v in unset:
                try:
                    if guard_value(prog, f, block, old, v):
                        passed.append((what, v, 'is true'))
                except _Raises as e:
                    passed.append((what, v, 'raises %s' % e))
        except _NoEval as e:
            raise AnalysisError('UNRECOGNISED-IDIOM %s: test `%s` of the '
                                'alias unit of %r: %s' % (f.where, gtxt, old,
                                                          e))
        new = ALIAS_SPEC.get(old) or 'its replacement'
        if missed:
            v, how = missed[0]
            rep.bad(rid, f, '%s: guard misses set values' % old,
                    'the alias unit of the deprecated %r runs under `%s`, '
                    'which %s for %s=%r%s: that value is not copied to %s and '
                    'the deprecated attribute stays set - the same '
                    'description gives another result than with any other '
                    'value, and than the other deprecated names give'
                    % (old, gtxt, how, old, v, '' if len(missed) == 1 else
                       ' (also for %s)' % ', '.join(repr(m[0])
                                                    for m in missed[1:]),
                       new), f.loc(block.node),
                    history="TaskDescription({'executable': 'x', %r: %r})"
                    ".verify(): %s keeps its own value, %s is still %r "
                    "afterwards (as_dict() ships the deprecated name)"
                    % (old, v, new, old, v))
        elif passed:
            what, v, how = passed[0]
            rep.bad(rid, f, '%s: guard passes unset values' % old,
                    'the alias unit of the deprecated %r runs under `%s`, '
                    'which %s for %s (%r): a description which does not use '
                    'the deprecated name (or was verified before) gets %s '
                    'overwritten by that value' % (old, gtxt, how, what, v,
                                                   new),
                    f.loc(block.node),
                    history="TaskDescription({'executable': 'x', %r: V})"
                    ".verify()%s: %s is %r afterwards, not V"
                    % (new, '' if what == 'its default' else ' twice', new, v))
        else:
            rep.ok(rid, f, '`%s` passes for %s in %s and not for %s'
                   % (gtxt, old, list(TYPE_DOMAIN[tname]),
                      [u for _, u in unset]), f.loc(block.node))


# ------------------------------------------------------------------------------
# R19.6  derived defaults come after the normalisation of what they read
#
def r19_6(prog, rep, rid='R19.6'):
    from ..flow import guard_atoms
    rep.rule(rid, 'a statement of TaskDescription._verify which computes an '
             'attribute from a replacement attribute (ranks, cores_per_rank, '
             '...) runs after every alias block which writes that '
             'replacement', minimum=1)
    f = prog.method(TD[0], TD[1], '_verify')
    g = cfg_of(f)
    smap = I.stmt_node_map(g)
    blocks, ignored = alias_blocks(f, prog)
    writers = {}            # replacement attr -> [(old, store stmt)]
    inside = set()
    for old, block in blocks:
        env, events = run_block(prog, f, old, block)
        for b in walk(block.node):
            inside.add(id(b))
        for st, loc, was, now in events:
            # every attribute the block stores into besides the deprecated
            # one (whether the value survives is R19.1's question)
            if loc.startswith('self.') and loc != 'self.' + old:
                writers.setdefault(loc[5:], []).append((old, st))
    n = 0
    for st in walk(f.node):
        if not isinstance(st, (ast.Assign, ast.AugAssign)) or \
                id(st) in inside:
            continue
        tg = st.targets if isinstance(st, ast.Assign) else [st.target]
        tkeys = [self_key(t) for t in tg if self_key(t) is not None]
        if not tkeys:
            continue
        node = smap.get(id(st))
        if node is None:
            continue
        reads = set(self_reads(st.value))
        for atom, pol in guard_atoms(g, node.id):
            reads |= self_reads(atom)
        later = g.reachable(node.id) - {node.id}
        for r in sorted(reads & set(writers)):
            if r in tkeys:
                # the replacement normalised from itself: the alias block
                # overwrites it afterwards anyway
                continue
            n += 1
            late = [(old, w) for old, w in writers[r]
                    if smap.get(id(w)) is not None and
                    smap[id(w)].id in later]
            rep.check(not late, rid, f,
                      '`%s` reads %r after the alias block(s) of %s'
                      % (short(st, 50), r, [o for o, w in writers[r]]),
                      construct=st,
                      message='`%s` derives %s from %r before the alias block '
                      '`if self.%s:` copies the deprecated value into %r: for '
                      'a description which uses the deprecated name the '
                      'derived value is computed from the default of %r, and '
                      'differs from what the same description gives with the '
                      'current name' % (
                          short(st, 60), '/'.join(tkeys), r,
                          late[0][0] if late else '', r, r),
                      loc=f.loc(st),
                      history="TaskDescription({'executable': 'x', %r: 4})"
                      ".verify() vs. {'executable': 'x', %r: 4}: %s differs"
                      % (late[0][0] if late else '', r, '/'.join(tkeys)))
    rep.stat('derived_statements', n)


# ------------------------------------------------------------------------------
# R19.2  mode -> required attributes
#
class VerifyModel:
    """finite evaluation of a _verify method: `mode` has a concrete value,
    chosen entries are falsy / truthy, all other tests are unconstrained (or
    falsy, on request)"""

    MODE = ('mode',)

    def __init__(self, prog, f):
        self.prog = prog
        self.f    = f
        self.g    = cfg_of(f)
        self.attrs = set()
        # local names for the mode, and names which hold the entry of a
        # constant table for the mode:  needed = _TABLE.get(self.mode)
        self.alias   = set()
        self.lookups = {}
        assigns = [n for n in walk(f.node) if isinstance(n, ast.Assign) and
                   len(n.targets) == 1 and
                   isinstance(n.targets[0], ast.Name)]
        for n in assigns:
            if self_key(n.value) in self.MODE:
                self.alias.add(n.targets[0].id)
        for n in assigns:
            v, key, tab = n.value, None, None
            if isinstance(v, ast.Call) and isinstance(v.func, ast.Attribute) \
                    and v.func.attr == 'get' and len(v.args) == 1:
                key, tab = v.args[0], v.func.value
            elif isinstance(v, ast.Subscript):
                key, tab = v.slice, v.value
            if key is None or not self._is_mode(key):
                continue
            table = fold_table(prog, f, tab)
            if isinstance(table, dict):
                self.lookups[n.targets[0].id] = table
                self.attrs |= {x for x in table.values()
                               if isinstance(x, str)}
        for n in self.g.nodes:
            if n.kind == 'test':
                k = self_key(n.ast)
                if k is not None:
                    self.attrs.add(k)
        # entries read through a name which holds a constant key
        keyed = set()
        for n in walk(f.node):
            arg = None
            if isinstance(n, ast.Call) and isinstance(n.func, ast.Attribute) \
                    and n.func.attr == 'get' and \
                    dotted(n.func.value) == 'self' and n.args:
                arg = n.args[0]
            elif isinstance(n, ast.Subscript) and dotted(n.value) == 'self':
                arg = n.slice
            if isinstance(arg, ast.Name):
                keyed.add(arg.id)
        for n in assigns:
            if n.targets[0].id in keyed:
                v = fold_name(prog, f.module, n.value, f.cls)
                if isinstance(v, str):
                    self.attrs.add(v)
        # loops over a constant table of rows: they are run row by row
        #   for modes, attr, label in _MODE_REQUIREMENTS: ...
        self.tables = {}
        for h, loop in self.g.loop_ast.items():
            if not isinstance(loop, ast.For) or loop.orelse:
                continue
            t = loop.target
            names = [e.id for e in t.elts if isinstance(e, ast.Name)] \
                if isinstance(t, (ast.Tuple, ast.List)) else (
                    [t.id] if isinstance(t, ast.Name) else [])
            width = len(t.elts) if isinstance(t, (ast.Tuple, ast.List)) else 1
            rows = fold_table(prog, f, loop.iter)
            if isinstance(rows, dict) and width == 1:
                rows = list(rows)
            if not names or len(names) != width or \
                    not isinstance(rows, list) or not rows:
                continue
            rows = [r if isinstance(t, (ast.Tuple, ast.List)) else (r,)
                    for r in rows]
            if any(not isinstance(r, tuple) or len(r) != width for r in rows):
                continue
            self.tables[h] = (names, [tuple(self._hashable(x) for x in r)
                                      for r in rows])
            for i, nm in enumerate(names):
                if nm in keyed:
                    self.attrs |= {r[i] for r in rows if isinstance(r[i], str)}

    @staticmethod
    def _hashable(v):
        if isinstance(v, (list, tuple, set, frozenset)):
            try:
                return tuple(sorted(v)) if isinstance(v, (set, frozenset)) \
                    else tuple(v)
            except TypeError:
                return UNKNOWN
        if isinstance(v, (str, int, float, bool, type(None))):
            return v
        return UNKNOWN

    @staticmethod
    def _subst(atom, env):
        """the test with the names bound to constants (rows of a table
        driven loop) replaced by these constants"""
        env = dict(env)
        if not any(isinstance(n, ast.Name) and n.id in env
                   for n in walk(atom)):
            return atom

        def lit(v):
            if isinstance(v, tuple):
                return ast.Tuple(elts=[lit(x) for x in v], ctx=ast.Load())
            return ast.Constant(value=v)

        class S(ast.NodeTransformer):
            def visit_Name(self, n):
                if isinstance(n.ctx, ast.Load) and n.id in env:
                    return ast.copy_location(lit(env[n.id]), n)
                return n
        import copy
        return ast.fix_missing_locations(S().visit(copy.deepcopy(atom)))

    def _is_mode(self, e):
        return self_key(e) in self.MODE or (isinstance(e, ast.Name) and
                                            e.id in self.alias)

    def _key(self, atom, mode, env=()):
        """(entry name read by the atom | None, known?)"""
        k = self_key(atom)
        if k is not None:
            return k, True
        # self.get(<name holding a table entry>)
        arg = None
        if isinstance(atom, ast.Call) and \
                isinstance(atom.func, ast.Attribute) and \
                atom.func.attr == 'get' and dotted(atom.func.value) == 'self' \
                and atom.args:
            arg = atom.args[0]
        elif isinstance(atom, ast.Subscript) and \
                dotted(atom.value) == 'self':
            arg = atom.slice
        if isinstance(arg, ast.Name) and arg.id in dict(env):
            v = dict(env)[arg.id]
            return (v, True) if isinstance(v, str) else (None, False)
        if isinstance(arg, ast.Name) and arg.id in self.lookups:
            if mode is UNKNOWN:
                return None, False
            v = self.lookups[arg.id].get(mode)
            return (v, True) if isinstance(v, str) else (None, False)
        return None, True

    def _atom(self, atom, mode, falsy, truthy, rest, env=()):
        if isinstance(atom, ast.Name) and atom.id in dict(env):
            return bool(dict(env)[atom.id])
        if isinstance(atom, ast.Name) and atom.id in self.lookups:
            if mode is UNKNOWN:
                return None
            v = self.lookups[atom.id].get(mode)
            return None if isinstance(v, ast.AST) else bool(v)
        if isinstance(atom, ast.Name) and atom.id in self.alias:
            return None if mode is UNKNOWN else bool(mode)
        k, known = self._key(atom, mode, env)
        if not known:
            return None
        if k is not None:
            if k in self.MODE:
                return None if mode is UNKNOWN else bool(mode)
            if k in falsy:
                return False
            if k in truthy:
                return True
            return rest
        atom = self._subst(atom, env)
        cc = const_compare(self.prog, self.f.module, atom, self.f.cls)
        if cc is not None:
            try:
                operand = ast.parse(cc[0], mode='eval').body
            except SyntaxError:
                return None
            if self._is_mode(operand):
                if mode is UNKNOWN:
                    return None
                return (mode in cc[2]) == (cc[1] == 'in')
            return None
        if self_reads(atom) & set(self.MODE) or any(
                isinstance(n, ast.Name) and n.id in self.alias
                for n in walk(atom)):
            raise AnalysisError('UNRECOGNISED-IDIOM %s: test `%s` reads the '
                                'mode but is not a comparison with constants'
                                % (self.f.where, short(atom, 60)))
        return None

    def outcomes(self, mode, falsy=(), truthy=(), rest=None):
        """{'exit', 'raise'} reachable; `mode` None = not set"""
        g, f = self.g, self.f

        def transfer(node, edge, st):
            # the state is (mode, constants bound to local names); None is
            # Exploration's "infeasible"
            if node.kind == 'test' and edge.label in ('T', 'F'):
                v = self._atom(node.ast, st[0], set(falsy), set(truthy), rest,
                               st[1])
                if v is not None and v != (edge.label == 'T'):
                    return None
            if node.kind == 'for' and node.id in self.tables and \
                    edge.label in ('iter', 'done'):
                # table driven loop: row by row, `done` after the last row
                names, rows = self.tables[node.id]
                idx = dict(st[2])
                i = idx.get(node.id, 0)
                if edge.label == 'done':
                    if i < len(rows):
                        return None
                    idx.pop(node.id, None)
                    return (st[0], st[1], tuple(sorted(idx.items())))
                if i >= len(rows):
                    return None
                idx[node.id] = i + 1
                env = dict(st[1])
                for nm, v in zip(names, rows[i]):
                    if v is UNKNOWN:
                        env.pop(nm, None)
                    else:
                        env[nm] = v
                return (st[0], tuple(sorted(env.items(), key=lambda x: x[0])),
                        tuple(sorted(idx.items())))
            if node.kind == 'stmt' and isinstance(node.ast, ast.Assign) and \
                    edge.label != 'exc':
                for t in node.ast.targets:
                    if self_key(t) in self.MODE:
                        return (fold_name(self.prog, f.module, node.ast.value,
                                          f.cls),) + st[1:]
                    if isinstance(t, ast.Name) and t.id not in self.lookups:
                        env = dict(st[1])
                        v = fold_name(self.prog, f.module, node.ast.value,
                                      f.cls)
                        if v is UNKNOWN or not isinstance(
                                v, (str, int, float, bool, type(None))):
                            env.pop(t.id, None)
                        else:
                            env[t.id] = v
                        return (st[0], tuple(sorted(env.items(),
                                                    key=lambda x: x[0])),
                                st[2])
            return st

        out = set()
        for nid in self._explore((mode, (), ()), transfer):
            out.add('exit' if nid == g.exit.id else 'raise')
        return out

    def _explore(self, init, transfer, max_states=200000):
        """flow.Exploration (product of cfg node, state, loops entered; each
        loop body entered once per path), except that a loop over a constant
        table is run once per row: its position is part of the state.  Returns
        the exits reached (node ids)"""
        from collections import deque
        g = self.g
        ends = (g.exit.id, g.raise_.id)
        k0 = (g.entry.id, init, frozenset())
        seen, todo, out = {k0}, deque([k0]), set()
        while todo:
            nid, st, entered = todo.popleft()
            if len(seen) > max_states:
                raise RuntimeError('path exploration exceeds %d states'
                                   % max_states)
            for e in g.succ[nid]:
                ent = entered
                if e.enter is not None and e.enter not in self.tables:
                    if e.enter in entered:
                        continue
                    ent = entered | {e.enter}
                st2 = transfer(g.nodes[nid], e, st)
                if st2 is None:
                    continue
                if st2[2]:
                    # a loop which was left (break) starts again when it is
                    # reached again
                    st2 = st2[:2] + (tuple(
                        (h, i) for h, i in st2[2]
                        if e.dst == h or e.dst in g.loop_body[h]),)
                k2 = (e.dst, st2, ent)
                if k2 in seen:
                    continue
                seen.add(k2)
                if e.dst in ends:
                    out.add(e.dst)
                    continue
                todo.append(k2)
        return out

    def required(self, mode):
        return {a for a in self.attrs if a not in self.MODE and
                self.outcomes(mode, falsy=[a]) == {'raise'}}


def r19_2(prog, rep, rid='R19.2'):
    rep.rule(rid, 'TaskDescription._verify enforces the documented required '
             'attribute(s) of every mode and accepts a description which sets '
             'exactly those; PilotDescription._verify enforces resource and '
             'nodes-or-cores', minimum=21)
    f = prog.method(TD[0], TD[1], '_verify')
    rep.saw(f)
    vm = VerifyModel(prog, f)
    rep.stat('cfg_nodes', len(vm.g.nodes))
    defaults = class_table_keys(prog, prog.cls(*TD), '_defaults')
    for name, need in MODE_SPEC.items():
        mode = prog.const(TD[0], name)
        for a in need:
            if a not in defaults:
                raise AnalysisError('%s: documented attribute %r is not a key '
                                    'of TaskDescription._defaults' % (rid, a))
            out = vm.outcomes(mode, falsy=[a])
            rep.check(out == {'raise'}, rid, f,
                      'mode %s without %r is refused' % (name, a),
                      construct='%s needs %s' % (mode, a),
                      message='TaskDescription._verify accepts mode %r '
                      'without %r (documented as required for %s)'
                      % (mode, a, name), loc=f.loc(),
                      history="TaskDescription({'mode': %s}).verify() passes "
                      "and the task fails only when it is executed" % name)
        out = vm.outcomes(mode, truthy=need, rest=False)
        rep.check('exit' in out, rid, f,
                  'mode %s with %s set (everything else default) is accepted'
                  % (name, list(need)), construct='%s accepted' % mode,
                  message='TaskDescription._verify refuses a description of '
                  'mode %r which sets all documented required attributes %s '
                  '(it demands %s)' % (mode, list(need),
                                       sorted(vm.required(mode))),
                  loc=f.loc(),
                  history="TaskDescription({'mode': %s%s}).verify() raises"
                  % (name, ''.join(", %r: 'x'" % a for a in need)))
    # default mode
    dflt = prog.const(TD[0], 'TASK_EXECUTABLE')
    need = MODE_SPEC['TASK_EXECUTABLE']
    rep.check(vm.outcomes(None, falsy=need) == {'raise'} and
              'exit' in vm.outcomes(None, truthy=need, rest=False), rid, f,
              'a description without mode is treated as TASK_EXECUTABLE',
              construct='default mode',
              message='a description without `mode` is not checked like '
              'TASK_EXECUTABLE (the documented default)', loc=f.loc(),
              history='TaskDescription().verify() without executable')
    # PilotDescription
    pf = prog.method(PD[0], PD[1], '_verify')
    rep.saw(pf)
    pm = VerifyModel(prog, pf)
    rep.check(pm.outcomes(UNKNOWN, falsy=['resource']) == {'raise'}, rid, pf,
              'a pilot description without resource is refused',
              construct='resource', message='PilotDescription._verify accepts '
              'a description without `resource`', loc=pf.loc(),
              history="PilotDescription({'cores': 1}).verify() passes")
    rep.check(pm.outcomes(UNKNOWN, falsy=['nodes', 'cores']) == {'raise'},
              rid, pf, 'a pilot description without nodes and cores is '
              'refused', construct='nodes-or-cores',
              message='PilotDescription._verify accepts a description which '
              'sets neither `nodes` nor `cores`', loc=pf.loc(),
              history="PilotDescription({'resource': 'x'}).verify() passes")
    for have in ('nodes', 'cores'):
        rep.check('exit' in pm.outcomes(UNKNOWN, truthy=['resource', have],
                                        rest=False), rid, pf,
                  'a pilot description with resource and %s is accepted'
                  % have, construct='accept:%s' % have,
                  message='PilotDescription._verify refuses a description '
                  'with `resource` and `%s`' % have, loc=pf.loc(),
                  history="PilotDescription({'resource': 'x', %r: 1})"
                  ".verify() raises" % have)


def description_reads(prog, f, cls, depth=2, _seen=None):
    """keys K which f reads as <task>['description'][K] (or through a local
    name bound to <task>['description']) without a presence test on K and
    before it stores them itself, following calls to methods of the same
    class which get the task"""
    from ..flow import guard_atoms
    _seen = _seen or set()
    if f.where in _seen:
        return {}
    _seen.add(f.where)
    params = [p for p in f.params if p != 'self']
    if not params:
        return {}
    task = params[0]

    def is_task_descr(e):
        return isinstance(e, ast.Subscript) and isinstance(e.value, ast.Name) \
            and e.value.id == task and isinstance(e.slice, ast.Constant) and \
            e.slice.value == 'description'

    alias = set()
    for n in walk(f.node):
        if isinstance(n, ast.Assign) and is_task_descr(n.value):
            for t in n.targets:
                if isinstance(t, ast.Name):
                    alias.add(t.id)

    def is_descr(e):
        return is_task_descr(e) or (isinstance(e, ast.Name) and e.id in alias)

    def presence_test(atom, k):
        """atom is true only if description has a usable K"""
        for n in walk(atom):
            if isinstance(n, ast.Call) and isinstance(n.func, ast.Attribute) \
                    and n.func.attr == 'get' and is_descr(n.func.value) and \
                    n.args and isinstance(n.args[0], ast.Constant) and \
                    n.args[0].value == k:
                return True
            if isinstance(n, ast.Compare) and len(n.ops) == 1 and \
                    isinstance(n.ops[0], ast.In) and \
                    isinstance(n.left, ast.Constant) and n.left.value == k \
                    and is_descr(n.comparators[0]):
                return True
        return False

    g = cfg_of(f)
    smap = I.stmt_node_map(g)
    stored = {}
    for n in walk(f.node):
        if isinstance(n, ast.Assign):
            for t in n.targets:
                if isinstance(t, ast.Subscript) and is_descr(t.value) and \
                        isinstance(t.slice, ast.Constant):
                    stored.setdefault(t.slice.value, n)
    out = {}
    cond = {}
    for n in walk(f.node):
        # `d.get(k)` / `d.get(k, dflt)`: a read which tolerates the absent
        # key - decided (conditional), never a requirement
        if isinstance(n, ast.Call) and isinstance(n.func, ast.Attribute) \
                and n.func.attr == 'get' and is_descr(n.func.value) and \
                n.args and isinstance(n.args[0], ast.Constant) and \
                isinstance(n.args[0].value, str):
            cond.setdefault(n.args[0].value, (f, n))
            continue
        if isinstance(n, ast.Subscript) and isinstance(n.ctx, ast.Load) and \
                is_descr(n.value) and isinstance(n.slice, ast.Constant) and \
                isinstance(n.slice.value, str):
            k = n.slice.value
            node = smap.get(id(n))
            if node is not None and any(
                    pol and presence_test(atom, k)
                    for atom, pol in guard_atoms(g, node.id)):
                cond.setdefault(k, (f, n))
                continue
            # a read inside `try: .. except KeyError:` is a fallback, not a
            # requirement (broad handlers only report the failure)
            if node is not None and any(
                    unparse(t) in ('KeyError', 'LookupError')
                    for tr in node.tries for h in tr.handlers
                    if h.type is not None
                    for t in (h.type.elts if isinstance(h.type, ast.Tuple)
                              else [h.type])):
                cond.setdefault(k, (f, n))
                continue
            # `d.get(k) or d[other]`: the right operand of an `or` whose left
            # operand tests k is conditional as well - only the plain case
            # `x = d[k]` / `f(d[k])` counts
            out.setdefault(k, (f, n))
    if depth > 0:
        for c in calls_in(f.node):
            callee = prog.resolve_call(f, c, cls)
            if callee is None or callee.cls is None or callee is f:
                continue
            if not any(isinstance(a, ast.Name) and a.id == task
                       for a in c.args):
                continue
            for k, v in description_reads(prog, callee, cls, depth - 1,
                                          _seen).items():
                sn, cn = smap.get(id(stored.get(k))), smap.get(id(c))
                if sn is not None and cn is not None and (
                        sn is cn or must_pass(g, g.entry.id, cn.id, [sn.id])):
                    continue        # f stores the key before it delegates
                out.setdefault(k, v)
    for k, v in cond.items():
        if k not in out:
            out[k] = v + ('conditional',)
    return out


def r19_2b(prog, rep, rid='R19.2b'):
    rep.rule(rid, 'every description key a raptor dispatcher reads '
             'unconditionally is carried by every verified description of '
             'that mode (it has a default, or _verify requires it)',
             minimum=8)
    tdc = prog.cls(*TD)
    f = prog.method(TD[0], TD[1], '_verify')
    vm = VerifyModel(prog, f)
    defaults = set(class_table_keys(prog, tdc, '_defaults'))
    schema = set(class_table_keys(prog, tdc, '_schema'))
    wc = prog.cls(*WRK)
    regs = []
    for m in wc.methods.values():
        for c in calls_in(m.node):
            if call_name(c) == 'self.register_mode' and len(c.args) >= 2:
                mode = prog.fold(m.module, c.args[0], wc)
                disp = prog.resolve_callable(m, c.args[1], wc)
                if mode is UNKNOWN or disp is None:
                    raise AnalysisError('UNRECOGNISED-IDIOM %s: `%s`'
                                        % (m.where, short(c, 60)))
                regs.append((mode, disp, c, m))
    if len(regs) < 6:
        raise AnalysisError('%s: only %d register_mode() calls found in %s'
                            % (rid, len(regs), wc.where))
    for mode, disp, call, m in regs:
        rep.saw(disp)
        required = vm.required(mode)
        for k, rd in sorted(description_reads(prog, disp, wc).items()):
            g, node = rd[0], rd[1]
            if len(rd) > 2:
                rep.ok(rid, disp, "mode %s: description[%r] is read by %s "
                       "only after a presence test / with a KeyError fallback"
                       % (mode, k, g.qual), g.loc(node))
                continue
            ok = k in defaults or k in required
            rep.check(ok, rid, disp,
                      "mode %s: description[%r] read by %s is %s"
                      % (mode, k, g.qual, 'required by _verify'
                         if k in required else 'a key with default'),
                      construct="%s: description[%r]" % (mode, k),
                      message="%s (dispatcher of mode %r) reads "
                      "task['description'][%r], but %r %s and "
                      "TaskDescription._verify demands %s for that mode: no "
                      "verified description carries the key" % (
                          g.qual, mode, k, k,
                          'is not even in TaskDescription._schema'
                          if k not in schema else 'has no default',
                          sorted(required) or 'nothing'),
                      loc=g.loc(node),
                      history="TaskDescription({'mode': %r%s}) passes "
                      "verify(); the worker raises KeyError(%r) and the task "
                      "fails%s" % (mode, ''.join(", %r: 'x'" % a
                                                 for a in sorted(required)),
                                   k, '; setting %r is refused by verify '
                                   '(key not in schema)' % k
                                   if k not in schema else ''))


# ------------------------------------------------------------------------------
# R19.4  codec pairing
#
INVERSE = {'dill.dumps'  : 'dill.loads',
           'pickle.dumps': 'pickle.loads',
           'b64enc'      : 'b64dec',
           '.decode'     : '.encode',
           'file:b'      : 'file:b',
           'file:t'      : 'file:t'}
NEUTRAL_CALLS = {'list', 'tuple', 'dict'}


class Unrec(Exception):
    pass


class NoSource(Unrec):
    """the expression is decided, and its value does not come from a source:
    `expr` is the part which replaces / shadows the source, `why` says what
    it is instead"""

    def __init__(self, expr, why):
        Unrec.__init__(self, why)
        self.expr, self.why = expr, why


def _fixed_value(e):
    """expression without any name: a literal (constant, empty or literal
    container, call of a builtin container type without arguments)"""
    if isinstance(e, ast.Call):
        return isinstance(e.func, ast.Name) and e.func.id in (
            'dict', 'list', 'tuple', 'set') and not e.args and not e.keywords
    return isinstance(e, (ast.Constant, ast.Dict, ast.List, ast.Tuple,
                          ast.Set)) and not any(
        isinstance(n, (ast.Name, ast.Call, ast.Attribute)) for n in walk(e))


def _store_access(e):
    """(container, key, inline value or None, how) if e reads one entry of a
    keyed store: C[k], C.get(k), C.get(k, V), C.setdefault(k, V)"""
    if isinstance(e, ast.Subscript) and isinstance(e.ctx, ast.Load) and \
            not isinstance(e.slice, ast.Slice):
        return e.value, e.slice, None, 'item'
    if isinstance(e, ast.Call) and isinstance(e.func, ast.Attribute) and \
            not e.keywords and not any(isinstance(a, ast.Starred)
                                       for a in e.args):
        if e.func.attr == 'get' and len(e.args) in (1, 2):
            return (e.func.value, e.args[0],
                    e.args[1] if len(e.args) == 2 else None, 'get')
        if e.func.attr == 'setdefault' and len(e.args) == 2:
            return e.func.value, e.args[0], e.args[1], 'setdefault'
    return None


def _store_id(f, e):
    """identity of a container expression inside f: ('name', x) for a plain
    name, ('attr', x) for an attribute of the class / instance the method
    belongs to (cls.x, self.x, <Class>.x, type(self).x), else its text"""
    if isinstance(e, ast.Name):
        return ('name', e.id)
    if isinstance(e, ast.Attribute):
        top = f
        while top.parent is not None:
            top = top.parent
        own = set()
        if top.cls is not None:
            own.add(top.cls.name)
            if top.params and not any(
                    isinstance(d, ast.Name) and d.id == 'staticmethod'
                    for d in top.node.decorator_list):
                own.add(top.params[0])
        b = e.value
        if isinstance(b, ast.Name) and b.id in own:
            return ('attr', e.attr)
        if isinstance(b, ast.Call) and isinstance(b.func, ast.Name) and \
                b.func.id == 'type' and len(b.args) == 1 and \
                isinstance(b.args[0], ast.Name) and b.args[0].id in own:
            return ('attr', e.attr)
        if isinstance(b, ast.Attribute) and b.attr == '__class__' and \
                isinstance(b.value, ast.Name) and b.value.id in own:
            return ('attr', e.attr)
    return ('expr', unparse(e))


def _subst_locals(e, names):
    """e with the locals which are bound exactly once replaced by their
    definition (a few rounds)"""
    import copy
    single = {k: v[0] for k, v in names.items() if len(v) == 1}
    for _ in range(4):
        if not any(isinstance(n, ast.Name) and n.id in single
                   for n in ast.walk(e)):
            break
        e = _Sub(single).visit(copy.deepcopy(e))
    return e


def _same_key(a, b, names):
    if unparse(a) == unparse(b):
        return True
    return unparse(_subst_locals(a, names)) == unparse(_subst_locals(b, names))


def _key_alts(e, names, depth=0):
    """the alternative values of a key expression, each as the list of the
    expressions which the key carries AS THEY ARE (the key itself, the
    definition of a local, the elements of a tuple, x of id(x)): two keys are
    equal only if each of these is"""
    if depth > 6:
        return [[e]]
    if isinstance(e, ast.Name) and e.id in names:
        return [[e] + alt for d in names[e.id]
                for alt in _key_alts(d, names, depth + 1)]
    if isinstance(e, ast.IfExp):
        return _key_alts(e.body, names, depth + 1) + \
            _key_alts(e.orelse, names, depth + 1)
    if isinstance(e, ast.Tuple):
        alts = [[e]]
        for x in e.elts:
            alts = [a + b for a in alts
                    for b in _key_alts(x, names, depth + 1)]
        return alts[:64]
    if isinstance(e, ast.Call) and isinstance(e.func, ast.Name) and \
            e.func.id == 'id' and len(e.args) == 1 and not e.keywords:
        return [[e] + alt for alt in _key_alts(e.args[0], names, depth + 1)]
    return [[e]]


def _not_in_key(v, elems, names, params):
    """parameters which the stored value `v` is computed from other than
    through one of the expressions the key carries"""
    have = {unparse(x) for x in elems}
    out = []

    def visit(e, depth):
        if unparse(e) in have:
            return
        if isinstance(e, ast.Name):
            if e.id in params:
                out.append(e.id)
            elif e.id in names and depth < 6:
                for d in names[e.id]:
                    visit(d, depth + 1)
            return
        for c in ast.iter_child_nodes(e):
            visit(c, depth)
    visit(v, 0)
    return sorted(set(out))


def _store_outlives(f, cid):
    """the container is not created by the call which reads it"""
    kind, x = cid
    if kind != 'name':
        return True
    if any(isinstance(n, (ast.Global, ast.Nonlocal)) and x in n.names
           for n in walk(f.node)):
        return True
    return not any(isinstance(n, ast.Name) and n.id == x and
                   isinstance(n.ctx, ast.Store) for n in walk(f.node))


def memo_decide(f, memo, params):
    """(verdict, detail): 'fresh' - every call stores the entry before it
    reads it; 'local' - the container lives for one call; 'keyed' - the key
    carries every parameter the entry is made from; ('coarse', parameters,
    key, value) otherwise"""
    names = memo['names']
    if not _store_outlives(f, memo['cid']):
        return 'local', None
    g = cfg_of(f)
    smap = I.stmt_node_map(g)
    rn = smap.get(id(memo['read']))
    refresh = [smap.get(id(fl['stmt'])) for fl in memo['fills']
               if fl['refresh']]
    if rn is not None and refresh and all(x is not None for x in refresh) \
            and must_pass(g, g.entry.id, rn.id, [x.id for x in refresh]):
        return 'fresh', None
    for alt in _key_alts(memo['key'], names):
        for fl in memo['fills']:
            lost = _not_in_key(fl['value'], alt, names, params)
            if lost:
                if rn is None:
                    raise Unrec('the read of `%s` is not a statement of %s'
                                % (short(memo['cont'], 30), f.qual))
                return 'coarse', (lost, _subst_locals(memo['key'], names),
                                  fl['value'])
    return 'keyed', None


class Pipes:
    """pipelines of primitive codec operations applied to a source value"""

    def __init__(self, prog):
        self.prog  = prog
        self._func = {}
        self.hoisted = []     # (inner func, name, outer func, ops)
        self.memos   = []     # reads of a keyed store on the way to a source

    # environment of a function: single assignments, file handles
    def env(self, f):
        names, files = {}, {}
        for n in walk(f.node):
            if isinstance(n, ast.Assign) and len(n.targets) == 1 and \
                    isinstance(n.targets[0], ast.Name):
                names.setdefault(n.targets[0].id, []).append(n.value)
            pairs = []
            if isinstance(n, ast.With):
                pairs = [(it.optional_vars, it.context_expr)
                         for it in n.items]
            elif isinstance(n, ast.Assign) and len(n.targets) == 1:
                pairs = [(n.targets[0], n.value)]
            for var, c in pairs:
                if not (isinstance(c, ast.Call) and isinstance(var, ast.Name)):
                    continue
                parts = _open_parts(self.prog, f, c)
                if parts is None or parts[2]:
                    continue
                mvs = _mode_values(self.prog, f, parts[1])
                if mvs is None or len({'b' in m for m in mvs}) != 1 or \
                        len({bool(set(m) & set('wax+')) for m in mvs}) != 1:
                    raise Unrec('open() mode of %s' % f.where)
                mv = sorted(mvs)[0]
                files[var.id] = (
                    'file:b' if 'b' in mv else 'file:t',
                    'w' if set(mv) & set('wax+') else 'r', c, parts[0])
                names.pop(var.id, None)
        return names, files

    def pipe(self, f, expr, sources, env=None, depth=0):
        """list of ops applied (innermost first) to the source inside expr;
        `sources(expr)` says whether expr is the source"""
        if depth > 8:
            raise Unrec('too deep')
        names, files = env or self.env(f)
        env = (names, files)
        if sources(expr):
            return []
        if isinstance(expr, ast.Name):
            if expr.id in files:
                if files[expr.id][1] != 'r':
                    raise Unrec('file %s is not opened for reading' % expr.id)
                fn = files[expr.id][3]
                if fn is None:
                    raise Unrec('open() without file name')
                return self.pipe(f, fn, sources, env, depth + 1) + \
                    [files[expr.id][0]]
            if expr.id in names and len(names[expr.id]) == 1:
                return self.pipe(f, names[expr.id][0], sources, env,
                                 depth + 1)
            # a free variable of a nested function: bound once in the
            # enclosing function - the operations on it ran there
            outer = f.parent
            if expr.id not in names and outer is not None:
                onames, ofiles = self.env(outer)
                if expr.id in onames and len(onames[expr.id]) == 1:
                    ops = self.pipe(outer, onames[expr.id][0], sources, None,
                                    depth + 1)
                    if ops:
                        self.hoisted.append((f, expr.id, outer, ops))
                    return ops
            if expr.id not in names:
                # the function which builds the value, or one that encloses
                # it: an object of the program, not something a caller gave
                g = f
                while g is not None:
                    if g.name == expr.id and g.parent is not None and \
                            expr.id in g.parent.nested:
                        raise NoSource(expr, 'the function %s itself (the '
                                       'wrapper which builds the value)'
                                       % g.qual)
                    g = g.parent
                r = self.prog.lookup(f.module, expr.id)
                if r and r[0] in ('func', 'class') and not any(
                        expr.id in h.params for h in (f, outer) if h):
                    raise NoSource(expr, 'the module level %s %s'
                                   % ('function' if r[0] == 'func' else
                                      'class', expr.id))
                if f.cls is not None and not any(
                        isinstance(d, ast.Name) and d.id == 'staticmethod'
                        for d in f.node.decorator_list) and f.params[:1] == \
                        [expr.id] and f.parent is None:
                    raise NoSource(expr, 'the class / instance %r the method '
                                   'is called on' % expr.id)
            raise Unrec('name %r is neither a parameter nor bound exactly '
                        'once in %s%s' % (expr.id, f.qual, ' or %s'
                                          % outer.qual if outer else ''))
        if isinstance(expr, ast.BoolOp) and isinstance(expr.op, ast.Or):
            # `x or <default>`: the default replaces a missing value only
            return self.pipe(f, expr.values[0], sources, env, depth + 1)
        if isinstance(expr, ast.BoolOp) and isinstance(expr.op, ast.And):
            # `a and b`: for every set (truthy) a the value is b
            return self.pipe(f, expr.values[-1], sources, env, depth + 1)
        if isinstance(expr, ast.IfExp) and (sources(expr.test) or (
                isinstance(expr.test, ast.UnaryOp) and
                isinstance(expr.test.op, ast.Not) and
                sources(expr.test.operand))):
            # `x if x else d` / `d if not x else x`: the arm for a set x
            pos = sources(expr.test)
            return self.pipe(f, expr.body if pos else expr.orelse, sources,
                             env, depth + 1)
        acc = _store_access(expr)
        if acc is not None:
            fills = self.store_fills(f, acc)
            if fills:
                return self.store_read(f, expr, acc, fills, sources, env,
                                       depth)
        if _fixed_value(expr):
            raise NoSource(expr, 'the literal `%s`' % short(expr, 30))
        if isinstance(expr, ast.Call):
            fn = expr.func
            r = self.prog.resolve(f.module, fn) \
                if isinstance(fn, (ast.Name, ast.Attribute)) else None
            arg0 = expr.args[0] if expr.args else None
            if r and r[0] == 'ext' and arg0 is not None:
                ext = r[1]
                if ext in ('dill.dumps', 'pickle.dumps', 'dill.loads',
                           'pickle.loads'):
                    return self.pipe(f, arg0, sources, env, depth + 1) + [ext]
                if ext in ('dill.load', 'pickle.load'):
                    return self.pipe(f, arg0, sources, env, depth + 1) + \
                        [ext + 's']
                if ext in ('codecs.encode', 'codecs.decode'):
                    codec = kwarg(expr, 'encoding', 1)
                    cv = self.prog.fold(f.module, codec) if codec is not \
                        None else 'utf-8'
                    op = {'base64': 'b64'}.get(cv, 'codec:%s:' % (cv,)) + \
                        ext[-6:-3]
                    return self.pipe(f, arg0, sources, env, depth + 1) + [op]
            if isinstance(fn, ast.Name) and fn.id in NEUTRAL_CALLS and \
                    arg0 is not None and len(expr.args) == 1:
                return self.pipe(f, arg0, sources, env, depth + 1)
            if isinstance(fn, ast.Attribute) and fn.attr in ('decode',
                                                             'encode') \
                    and (r is None):
                enc = [self.prog.fold(f.module, a) for a in expr.args]
                op = '.' + fn.attr + (':%s' % enc if enc else '')
                return self.pipe(f, fn.value, sources, env, depth + 1) + [op]
            if isinstance(fn, ast.Attribute) and fn.attr == 'read' and \
                    not expr.args:
                return self.pipe(f, fn.value, sources, env, depth + 1)
            callee = self.prog.resolve_call(f, expr)
            if callee is not None and arg0 is not None and \
                    callee.module.rel == SER:
                inner = self.pipe(f, arg0, sources, env, depth + 1)
                ps = self.func_pipes(callee)
                if len(ps) != 1:
                    raise Unrec('%s has %d different pipelines'
                                % (callee.where, len(ps)))
                return inner + list(list(ps)[0])
        raise Unrec('`%s`' % short(expr, 50))

    # a value read from a keyed store (`C[k]`, `C.get(k)`, `C.setdefault(k,
    # V)`) which the function fills itself: the pipeline of what is stored
    def store_fills(self, f, acc):
        cont, key, inline, how = acc
        cid = _store_id(f, cont)
        out = []
        for n in walk(f.node):
            if isinstance(n, ast.Assign):
                for t in n.targets:
                    if isinstance(t, ast.Subscript) and not isinstance(
                            t.slice, ast.Slice) and \
                            _store_id(f, t.value) == cid:
                        out.append(dict(key=t.slice, value=n.value, stmt=n,
                                        refresh=True))
            elif isinstance(n, ast.Call) and isinstance(n.func, ast.Attribute) \
                    and n.func.attr == 'setdefault' and len(n.args) == 2 and \
                    not n.keywords and _store_id(f, n.func.value) == cid:
                out.append(dict(key=n.args[0], value=n.args[1], stmt=n,
                                refresh=False))
        return out

    def store_read(self, f, expr, acc, fills, sources, env, depth):
        cont, key, inline, how = acc
        names, files = env
        vals = [fl['value'] for fl in fills]
        if inline is not None and how == 'get':
            vals.append(inline)
        pipes = {tuple(self.pipe(f, v, sources, env, depth + 1)) for v in vals}
        if len(pipes) != 1:
            raise Unrec('the entries of `%s` are made in %d different ways'
                        % (short(cont, 30), len(pipes)))
        for fl in fills:
            if not _same_key(key, fl['key'], names):
                raise Unrec('`%s` is read under `%s` but filled under `%s`'
                            % (short(cont, 30), short(key, 30),
                               short(fl['key'], 30)))
        self.memos.append(dict(f=f, read=expr, cont=cont, key=key,
                               cid=_store_id(f, cont), fills=fills,
                               names=names))
        return list(list(pipes)[0])

    def func_pipes(self, f):
        """set of pipelines (tuples) a codec function applies to its first
        parameter"""
        if f.where in self._func:
            return self._func[f.where]
        params = f.params
        if not params:
            raise Unrec('%s has no parameter' % f.where)
        src = lambda e: isinstance(e, ast.Name) and e.id == params[0]
        names, files = self.env(f)
        out = set()
        # writes into a file opened for writing
        wrote = None
        rets = {unparse(n.value) for n in walk(f.node)
                if isinstance(n, ast.Return) and n.value is not None}
        side = []
        for c in calls_in(f.node):
            ent = None
            if isinstance(c.func, ast.Attribute) and c.func.attr == 'write' \
                    and isinstance(c.func.value, ast.Name) and \
                    c.func.value.id in files and \
                    files[c.func.value.id][1] == 'w' and c.args:
                ent = files[c.func.value.id]
            else:
                parts = _open_parts(self.prog, f, c)
                if parts is not None and parts[2] and c.args:
                    # pathlib write_bytes / write_text
                    ent = ('file:b' if 'b' in parts[1].value else 'file:t',
                           'w', c, parts[0])
            if ent is None:
                continue
            if ent[3] is not None and unparse(ent[3]) not in rets and rets:
                # a file next to the one whose name the function hands back
                # (a log, a trace): not the encoded value
                side.append(ent)
                continue
            wrote = (ent, self.pipe(f, c.args[0], src, (names, files)))
        if wrote is None and side:
            raise Unrec('%s writes a file but returns `%s`'
                        % (f.where, ' / '.join(sorted(rets))[:40]))
        for n in walk(f.node):
            if isinstance(n, ast.Return) and n.value is not None:
                if wrote is not None:
                    # the function hands back the name it wrote to
                    fname = wrote[0][3]
                    if fname is None or unparse(fname) != unparse(n.value):
                        raise Unrec('%s writes a file but returns `%s`'
                                    % (f.where, short(n.value, 30)))
                    out.add(tuple(wrote[1] + [wrote[0][0]]))
                else:
                    out.add(tuple(self.pipe(f, n.value, src, (names, files))))
        if not out:
            raise Unrec('%s returns nothing' % f.where)
        self._func[f.where] = out
        return out


def inverse(enc, dec):
    if len(enc) != len(dec):
        return False
    for i, op in enumerate(dec):
        if INVERSE.get(enc[-1 - i]) != op:
            return False
    return True


def _direct_encoder(f):
    """(dict literal, return stmt) if f returns <codec>(<dict literal>)"""
    lits = {}
    for n in walk(f.node):
        if isinstance(n, ast.Assign) and isinstance(n.value, ast.Dict) and \
                len(n.targets) == 1 and isinstance(n.targets[0], ast.Name):
            lits[n.targets[0].id] = n.value
    for n in walk(f.node):
        if isinstance(n, ast.Return) and isinstance(n.value, ast.Call) \
                and n.value.args:
            a = n.value.args[0]
            d = a if isinstance(a, ast.Dict) else (
                lits.get(a.id) if isinstance(a, ast.Name) else None)
            if d is not None:
                return d, n
    return None


class _Sub(ast.NodeTransformer):
    def __init__(self, mapping):
        self.mapping = mapping

    def visit_Name(self, node):
        if node.id in self.mapping and isinstance(node.ctx, ast.Load):
            import copy
            return copy.deepcopy(self.mapping[node.id])
        return node


def _encoders(prog):
    """encoders of pytask.py: methods of PythonTask (and functions nested in
    them) which return <codec>(<dict literal>), directly or through a module
    level helper which does.  Records: dict(f=wrapper, anchor=node in f,
    values=[value expressions in the scope of f], of/olit/oret=function,
    literal and return statement which apply the outer codec)"""
    c = prog.cls(*PYT)
    out = []
    todo = list(c.methods.values())
    while todo:
        f = todo.pop()
        todo += list(f.nested.values())
        d = _direct_encoder(f)
        if d is not None:
            out.append(dict(f=f, anchor=d[0], values=list(d[0].values),
                            of=f, olit=d[0], oret=d[1]))
            continue
        for n in walk(f.node):
            if not (isinstance(n, ast.Return) and
                    isinstance(n.value, ast.Call)):
                continue
            h = prog.resolve_call(f, n.value)
            if h is None or h.cls is not None or h.module is not f.module:
                continue
            hd = _direct_encoder(h)
            if hd is None:
                continue
            call, params = n.value, h.params
            if any(isinstance(a, ast.Starred) for a in call.args) or \
                    any(k.arg is None for k in call.keywords) or \
                    len(call.args) > len(params):
                raise AnalysisError('UNRECOGNISED-IDIOM %s: `%s`'
                                    % (f.where, short(call, 60)))
            mapping = dict(zip(params, call.args))
            for k in call.keywords:
                mapping[k.arg] = k.value
            if set(mapping) != set(params):
                raise AnalysisError('UNRECOGNISED-IDIOM %s: `%s` does not '
                                    'bind every parameter of %s'
                                    % (f.where, short(call, 60), h.qual))
            import copy
            vals = [ast.fix_missing_locations(ast.copy_location(
                _Sub(mapping).visit(copy.deepcopy(v)), call))
                for v in hd[0].values]
            out.append(dict(f=f, anchor=call, values=vals, of=h,
                            olit=hd[0], oret=hd[1]))
    return sorted(out, key=lambda x: x['f'].where)


def _param_default(f, name):
    """default expression of parameter `name`, 'var' for *args/**kwargs,
    None if it has no default"""
    a = f.node.args
    if a.vararg and a.vararg.arg == name:
        return 'var'
    if a.kwarg and a.kwarg.arg == name:
        return 'var'
    pos = a.posonlyargs + a.args
    for p, d in zip(pos[len(pos) - len(a.defaults):], a.defaults):
        if p.arg == name:
            return d
    for p, d in zip(a.kwonlyargs, a.kw_defaults):
        if p.arg == name and d is not None:
            return d
    return None


def r19_4(prog, rep, rid='R19.4'):
    rep.rule(rid, 'serialize_*/deserialize_* compose inverse primitives in '
             'reverse order; the PythonTask encoders and get_func_attr agree '
             'on keys, per-key codecs and the outer codec; a default of None '
             'is not handed to a consumer which unpacks it', minimum=19)
    rep.rule('R19.4b', 'every value of a PythonTask payload is encoded '
             'inside the function which builds the payload (at call time), '
             'not once in an enclosing scope', minimum=6)
    rep.rule('R19.9', 'every value of a PythonTask payload which the decoder '
             'reads is, for every set argument, computed from a parameter of '
             'the encoder (what the caller handed in) - not a literal, not '
             'the wrapper or another object of the program; two entries are '
             'not made from one parameter while another reaches none',
             minimum=8)
    rep.rule('R19.14', 'a payload value which an encoder reads back from a '
             'keyed store that outlives the call (a memo of the encoded '
             'function) is stored under a key which carries every parameter '
             'the entry is made from as it is (the parameter, a tuple with '
             'it, id() of it) - a key computed from a part of the argument '
             '(an attribute, getattr, type, a name) lets two different '
             'arguments share the entry of the first', minimum=6)
    P = Pipes(prog)
    ser = prog.module(SER)
    # (d) primitives
    pairs = []
    for name, f in sorted(ser.funcs.items()):
        if name.startswith('serialize_'):
            g = ser.funcs.get('de' + name)
            if g is None:
                rep.bad(rid, f, 'no inverse', '%s has no de%s' % (name, name),
                        f.loc())
                continue
            pairs.append((f, g))
    if len(pairs) < 3:
        raise AnalysisError('%s: only %d serialize_/deserialize_ pairs in %s'
                            % (rid, len(pairs), SER))
    for f, g in pairs:
        rep.saw(f)
        rep.saw(g)
        try:
            ep, dp = P.func_pipes(f), P.func_pipes(g)
        except Unrec as e:
            raise AnalysisError('UNRECOGNISED-IDIOM %s / %s: %s'
                                % (f.where, g.where, e))
        okp = all(inverse(list(e), list(d)) for e in ep for d in dp)
        rep.check(okp, rid, g,
                  '%s undoes %s: %s <-> %s' % (g.name, f.name,
                                               sorted(ep), sorted(dp)),
                  construct='%s/%s' % (f.name, g.name),
                  message='%s applies %s, %s applies %s: not the inverse '
                  'primitives in reverse order' % (
                      f.name, [list(e) for e in sorted(ep)], g.name,
                      [list(d) for d in sorted(dp)]),
                  loc=g.loc(),
                  history='%s(%s(x)) raises or differs from x for every x'
                  % (g.name, f.name))
    # PythonTask
    dec = prog.method(PYT[0], PYT[1], 'get_func_attr')
    rep.saw(dec)
    dparams = dec.params
    if not dparams:
        raise AnalysisError('%s has no parameter' % dec.where)
    # the decoded object: name bound to <codec>(param)
    obj, obj_expr = None, None
    for n in walk(dec.node):
        if isinstance(n, ast.Assign) and len(n.targets) == 1 and \
                isinstance(n.targets[0], ast.Name) and \
                isinstance(n.value, ast.Call) and n.value.args and \
                isinstance(n.value.args[0], ast.Name) and \
                n.value.args[0].id == dparams[0]:
            obj, obj_expr = n.targets[0].id, n.value
    if obj is None:
        raise AnalysisError('UNRECOGNISED-IDIOM %s: the decoded object is not '
                            'bound to a name' % dec.where)

    def is_item(e):
        return isinstance(e, ast.Subscript) and isinstance(e.value, ast.Name) \
            and e.value.id == obj and isinstance(e.slice, ast.Constant)

    try:
        d_outer = P.pipe(dec, obj_expr, lambda e: isinstance(e, ast.Name)
                         and e.id == dparams[0])
    except Unrec as e:
        raise AnalysisError('UNRECOGNISED-IDIOM %s: %s' % (dec.where, e))
    d_keys = {}              # key -> (expr which decodes it, pipeline)
    for n in walk(dec.node):
        vals = []
        if isinstance(n, ast.Assign):
            vals = [n.value]
        elif isinstance(n, ast.Return) and n.value is not None:
            vals = n.value.elts if isinstance(n.value, ast.Tuple) \
                else [n.value]
        for v in vals:
            items = [x for x in walk(v) if is_item(x)]
            ks = {x.slice.value for x in items}
            if len(ks) != 1:
                continue
            k = list(ks)[0]
            core = v
            normal = False
            if isinstance(v, ast.BoolOp) and isinstance(v.op, ast.Or) and \
                    any(is_item(x) for x in walk(v.values[0])):
                core, normal = v.values[0], True
            if isinstance(v, ast.IfExp):
                normal = True
                core = v.body if any(is_item(x) for x in walk(v.body)) \
                    else v.orelse
            try:
                d_keys[k] = (v, P.pipe(dec, core, is_item), normal)
            except Unrec as e:
                raise AnalysisError('UNRECOGNISED-IDIOM %s: %s'
                                    % (dec.where, e))
    if not d_keys:
        raise AnalysisError('UNRECOGNISED-IDIOM %s reads no key of the '
                            'decoded object' % dec.where)
    # schema test of the decoder: `k not in obj for k in (...)`: the keys it
    # demands (a payload without one of them is refused)
    demanded = set()
    for n in walk(dec.node):
        if isinstance(n, ast.GeneratorExp) and len(n.generators) == 1 and \
                isinstance(n.elt, ast.Compare) and \
                isinstance(n.elt.ops[0], (ast.In, ast.NotIn)) and \
                isinstance(n.elt.comparators[0], ast.Name) and \
                n.elt.comparators[0].id == obj:
            want = prog.fold(dec.module, n.generators[0].iter)
            if want is not UNKNOWN:
                demanded |= set(want)
    for n in walk(dec.node):
        if isinstance(n, ast.For) and isinstance(n.target, ast.Name):
            want = fold_name(prog, dec.module, n.iter)
            if isinstance(want, (list, tuple)) and any(
                    isinstance(c, ast.Compare) and len(c.ops) == 1 and
                    isinstance(c.ops[0], (ast.In, ast.NotIn)) and
                    isinstance(c.left, ast.Name) and
                    c.left.id == n.target.id and
                    isinstance(c.comparators[0], ast.Name) and
                    c.comparators[0].id == obj for c in walk(n)):
                demanded |= set(want)
    encs = _encoders(prog)
    if len(encs) < 2:
        raise AnalysisError('%s: only %d PythonTask encoder(s) found'
                            % (rid, len(encs)))
    consumer = _consumer_unpacks(prog, dec, d_keys)
    for enc in encs:
        f, lit = enc['f'], enc['anchor']
        of, olit, ret = enc['of'], enc['olit'], enc['oret']
        rep.saw(f)
        keys = dict_keys(prog, of.module, of.cls, olit)
        need = set(d_keys) | demanded
        rep.check(need <= set(keys), rid, f,
                  '%s encodes every key the decoder reads or demands %s'
                  % (f.qual, sorted(need)), construct='keys',
                  message='%s encodes keys %s, get_func_attr reads %s and '
                  'demands %s: %s missing' % (
                      f.qual, sorted(keys), sorted(d_keys), sorted(demanded),
                      sorted(need - set(keys))), loc=f.loc(lit),
                  history='every task encoded by %s fails to decode '
                  '(KeyError / TypeError in get_func_attr)' % f.qual)
        try:
            e_outer = P.pipe(of, ret.value, lambda e: e is olit or (
                isinstance(e, ast.Name) and isinstance(ret.value.args[0],
                                                       ast.Name)
                and e.id == ret.value.args[0].id))
        except Unrec as e:
            raise AnalysisError('UNRECOGNISED-IDIOM %s: %s' % (f.where, e))
        rep.check(inverse(e_outer, d_outer), rid, f,
                  '%s: outer codec %s is undone by the decoder %s'
                  % (f.qual, e_outer, d_outer), construct='outer codec',
                  message='%s encodes the task with %s, get_func_attr decodes '
                  'with %s' % (f.qual, e_outer, d_outer), loc=of.loc(ret),
                  history='get_func_attr(%s(...)) raises' % f.qual)
        params = set()
        for h in (f, f.parent):
            if h is None:
                continue
            own = list(h.params)
            if h.cls is not None and h.parent is None and own and not any(
                    isinstance(d, ast.Name) and d.id == 'staticmethod'
                    for d in h.node.decorator_list):
                own = own[1:]           # cls / self: not given by the caller
            params |= set(own)
        values = dict(zip(keys, enc['values']))
        carried = {}             # payload key -> parameters it is made from
        for k in sorted(set(keys) | set(d_keys)):
            if k not in d_keys or k not in values:
                # reported by the key-set obligation above
                rep.ok(rid, f, '%s: key %r has no counterpart to compare'
                       % (f.qual, k), f.loc(lit))
                rep.ok('R19.4b', f, '%s: key %r has no counterpart'
                       % (f.qual, k), f.loc(lit))
                rep.ok('R19.9', f, '%s: key %r has no counterpart'
                       % (f.qual, k), f.loc(lit))
                rep.ok('R19.14', f, '%s: key %r has no counterpart'
                       % (f.qual, k), f.loc(lit))
                continue
            v = values[k]
            P.hoisted = []
            P.memos = []
            hits = carried.setdefault(k, [])
            try:
                ek = P.pipe(f, v, lambda e: isinstance(e, ast.Name)
                            and e.id in params and
                            (hits.append(e.id) or True))
            except NoSource as e:
                rep.bad('R19.9', f, '%s: not from a parameter' % k,
                        '%s puts `%s` into the payload under %r; for a set '
                        'argument that value is %s, whatever the caller '
                        'passed: get_func_attr decodes it without complaint, '
                        'and the call made from the decoded (func, args, '
                        'kwargs) is not the call the application encoded'
                        % (f.qual, short(v, 50), k, e.why), f.loc(v),
                        history={
                            'func': 'decoding a task encoded by %s gives a '
                            'callable which is not the function handed in: '
                            'calling it with the decoded arguments returns '
                            'something else than f(*args, **kwargs) (for the '
                            'wrapper itself: another encoded task)' % f.qual,
                        }.get(k, "%s with %s set (e.g. {'y': 5} / (1, 2)): "
                              "the decoded %s is %s, the call runs without "
                              "the caller's %s" % (f.qual, k, k, e.why, k)))
                for r2 in (rid, rid, 'R19.4b', 'R19.14'):
                    rep.ok(r2, f, '%s: value of %r is not computed from a '
                           'parameter (see R19.9)' % (f.qual, k), f.loc(v))
                continue
            except Unrec as e:
                raise AnalysisError('UNRECOGNISED-IDIOM %s: value of %r in '
                                    'the payload: %s' % (f.where, k, e))
            hoisted = list(P.hoisted)
            rep.ok('R19.9', f, '%s: value of %r is computed from a parameter '
                   'of the encoder' % (f.qual, k), f.loc(v))
            _memo_obligation(rep, f, k, v, list(P.memos), params)
            rep.check(not hoisted, 'R19.4b', f,
                      '%s: the value of %r is encoded when the payload is '
                      'built' % (f.qual, k), construct='%s: encoded outside'
                      % k,
                      message='%s puts `%s` into the payload under %r, but '
                      'that value was encoded (%s) in the enclosing %s, i.e. '
                      'once when the wrapper was created and not when the '
                      'payload is built: what is pickled by value (closure '
                      'cells, defaults, attributes of a local function) is '
                      'the state at decoration time. The other encoder%s '
                      'encode%s at call time' % (
                          f.qual, hoisted[0][1] if hoisted else '', k,
                          ', '.join(hoisted[0][3]) if hoisted else '',
                          hoisted[0][2].qual if hoisted else '',
                          '' if len(encs) == 2 else 's',
                          's' if len(encs) == 2 else ''),
                      loc=f.loc(v),
                      history='factor = 0; @pythontask def scaled(x): return '
                      'x * factor; then factor = 2; scaled(10) -> the decoded '
                      'callable returns 0, the function itself 20 (and '
                      'PythonTask(scaled, (10,)) decodes to 20)')
            rep.check(inverse(ek, d_keys[k][1]), rid, f,
                      '%s: value of %r encoded with %s, decoded with %s'
                      % (f.qual, k, ek, d_keys[k][1]),
                      construct='codec:%s' % k,
                      message='%s stores %r encoded with %s but get_func_attr '
                      'decodes it with %s' % (f.qual, k, ek, d_keys[k][1]),
                      loc=f.loc(v),
                      history='the decoded %r is not what was encoded (or '
                      'decoding raises)' % k)
            # (c) None handed to a consumer which unpacks it
            none_dflt = False
            if isinstance(v, ast.BoolOp) and isinstance(v.op, ast.And):
                # `x and ..`: an unset x is stored as it is
                v = v.values[0]
            if isinstance(v, ast.Name) and v.id in f.params:
                dflt = _param_default(f, v.id)
                rebound = any(
                    isinstance(n, (ast.Assign, ast.AugAssign)) and v.id in
                    [x.id for t in (n.targets if isinstance(n, ast.Assign)
                                    else [n.target]) for x in walk(t)
                     if isinstance(x, ast.Name)] for n in walk(f.node))
                none_dflt = isinstance(dflt, ast.Constant) and \
                    dflt.value is None and not rebound
            unpack = consumer.get(k)
            bad = none_dflt and not d_keys[k][2] and unpack is not None
            rep.check(not bad, rid, f,
                      '%s: %r is never None when the consumer unpacks it'
                      % (f.qual, k), construct='%s=None' % k,
                      message='%s stores its parameter %r (default None) '
                      'under %r; get_func_attr returns it unchanged and %s '
                      'unpacks it with `%s`' % (
                          f.qual, v.id if isinstance(v, ast.Name) else k, k,
                          unpack[0].qual if unpack else '',
                          short(unpack[1], 50) if unpack else ''),
                      loc=f.loc(v),
                      history='PythonTask(f) without %s: get_func_attr '
                      'returns %s=None and the call %s raises TypeError: the '
                      'task fails although f is fine' % (
                          k, k, short(unpack[1], 40) if unpack else ''))
        _distinct_sources(rep, f, carried, params, lit)


def _memo_obligation(rep, f, k, v, memos, params, rid='R19.14'):
    """the payload value v (key k) of encoder f was resolved through the
    reads `memos` of keyed stores"""
    if not memos:
        rep.ok(rid, f, '%s: the value of %r is computed by the call which '
               'builds the payload, no store is read' % (f.qual, k), f.loc(v))
        return
    bad = None
    notes = []
    for m in memos:
        try:
            verdict, detail = memo_decide(m['f'], m, params)
        except Unrec as e:
            raise AnalysisError('UNRECOGNISED-IDIOM %s: value of %r in the '
                                'payload: %s' % (f.where, k, e))
        notes.append('`%s` %s' % (short(m['read'], 30), {
            'local': 'lives for this call only',
            'fresh': 'is stored by every call before it is read',
            'keyed': 'is keyed by the parameters its entries are made from',
            'coarse': 'is keyed too coarsely'}[verdict]))
        if verdict == 'coarse' and bad is None:
            bad = (m, detail)
    m, (lost, key, val) = bad if bad else (memos[0], ((), None, None))
    rep.check(bad is None, rid, f,
              '%s: value of %r: %s' % (f.qual, k, '; '.join(notes)),
              construct='%s: memo key' % k,
              message='%s takes the payload value %r from the store `%s`, '
              'which outlives the call and is filled only when the key is '
              'new, under the key `%s`; the entry `%s` is made from the '
              'parameter%s %s, which that key does not carry as %s: two '
              'different arguments with an equal key (for a key made from an '
              'attribute of a callable such as __code__ / __name__: closures '
              'of one factory, functions which differ in defaults or cells, '
              'bound methods of two instances) share one entry, and every '
              'later payload carries the encoded value of the FIRST argument'
              % (f.qual, k, short(m['cont'], 40),
                 short(key, 60) if key is not None else '',
                 short(val, 50) if val is not None else '',
                 's' if len(lost) > 1 else '', ', '.join(map(repr, lost)),
                 'they are' if len(lost) > 1 else 'it is'),
              loc=f.loc(v),
              history='def scale(n): return lambda x: x * n; '
              '%s(scale(2), (3,)) then %s(scale(5), (3,)) in one process: '
              'both closures have the same key, get_func_attr of the second '
              'payload returns the first closure and the task computes 6 '
              'instead of 15' % (f.qual.split('.')[0], f.qual.split('.')[0]))


def _distinct_sources(rep, f, carried, params, lit):
    """two payload entries made from the same parameter while another
    parameter reaches none: one of the two names the wrong variable"""
    used = {p for ps in carried.values() for p in ps}
    twice = sorted(p for p in used
                   if sum(1 for ps in carried.values() if p in ps) > 1)
    a = f.node.args
    own = [x.arg for x in a.posonlyargs + a.args + a.kwonlyargs] + \
        [x.arg for x in (a.vararg, a.kwarg) if x is not None]
    lost = sorted(p for p in own if p in params and p not in used)
    bad = bool(twice and lost)
    rep.check(not bad, 'R19.9', f,
              '%s: the payload entries %s are made from different parameters'
              % (f.qual, sorted(carried)), construct='same parameter twice',
              message='%s makes the payload entries %s from the one parameter '
              '%r while its parameter %r reaches no entry: the decoded call '
              'gets %r in both places and never sees %r' % (
                  f.qual, sorted(k for k, ps in carried.items()
                                 if twice and twice[0] in ps),
                  twice[0] if twice else '', lost[0] if lost else '',
                  twice[0] if twice else '', lost[0] if lost else ''),
              loc=f.loc(lit),
              history='%s with both %s and %s set: get_func_attr returns the '
              'value of %s for both' % (
                  f.qual, twice[0] if twice else '', lost[0] if lost else '',
                  twice[0] if twice else ''))


def _consumer_unpacks(prog, dec, d_keys):
    """{key: (FuncInfo, call)}: keys of the decoded task which the raptor
    worker unpacks with * / ** without normalising them"""
    out = {}
    # position of each key in the tuple the decoder returns
    pos = {}
    names = {}
    for n in walk(dec.node):
        if isinstance(n, ast.Assign) and len(n.targets) == 1 and \
                isinstance(n.targets[0], ast.Name):
            for k, (v, p, normal) in d_keys.items():
                if n.value is v:
                    names[n.targets[0].id] = k
    for n in walk(dec.node):
        if isinstance(n, ast.Return) and isinstance(n.value, ast.Tuple):
            for i, e in enumerate(n.value.elts):
                if isinstance(e, ast.Name) and e.id in names:
                    pos[i] = names[e.id]
                for k, (v, p, normal) in d_keys.items():
                    if e is v:
                        pos[i] = k
    if not pos:
        return out
    wc = prog.cls(*WRK)
    for f in wc.methods.values():
        for n in walk(f.node):
            if not (isinstance(n, ast.Assign) and isinstance(n.value, ast.Call)
                    and prog.resolve_call(f, n.value, wc) is dec and
                    isinstance(n.targets[0], ast.Tuple)):
                continue
            for i, t in enumerate(n.targets[0].elts):
                if i not in pos or not isinstance(t, ast.Name):
                    continue
                alias = {t.id}
                normal = False
                for _ in range(3):
                    for a in walk(f.node):
                        if isinstance(a, ast.Assign) and \
                                len(a.targets) == 1 and \
                                isinstance(a.targets[0], ast.Name):
                            if isinstance(a.value, ast.Name) and \
                                    a.value.id in alias:
                                alias.add(a.targets[0].id)
                            elif isinstance(a.value, (ast.BoolOp, ast.IfExp)) \
                                    and any(isinstance(x, ast.Name) and
                                            x.id in alias
                                            for x in walk(a.value)):
                                normal = True
                if normal:
                    continue
                for c in calls_in(f.node):
                    for a in c.args:
                        if isinstance(a, ast.Starred) and \
                                isinstance(a.value, ast.Name) and \
                                a.value.id in alias:
                            out.setdefault(pos[i], (f, c))
                    for kw in c.keywords:
                        if kw.arg is None and isinstance(kw.value, ast.Name) \
                                and kw.value.id in alias:
                            out.setdefault(pos[i], (f, c))
    return out


# ------------------------------------------------------------------------------
# R19.5  slot converters
#
def _slot_reads(expr, slot):
    """keys of the input slot read directly in expr"""
    out = set()
    for n in walk(expr):
        k = self_key(n, slot)
        if k is not None:
            out.add(k)
    return out


def _prov(expr, env, slot):
    """set of input-slot keys the value of expr is computed from"""
    if expr is None:
        return frozenset()
    if isinstance(expr, (ast.ListComp, ast.SetComp, ast.GeneratorExp,
                         ast.DictComp)):
        env = dict(env)
        for gen in expr.generators:
            p = _prov(gen.iter, env, slot)
            for nm in stores_in_target(gen.target):
                env[nm] = p
        parts = [expr.elt] if not isinstance(expr, ast.DictComp) else \
            [expr.key, expr.value]
        out = set()
        for e in parts:
            out |= _prov(e, env, slot)
        return frozenset(out)
    k = self_key(expr, slot)
    if k is not None:
        return frozenset([k])
    if isinstance(expr, ast.Name):
        return frozenset(env.get(expr.id, ()))
    out = set()
    for c in ast.iter_child_nodes(expr):
        if isinstance(c, (ast.expr, ast.keyword, ast.comprehension)):
            if isinstance(c, ast.keyword):
                out |= _prov(c.value, env, slot)
            elif isinstance(c, ast.expr):
                out |= _prov(c, env, slot)
    return frozenset(out)


def scope_imports(fn):
    """imports executed in the body of fn or of a function enclosing it"""
    out, g = {}, fn
    while g is not None:
        for k, v in g.module.local_imports(g.node).items():
            out.setdefault(k, v)
        g = g.parent
    return out


def converter_funcs(prog, f):
    """the converter and the helper functions of its module (nested or
    module level) it calls"""
    funcs = [f]
    for fn in funcs:
        for c in calls_in(fn.node):
            callee = prog.resolve_call(fn, c)
            if callee is not None and callee.cls is None and \
                    callee.module is f.module and callee not in funcs:
                funcs.append(callee)
        if len(funcs) > 12:
            break
    return funcs


def converter_facts(prog, f):
    """per-slot loop of a converter: ({key: value expr}, sink node, [env per
    path], discriminator keys)"""
    g = cfg_of(f)
    params = f.params
    loop = None
    for h in g.nodes:
        if h.kind == 'for' and isinstance(h.ast.iter, ast.Name) and \
                h.ast.iter.id == params[0] and \
                isinstance(h.ast.target, ast.Name) and not h.loops:
            loop = h
    if loop is None:
        raise AnalysisError('UNRECOGNISED-IDIOM %s: no loop over %r'
                            % (f.where, params[0]))
    slot = loop.ast.target.id
    smap = I.stmt_node_map(g)
    limp = f.module.local_imports(f.node)
    # the converted slot: argument of <result>.append(..) which is not the
    # input slot itself
    sink = None
    for c in calls_in(loop.ast):
        if isinstance(c.func, ast.Attribute) and c.func.attr == 'append' and \
                len(c.args) == 1 and isinstance(c.args[0], ast.Name) and \
                c.args[0].id != slot and smap.get(id(c)) is not None and \
                loop.id in smap[id(c)].loops[-1:]:
            for n in walk(loop.ast):
                if isinstance(n, ast.Assign) and len(n.targets) == 1 and \
                        isinstance(n.targets[0], ast.Name) and \
                        n.targets[0].id == c.args[0].id:
                    sink = n
    if sink is None:
        raise AnalysisError('UNRECOGNISED-IDIOM %s: the converted slot is not '
                            'built by an assignment and appended' % f.where)
    table = {}
    v = sink.value
    if isinstance(v, ast.Dict):
        keys = dict_keys(prog, f.module, None, v)
        if keys is None:
            raise AnalysisError('UNRECOGNISED-IDIOM %s: computed key'
                                % f.where)
        table = dict(zip(keys, v.values))
    elif isinstance(v, ast.Call):
        r = prog.resolve(f.module, v.func, limp)
        if not (r and r[0] == 'class' and r[1] is prog.cls(RC, 'Slot')):
            raise AnalysisError('UNRECOGNISED-IDIOM %s: `%s` does not build a '
                                'Slot' % (f.where, short(v, 40)))
        if v.args:
            raise AnalysisError('UNRECOGNISED-IDIOM %s: Slot(...) with '
                                'positional arguments' % f.where)
        table = {k.arg: k.value for k in v.keywords if k.arg}
    else:
        raise AnalysisError('UNRECOGNISED-IDIOM %s: converted slot is `%s`'
                            % (f.where, short(v, 40)))
    sink_node = smap[id(sink)]
    # discriminator: keys of the input slot read by the tests which decide
    # whether the slot is converted at all (control dependence of the sink)
    from ..flow import guard_atoms
    disc = set()
    for atom, pol in guard_atoms(g, sink_node.id,
                                 within=g.loop_body[loop.id]):
        disc |= _slot_reads(atom, slot)
    # path-sensitive provenance up to the sink
    start, stop, stop_edge = loop_slice(g, loop.id)

    def transfer(node, edge, st):
        if edge.label == 'exc':
            return st
        env = dict(st)
        a = node.ast
        if node.kind == 'for' and edge.label == 'iter':
            p = _prov(a.iter, env, slot)
            for nm in stores_in_target(a.target):
                env[nm] = p
        elif node.kind == 'stmt' and isinstance(a, ast.Assign):
            p = _prov(a.value, env, slot)
            for t in a.targets:
                for e in I._flat(t):
                    if isinstance(e, ast.Name):
                        env[e.id] = p
                    else:
                        r = root_name(e)
                        if r:
                            env[r] = frozenset(env.get(r, ())) | p
        elif node.kind == 'stmt' and isinstance(a, ast.AugAssign):
            r = root_name(a.target)
            if r:
                env[r] = frozenset(env.get(r, ())) | _prov(a.value, env, slot)
        elif node.kind == 'stmt' and isinstance(a, ast.Expr):
            for c in calls_in(a):
                if isinstance(c.func, ast.Attribute) and \
                        c.func.attr in ('append', 'extend', 'insert', 'add'):
                    r = root_name(c.func.value)
                    if r:
                        p = frozenset()
                        for x in c.args:
                            p |= _prov(x, env, slot)
                        env[r] = frozenset(env.get(r, ())) | p
        return frozenset(env.items())

    ex = Exploration(g, start, frozenset(), transfer,
                     stop=lambda nid: nid == sink_node.id or stop(nid),
                     stop_edge=stop_edge)
    envs = [dict(t.state) for t in ex.terminals if t.node == sink_node.id]
    if not envs:
        raise AnalysisError('%s: the conversion is unreachable' % f.where)
    return slot, table, sink, envs, disc, ex.states


def r19_5(prog, rep, rid='R19.5'):
    rep.rule(rid, 'both slot converters carry every key of Slot._schema '
             '(except the version discriminator) from the same key of the '
             'input slot; every RO built carries index and occupation',
             minimum=13)
    slot_cls = prog.cls(RC, 'Slot')
    ro_cls   = prog.cls(RC, 'RO')
    schema   = class_table_keys(prog, slot_cls, '_schema')
    ro_keys  = class_table_keys(prog, ro_cls, '_schema')
    for fname in ('convert_slots_to_new', 'convert_slots_to_old'):
        f = prog.function(MISC, fname)
        rep.saw(f)
        slot, table, sink, envs, disc, nstates = converter_facts(prog, f)
        rep.stat('paths', nstates)
        keys = [k for k in schema if k not in disc]
        if len(keys) < 6:
            raise AnalysisError('%s: %s: only keys %s of Slot._schema are left '
                                'to check' % (rid, f.where, keys))
        for k in keys:
            if k not in table:
                rep.bad(rid, f, 'dropped:%s' % k,
                        '%s builds the converted slot without %r (a key of '
                        'Slot._schema): the value of the input slot is lost'
                        % (fname, k), f.loc(sink),
                        history='a slot with %s=V: the converted slot has the '
                        'default / no %s' % (k, k))
                continue
            provs = [_prov(table[k], env, slot) for env in envs]
            foreign = [p for p in provs if p and k not in p]
            carried = any(k in p for p in provs)
            rep.check(carried and not foreign, rid, f,
                      '%s: %r of the converted slot comes from %r of the '
                      'input slot' % (fname, k, k), construct='key:%s' % k,
                      message='%s: %r of the converted slot is computed from '
                      '%s of the input slot%s' % (
                          fname, k, sorted(foreign[0]) if foreign
                          else 'nothing', '' if foreign else
                          ' (never from its %r)' % k),
                      loc=f.loc(table[k]),
                      history='a slot whose %s differs from its %s: the '
                      'converted slot has the wrong %s' % (
                          k, '/'.join(sorted(foreign[0])) if foreign
                          else 'default', k))
        # RO(...) calls of the converter and of the module helpers it calls
        funcs, ros = converter_funcs(prog, f), []
        for fn in funcs:
            limp = scope_imports(fn)
            for c in calls_in(fn.node):
                r = prog.resolve(fn.module, c.func, limp)
                if r and r[0] == 'class' and r[1] is ro_cls:
                    ros.append((fn, c))
        if fname == 'convert_slots_to_new':
            if not ros:
                raise AnalysisError('UNRECOGNISED-IDIOM %s builds no RO'
                                    % f.where)
            bad = [(fn, c) for fn, c in ros if not c.args and
                   not set(ro_keys) <= {k.arg for k in c.keywords}]
            rep.check(not bad, rid, f,
                      'all %d RO(...) built by %s set %s' % (len(ros), fname,
                                                             ro_keys),
                      construct=bad[0][1] if bad else 'RO',
                      message='%s builds `%s` without %s: the index or the '
                      'occupation of the resource is lost' % (
                          bad[0][0].qual if bad else '',
                          short(bad[0][1], 50) if bad else '',
                          sorted(set(ro_keys) - {k.arg for k in
                                                 bad[0][1].keywords})
                          if bad else ''),
                      loc=bad[0][0].loc(bad[0][1]) if bad else f.loc(),
                      history='an old-format slot: the new slot names core 0 '
                      '/ has no occupation')


# ------------------------------------------------------------------------------
# R19.10  which component of an input entry goes where (index / occupation)
#
_PLAIN_ITER_CALLS = {'list', 'tuple', 'sorted', 'reversed'}


def _parents(root):
    par = {}
    for n in walk(root):
        for c in ast.iter_child_nodes(n):
            par[id(c)] = n
    return par


def _plain_view(e):
    """the iterated expression is the input list itself (a name, an entry of
    a mapping, an order preserving copy of those) - not enumerate / zip /
    items / a generator, whose items are not entries of the input format"""
    if isinstance(e, (ast.Name, ast.Subscript, ast.Attribute)):
        return True
    if isinstance(e, ast.Call):
        if isinstance(e.func, ast.Name) and e.func.id in _PLAIN_ITER_CALLS \
                and len(e.args) == 1:
            return _plain_view(e.args[0])
        if isinstance(e.func, ast.Attribute) and e.func.attr == 'get':
            return True
    return False


def _binders(node, par):
    """[(target, iterated expr, loop statement or None)] of the loops and
    comprehension clauses enclosing `node`, innermost first"""
    out, n = [], node
    while id(n) in par:
        up = par[id(n)]
        if isinstance(up, (ast.ListComp, ast.SetComp, ast.GeneratorExp,
                           ast.DictComp)) and not any(
                               n is g for g in up.generators):
            out += [(g.target, g.iter, None) for g in reversed(up.generators)]
        elif isinstance(up, ast.For) and any(n is b for b in up.body):
            out.append((up.target, up.iter, up))
        n = up
    return out


def component_of(expr, node, par, depth=0):
    """('pos', i) / ('key', k): which component of an entry of the iterated
    input list the value of expr is; None if it is the entry as a whole or
    anything else"""
    if depth > 4:
        return None
    binders = _binders(node, par)

    def entry(name):
        """binder of a plain loop variable: ('elem',) / ('pos', i)"""
        for tgt, it, loop in binders:
            if isinstance(tgt, ast.Name) and tgt.id == name:
                return ('elem',) if _plain_view(it) else ('other',)
            if isinstance(tgt, (ast.Tuple, ast.List)):
                for i, e in enumerate(tgt.elts):
                    if isinstance(e, ast.Name) and e.id == name:
                        return ('pos', i) if _plain_view(it) and not any(
                            isinstance(x, ast.Starred) for x in tgt.elts) \
                            else ('other',)
        return None

    if isinstance(expr, ast.Name):
        b = entry(expr.id)
        if b is not None:
            return b if b[0] == 'pos' else None
        # bound once in the body of an enclosing loop
        for tgt, it, loop in binders:
            if loop is None:
                continue
            defs = []
            for st in walk_stmts(loop.body):
                if isinstance(st, ast.Assign):
                    for t in st.targets:
                        if isinstance(t, ast.Name) and t.id == expr.id:
                            defs.append((st, st.value, None))
                        elif isinstance(t, (ast.Tuple, ast.List)):
                            for i, e in enumerate(t.elts):
                                if isinstance(e, ast.Name) and \
                                        e.id == expr.id:
                                    defs.append((st, st.value, i))
            if len(defs) == 1:
                st, val, i = defs[0]
                if i is None:
                    return component_of(val, st, par, depth + 1)
                if isinstance(val, ast.Name) and entry(val.id) == ('elem',):
                    return ('pos', i)
                if isinstance(val, (ast.Tuple, ast.List)) and \
                        i < len(val.elts):
                    return component_of(val.elts[i], st, par, depth + 1)
            if defs:
                return None
        return None
    base, sel = None, None
    if isinstance(expr, ast.Subscript) and isinstance(expr.slice, ast.Constant):
        base, sel = expr.value, expr.slice.value
    elif isinstance(expr, ast.Attribute):
        base, sel = expr.value, expr.attr
    elif isinstance(expr, ast.Call) and isinstance(expr.func, ast.Attribute) \
            and expr.func.attr == 'get' and expr.args and \
            isinstance(expr.args[0], ast.Constant):
        base, sel = expr.func.value, expr.args[0].value
    if isinstance(base, ast.Name) and entry(base.id) == ('elem',):
        if isinstance(sel, bool):
            return None
        if isinstance(sel, int):
            return ('pos', sel)
        if isinstance(sel, str):
            return ('key', sel)
    return None


def walk_stmts(stmts):
    for s in stmts:
        if isinstance(s, (ast.FunctionDef, ast.AsyncFunctionDef,
                          ast.ClassDef)):
            continue
        yield s
        for fld in ('body', 'orelse', 'finalbody'):
            yield from walk_stmts(getattr(s, fld, []) or [])
        for h in getattr(s, 'handlers', []) or []:
            yield from walk_stmts(h.body)


def r19_10(prog, rep, rid='R19.10'):
    rep.rule(rid, 'where a slot converter takes an entry of the input apart, '
             'each part goes where it belongs: RO(index=, occupation=) get '
             'the part of that name (dict / RO entries) resp. of that position '
             'in RO._schema order ((index, occupation) pairs); the old format '
             'is built from the index', minimum=6)
    ro_cls  = prog.cls(RC, 'RO')
    ro_keys = class_table_keys(prog, ro_cls, '_schema')
    # old -> new: RO(...) calls
    f = prog.function(MISC, 'convert_slots_to_new')
    for fn in converter_funcs(prog, f):
        limp, par = scope_imports(fn), _parents(fn.node)
        for c in calls_in(fn.node):
            r = prog.resolve(fn.module, c.func, limp)
            if not (r and r[0] == 'class' and r[1] is ro_cls) or c.args:
                continue
            sel = {k.arg: component_of(k.value, c, par)
                   for k in c.keywords if k.arg in ro_keys}
            sel = {k: v for k, v in sel.items() if v is not None}
            if not sel:
                continue
            wrong = []
            for k, (kind, x) in sorted(sel.items()):
                want = k if kind == 'key' else ro_keys.index(k)
                if x != want:
                    wrong.append((k, kind, x, want))
            pairs = any(kind == 'pos' for kind, x in sel.values())
            rep.check(not wrong, rid, fn,
                      '`%s`: %s' % (short(c, 40), ', '.join(
                          '%s <- entry[%r]' % (k, v[1])
                          for k, v in sorted(sel.items()))),
                      construct='RO parts: %s' % ', '.join(
                          '%s<-%r' % (k, x) for k, kind, x, want in wrong),
                      message='%s builds `%s` with %s: %s' % (
                          fn.qual, short(c, 50), '; '.join(
                              '%s taken from part %r of the entry instead of '
                              '%r' % (k, x, want)
                              for k, kind, x, want in wrong),
                          'an entry given as an (index, occupation) pair (the '
                          'order of RO._schema, which the Slot._schema '
                          'comment documents) comes out with index and '
                          'occupation exchanged' if pairs else
                          'an entry given as a dict / RO comes out with the '
                          'wrong value under that name'),
                      loc=fn.loc(c),
                      history="convert_slots_to_new([{'cores': %s, 'gpus': "
                      "[], 'lfs': 0, 'mem': 0, 'node_index': 0, 'node_name': "
                      "'n'}]): the new slot names core 0.5 with occupation 3"
                      % ('[(3, 0.5)]' if pairs else
                         "[{'index': 3, 'occupation': 0.5}]"))
    # new -> old: entries are reduced to their index
    f = prog.function(MISC, 'convert_slots_to_old')
    top = InputFlow(prog, f, f.params[0])

    def over_slots(x, elt, par):
        # the selector reads a SLOT of the input list (the variable of a loop /
        # comprehension over the converter's input), not an entry of a slot
        base = x.func.value if isinstance(x, ast.Call) and \
            isinstance(x.func, ast.Attribute) else getattr(x, 'value', None)
        if not isinstance(base, ast.Name):
            return False
        for tgt, it, loop in _binders(elt, par):
            if base.id in stores_in_target(tgt):
                return top._over_input(it)
        return False

    for fn in converter_funcs(prog, f):
        par = _parents(fn.node)
        for n in walk(fn.node):
            # the element of a comprehension, or of `<list>.append(..)` in a
            # loop over the entries
            if isinstance(n, (ast.ListComp, ast.GeneratorExp)):
                elt = n.elt
            elif isinstance(n, ast.Call) and isinstance(n.func, ast.Attribute) \
                    and n.func.attr == 'append' and len(n.args) == 1:
                elt = n.args[0]
            else:
                continue
            keys = []
            for x in walk(elt):
                sel = component_of(x, elt, par) if isinstance(
                    x, (ast.Subscript, ast.Attribute, ast.Call)) else None
                if sel and sel[0] == 'key' and not (
                        fn is f and over_slots(x, elt, par)):
                    keys.append(sel[1])
            if not keys:
                continue
            rep.check(ro_keys[0] in keys, rid, fn,
                      '`%s` keeps the %s of each entry' % (short(n, 40),
                                                           ro_keys[0]),
                      construct='old entry from %s' % sorted(set(keys)),
                      message='%s reduces each entry of the new slot to `%s` '
                      '(%s): the old format lists core / GPU indices, the '
                      '%s of the entry is lost' % (
                          fn.qual, short(elt, 40), sorted(set(keys)),
                          ro_keys[0]), loc=fn.loc(n),
                      history='convert_slots_to_old([Slot(cores=[RO(index=3, '
                      'occupation=0.5)], ..)]) gives cores [[0.5]] instead '
                      'of [[3]]')


# ------------------------------------------------------------------------------
# R19.7  what a typed-dict constructor normalises is what the base
#        constructor receives (definition must reach the use; aliasing)
#
COPY_FUNCS = {'dict', 'copy.copy', 'copy.deepcopy', 'copy', 'deepcopy',
              'ru.as_dict', 'as_dict'}
NORMALISERS = ((RC, 'Slot'), (RC, 'Node'))


class MapState:
    """per-path facts about the mapping objects of a constructor.
    env   : local name -> token of the object it refers to
    norm  : (token, key) - the entry `key` of that object holds a value the
            constructor stored (a copy inherits the entries of its source)
    events: (token, key) - the stores themselves
    roots : token -> tokens of the caller's objects it was copied from"""

    def __init__(self, env=(), norm=(), events=(), roots=()):
        self.env, self.norm = dict(env), set(norm)
        self.events, self.roots = set(events), dict(roots)

    def freeze(self):
        return (frozenset(self.env.items()), frozenset(self.norm),
                frozenset(self.events), frozenset(self.roots.items()))

    @classmethod
    def thaw(cls, fz):
        return cls(*fz)


def _map_key(sl):
    if isinstance(sl, ast.Constant) and isinstance(sl.value, str):
        return sl.value
    return '$' + unparse(sl)


def _bind(callee, call):
    a = callee.node.args
    pos = [x.arg for x in a.posonlyargs + a.args]
    static = any(isinstance(d, ast.Name) and d.id == 'staticmethod'
                 for d in callee.node.decorator_list)
    if callee.cls is not None and not static and pos and \
            isinstance(call.func, ast.Attribute):
        pos = pos[1:]
    out = {}
    for p, v in zip(pos, call.args):
        if isinstance(v, ast.Starred):
            break
        out[p] = v
    names = set(pos) | {x.arg for x in a.kwonlyargs}
    for k in call.keywords:
        if k.arg in names:
            out[k.arg] = k.value
    return out


def _param_item_stores(callee, param):
    """keys of `<param>[key] = ..` / `<param>.update(key=..)` in callee"""
    out = set()
    for kind, target, stmt in I.stores(callee.node):
        if kind in ('assign', 'aug') and isinstance(target, ast.Subscript) \
                and isinstance(target.value, ast.Name) and \
                target.value.id == param:
            out.add(_map_key(target.slice))
    for c in calls_in(callee.node):
        if call_name(c) == param + '.update':
            out |= {k.arg for k in c.keywords if k.arg}
            for a in c.args:
                if isinstance(a, ast.Dict):
                    out |= {_map_key(k) for k in a.keys if k is not None}
    return out


class CtorMaps:
    """symbolic run of a constructor up to its super().__init__ call"""

    def __init__(self, prog, f):
        self.prog, self.f = prog, f
        self.g = cfg_of(f)
        self.smap = I.stmt_node_map(self.g)
        self.supers = [c for c in calls_in(f.node)
                       if call_name(c) == 'super().__init__' and
                       self.smap.get(id(c)) is not None]
        self.super_nodes = {self.smap[id(c)].id: c for c in self.supers}
        # `x = a or b` over mapping names: one run per choice
        self.choices = []
        self.unknown = {}

    # -- values ---------------------------------------------------------------
    def value(self, expr, st, nid, pick):
        """token of the object expr evaluates to (new tokens are entered into
        st.roots / st.norm)"""
        if isinstance(expr, ast.Name):
            return st.env.get(expr.id, 'g:' + expr.id)
        if isinstance(expr, ast.BoolOp) and isinstance(expr.op, ast.Or) and \
                all(isinstance(v, ast.Name) for v in expr.values):
            i = pick.get(id(expr))
            if i is None:
                raise _NeedChoice(expr)
            return self.value(expr.values[i], st, nid, pick)
        srcs = None
        if isinstance(expr, ast.Call):
            cn = call_name(expr)
            if cn in COPY_FUNCS:
                srcs = [a for a in expr.args] + \
                    [k.value for k in expr.keywords if k.arg is None]
                if any(k.arg is not None for k in expr.keywords) and \
                        cn != 'dict':
                    srcs = None
            elif isinstance(expr.func, ast.Attribute) and \
                    expr.func.attr in ('copy', 'as_dict') and \
                    not expr.args and not expr.keywords:
                srcs = [expr.func.value]
        elif isinstance(expr, ast.Dict) and any(k is None for k in expr.keys):
            srcs = [v for k, v in zip(expr.keys, expr.values) if k is None]
        if srcs is not None and all(isinstance(x, ast.Name) for x in srcs):
            toks = [self.value(x, st, nid, pick) for x in srcs]
            if toks:
                t = 'c:%d:%s' % (nid, '+'.join(toks))
                roots = set()
                for x in toks:
                    roots |= set(st.roots.get(x, (x,)))
                    st.norm |= {(t, k) for tk, k in list(st.norm) if tk == x}
                st.roots[t] = tuple(sorted(roots))
                if any(x.startswith('u:') for x in toks):
                    t = 'u:%d' % nid
                return t
        mentions = [n.id for n in walk(expr) if isinstance(n, ast.Name) and
                    not st.env.get(n.id, 'n:').startswith('n:')]
        return ('u:%d' if mentions else 'n:%d') % nid

    def store(self, st, tok, key):
        st.norm.add((tok, key))
        st.events.add((tok, key))

    # -- one statement --------------------------------------------------------
    def transfer_for(self, pick):
        def transfer(node, edge, fz):
            if edge.label == 'exc':
                return fz
            st = MapState.thaw(fz)
            a = node.ast
            if node.kind == 'for' and edge.label == 'iter':
                for nm in stores_in_target(a.target):
                    st.env[nm] = 'n:%d' % node.id
                return st.freeze()
            if node.kind == 'with':
                for it in a.items:
                    if it.optional_vars is not None:
                        for nm in stores_in_target(it.optional_vars):
                            st.env[nm] = 'n:%d' % node.id
                return st.freeze()
            if node.kind != 'stmt':
                return fz
            # helpers which get a mapping and store into it
            for c in calls_in(a):
                if c in self.supers:
                    continue
                callee = self.prog.resolve_call(self.f, c)
                if callee is None:
                    continue
                for p, v in _bind(callee, c).items():
                    if isinstance(v, ast.Name) and v.id in st.env:
                        for k in _param_item_stores(callee, p):
                            self.store(st, st.env[v.id], k)
            for c in calls_in(a):
                if call_name(c).endswith('.update') and \
                        isinstance(c.func, ast.Attribute) and \
                        isinstance(c.func.value, ast.Name) and \
                        c.func.value.id in st.env and \
                        self.prog.resolve_call(self.f, c) is None:
                    tok = st.env[c.func.value.id]
                    for k in c.keywords:
                        if k.arg:
                            self.store(st, tok, k.arg)
                    for x in c.args:
                        if isinstance(x, ast.Dict):
                            for k in x.keys:
                                if k is not None:
                                    self.store(st, tok, _map_key(k))
            if isinstance(a, (ast.Assign, ast.AnnAssign, ast.AugAssign)):
                targets = a.targets if isinstance(a, ast.Assign) else \
                    [a.target]
                val = None
                for t in targets:
                    for e in I._flat(t):
                        if isinstance(e, ast.Subscript) and \
                                isinstance(e.value, ast.Name) and \
                                e.value.id in st.env:
                            self.store(st, st.env[e.value.id],
                                       _map_key(e.slice))
                for t in targets:
                    if isinstance(t, ast.Name):
                        if isinstance(a, ast.AugAssign) or a.value is None:
                            st.env[t.id] = 'u:%d' % node.id
                            continue
                        if val is None:
                            val = self.value(a.value, st, node.id, pick)
                        st.env[t.id] = val
                    elif isinstance(t, (ast.Tuple, ast.List)):
                        for nm in stores_in_target(t):
                            st.env[nm] = 'u:%d' % node.id
            return st.freeze()
        return transfer

    # -- which entries are present (R19.11) -----------------------------------
    def _entry_read(self, e, env):
        """key K if e is <mapping>.get(K) / <mapping>[K] for a local name
        which refers to an input mapping (or a copy of one)"""
        m, k = None, None
        if isinstance(e, ast.Call) and isinstance(e.func, ast.Attribute) and \
                e.func.attr == 'get' and e.args:
            m, k = e.func.value, e.args[0]
        elif isinstance(e, ast.Subscript):
            m, k = e.value, e.slice
        if isinstance(m, ast.Name) and env.get(m.id, 'u:')[:2] in ('p:', 'c:'):
            if isinstance(k, ast.Constant) and isinstance(k.value, str):
                return k.value
            v = self.prog.fold(self.f.module, k, self.f.cls) \
                if k is not None else UNKNOWN
            if isinstance(v, str):
                return v
        return None

    def presence_step(self, node, edge, x, env):
        """x = (names holding an entry of the input, assumptions made on the
        path about entries being set); None if the edge contradicts them"""
        ent, assume = dict(x[0]), dict(x[1])
        a = node.ast
        if node.kind == 'stmt' and isinstance(a, (ast.Assign, ast.AugAssign,
                                                  ast.AnnAssign)):
            targets = a.targets if isinstance(a, ast.Assign) else [a.target]
            for t in targets:
                for nm in stores_in_target(t):
                    ent.pop(nm, None)
            if isinstance(a, ast.Assign) and len(targets) == 1 and \
                    isinstance(targets[0], ast.Name):
                k = self._entry_read(a.value, env)
                if k is not None:
                    ent[targets[0].id] = k
        elif node.kind in ('for', 'with') and a is not None:
            tg = [a.target] if node.kind == 'for' else [
                it.optional_vars for it in a.items if it.optional_vars]
            for t in tg:
                for nm in stores_in_target(t):
                    ent.pop(nm, None)
        elif node.kind == 'test' and edge.label in ('T', 'F'):
            taken = edge.label == 'T'

            def key_of(e):
                if isinstance(e, ast.Name):
                    return ent.get(e.id)
                return self._entry_read(e, env)
            k, implied = key_of(a), None
            if k is not None:
                implied = taken
            elif isinstance(a, ast.Compare) and len(a.ops) == 1 and \
                    isinstance(a.ops[0], (ast.Is, ast.IsNot)) and \
                    isinstance(a.comparators[0], ast.Constant) and \
                    a.comparators[0].value is None:
                k = key_of(a.left)
                # `x is None` holds: x is not set; it fails: nothing follows
                # (an empty list is not None and not set either)
                if k is not None and taken == isinstance(a.ops[0], ast.Is):
                    implied = False
            if k is not None and implied is not None:
                if assume.get(k, implied) != implied:
                    return None
                assume[k] = implied
        return (frozenset(ent.items()), frozenset(assume.items()))

    def runs(self):
        """[(super call, MapState at the call, literals of a witness path,
        node id, choices, entries assumed set / not set on the path)]"""
        params = [p for p in self.f.params if p != 'self']
        init = MapState(env={p: 'p:' + p for p in params})
        picks = [{}]
        out = []
        tried = 0
        while picks:
            pick = picks.pop()
            tried += 1
            if tried > 16:
                raise AnalysisError('UNRECOGNISED-IDIOM %s: too many `a or b` '
                                    'mapping choices' % self.f.where)
            base = self.transfer_for(pick)

            def transfer(node, edge, state):
                fz, x = state
                x2 = self.presence_step(node, edge, x, dict(fz[0])) \
                    if edge.label != 'exc' else x
                if x2 is None:
                    return None
                fz2 = base(node, edge, fz)
                return None if fz2 is None else (fz2, x2)
            try:
                ex = Exploration(self.g, self.g.entry.id,
                                 (init.freeze(), (frozenset(), frozenset())),
                                 transfer,
                                 stop=lambda nid: nid in self.super_nodes or
                                 nid in (self.g.exit.id, self.g.raise_.id))
            except _NeedChoice as e:
                for i in range(len(e.expr.values)):
                    p2 = dict(pick)
                    p2[id(e.expr)] = i
                    picks.append(p2)
                continue
            for t in ex.terminals:
                if t.node in self.super_nodes:
                    out.append((self.super_nodes[t.node], MapState.thaw(
                        t.state[0]), ex.literals(t), t.node, pick,
                        dict(t.state[1][1])))
        return out


# ------------------------------------------------------------------------------
# R19.12  a slot converter hands the input list back unconverted only when a
#         test on the WHOLE list says so (the format is decided per slot)
#
def _is_input(e, al):
    """the expression is the input list itself or a shallow copy of it"""
    if isinstance(e, ast.Name):
        return e.id in al
    if isinstance(e, ast.Call) and len(e.args) == 1 and not e.keywords:
        fn = dotted(e.func) or ''
        if fn in ('list', 'tuple', 'copy.copy', 'copy'):
            return _is_input(e.args[0], al)
    if isinstance(e, ast.Call) and not e.args and not e.keywords and \
            isinstance(e.func, ast.Attribute) and e.func.attr == 'copy':
        return _is_input(e.func.value, al)
    if isinstance(e, ast.Subscript) and isinstance(e.slice, ast.Slice) and \
            e.slice.lower is None and e.slice.upper is None and \
            e.slice.step is None:
        return _is_input(e.value, al)
    return False


def _own_nodes(fnode):
    """ast nodes of the function without those of nested functions"""
    todo = list(ast.iter_child_nodes(fnode))
    while todo:
        n = todo.pop()
        yield n
        if not isinstance(n, (ast.FunctionDef, ast.AsyncFunctionDef,
                              ast.Lambda)):
            todo.extend(ast.iter_child_nodes(n))


class InputFlow:
    """names which stand for the input list of a function (flow insensitive)
    and the single elements of that list an expression depends on"""

    def __init__(self, prog, f, param):
        self.prog, self.f, self.param = prog, f, param
        self.defs, self.loops = {}, {}
        for n in _own_nodes(f.node):
            if isinstance(n, ast.Assign) and len(n.targets) == 1 and \
                    isinstance(n.targets[0], ast.Name):
                self.defs.setdefault(n.targets[0].id, []).append(n.value)
            elif isinstance(n, ast.For):
                for nm in stores_in_target(n.target):
                    self.loops.setdefault(nm, []).append(n)
        self.al = {param}
        while True:
            more = {nm for nm, vs in self.defs.items() if nm not in self.al
                    and any(_is_input(v, self.al) for v in vs)}
            if not more:
                break
            self.al |= more

    def _over_input(self, it):
        """the loop runs over the input list (plain, enumerate, reversed..)"""
        if _is_input(it, self.al):
            return True
        if isinstance(it, ast.Call) and it.args and \
                (dotted(it.func) or '') in ('enumerate', 'reversed', 'sorted',
                                            'iter'):
            return self._over_input(it.args[0])
        return False

    def elements(self, expr, in_loops=(), _seen=None, _depth=0):
        """[text]: the single elements of the input `expr` depends on: an
        element picked by a constant index / next(iter(..)), the variable of
        a loop over the input when that loop is one of `in_loops` (ast.For
        nodes), and what a module function computes from such an element"""
        seen = set() if _seen is None else _seen
        out = []
        bound = set()
        for n in walk(expr):
            if isinstance(n, ast.comprehension):
                bound |= set(stores_in_target(n.target))
        for n in walk(expr):
            if isinstance(n, ast.Subscript) and _is_input(n.value, self.al) \
                    and not isinstance(n.slice, ast.Slice):
                i = n.slice
                if isinstance(i, ast.UnaryOp) and isinstance(i.op, ast.USub):
                    i = i.operand
                if isinstance(i, ast.Constant) and isinstance(i.value, int):
                    out.append('`%s`' % short(n, 40))
                elif any(isinstance(x, ast.Name) and any(
                        lp in in_loops for lp in self.loops.get(x.id, []))
                        for x in walk(n.slice)):
                    out.append('`%s`' % short(n, 40))
            elif isinstance(n, ast.Call) and dotted(n.func) == 'next' and \
                    n.args and self._over_input(n.args[0]):
                out.append('`%s`' % short(n, 40))
            elif isinstance(n, ast.Call) and _depth < 2:
                out += self._through_call(n, _depth)
            if isinstance(n, ast.Name) and isinstance(n.ctx, ast.Load) and \
                    n.id not in self.al and n.id not in bound and \
                    n.id not in seen:
                seen.add(n.id)
                for lp in self.loops.get(n.id, []):
                    if lp in in_loops and self._over_input(lp.iter):
                        out.append('`%s` (one element of the loop over `%s`)'
                                   % (n.id, short(lp.iter, 30)))
                for v in self.defs.get(n.id, []):
                    out += self.elements(v, in_loops, seen, _depth)
        return out

    def _through_call(self, call, depth):
        """a module level / nested function which gets the input list and
        whose result depends on a single element of it"""
        hit = [i for i, a in enumerate(call.args) if _is_input(a, self.al)]
        kws = [k.arg for k in call.keywords
               if k.arg and _is_input(k.value, self.al)]
        if not hit and not kws:
            return []
        callee = self.prog.resolve_call(self.f, call)
        if callee is None or callee.cls is not None:
            return []
        params = list(callee.params)
        names = [params[i] for i in hit if i < len(params)] + \
                [k for k in kws if k in params]
        out = []
        for nm in names:
            sub = InputFlow(self.prog, callee, nm)
            g = cfg_of(callee)
            for node in g.nodes:
                if node.kind != 'stmt' or not isinstance(node.ast, ast.Return):
                    continue
                exprs = [node.ast.value] if node.ast.value is not None else []
                exprs += [t.ast for t in _controls(g, node.id)]
                for e in exprs:
                    for el in sub.elements(e, (), None, depth + 1):
                        out.append('%s in %s()' % (el, callee.name))
        return out


def _controls(g, target):
    """test nodes the target is control dependent on: the target is reachable
    from the test, but not from one of its branches (without coming back to
    the test)"""
    out = []
    for n in g.nodes:
        if n.kind != 'test':
            continue
        reach = [target in g.reachable(e.dst, skip_nodes={n.id})
                 for e in g.succ[n.id] if e.label in ('T', 'F')]
        if any(reach) and not all(reach):
            out.append(n)
    return out


def _single_slot_list(atom, pol, al):
    """the guard says that the list has one element"""
    if not isinstance(atom, ast.Compare) or len(atom.ops) != 1:
        return False
    l, op, r = atom.left, atom.ops[0], atom.comparators[0]
    if not (isinstance(l, ast.Call) and dotted(l.func) == 'len' and
            len(l.args) == 1 and _is_input(l.args[0], al) and
            isinstance(r, ast.Constant)):
        return False
    return (isinstance(op, ast.Eq) and r.value == 1 and pol) or \
           (isinstance(op, ast.NotEq) and r.value == 1 and not pol) or \
           (isinstance(op, ast.Lt) and r.value == 2 and pol) or \
           (isinstance(op, ast.LtE) and r.value == 1 and pol) or \
           (isinstance(op, ast.Gt) and r.value == 1 and not pol) or \
           (isinstance(op, ast.GtE) and r.value == 2 and not pol)


def r19_12(prog, rep, rid='R19.12'):
    from ..flow import guard_atoms
    rep.rule(rid, 'a slot converter hands its input list back unconverted '
             'only under tests on the whole list: the format is decided slot '
             'by slot, a test on one slot does not decide for the others',
             minimum=2)
    for fname in ('convert_slots_to_new', 'convert_slots_to_old'):
        f = prog.function(MISC, fname)
        rep.saw(f)
        g = cfg_of(f)
        flow = InputFlow(prog, f, f.params[0])
        returned = set()
        for n in g.nodes:
            if n.kind == 'stmt' and isinstance(n.ast, ast.Return) and \
                    isinstance(n.ast.value, ast.Name):
                returned.add(n.ast.value.id)
        events = []
        for n in g.nodes:
            if n.kind != 'stmt':
                continue
            if isinstance(n.ast, ast.Return) and n.ast.value is not None \
                    and _is_input(n.ast.value, flow.al):
                events.append(n)
            elif isinstance(n.ast, ast.Assign) and \
                    _is_input(n.ast.value, flow.al) and any(
                        isinstance(t, ast.Name) and t.id in returned and
                        t.id != flow.param for t in n.ast.targets):
                events.append(n)
        bad = 0
        for ev in events:
            if any(_single_slot_list(a, pol, flow.al)
                   for a, pol in guard_atoms(g, ev.id)):
                continue
            in_loops = tuple(g.loop_ast[h] for h in ev.loops
                             if isinstance(g.loop_ast.get(h), ast.For))
            for t in _controls(g, ev.id):
                els = flow.elements(t.ast, in_loops)
                if not els:
                    continue
                bad += 1
                rep.bad(rid, f, 'one-element test before `%s`'
                        % short(ev.ast, 40),
                        '%s: `%s` hands the input list back as it is, and '
                        'whether it is reached depends on the test `%s` which '
                        'looks at %s only; the other slots of the list may be '
                        'in the other format (the converter itself decides '
                        'the format slot by slot) and stay unconverted'
                        % (fname, short(ev.ast, 40), short(t.ast, 50),
                           ', '.join(sorted(set(els)))), f.loc(t.ast),
                        history='%s([A, B]) where A already has the target '
                        'format and B does not: the test looks at A, the list '
                        'comes back unchanged and B reaches the consumer in '
                        'the wrong format (jsrun indexes slot[\'cores\'] as '
                        'list of lists; Node.allocate_slot reads ro.index)'
                        % fname)
                break
        if not bad:
            rep.ok(rid, f, '%s: %d exit(s) hand the input list back, each '
                   'decided by tests on the whole list' % (fname, len(events)),
                   f.loc())


# ------------------------------------------------------------------------------
# R19.13  a handler which retries the guarded primitive another way (fallback)
#         catches at least what the handler around the retry gives up on
#
def _exc_chain(prog, fn, expr):
    """names of the exception class `expr` and of its bases (builtins by name,
    classes of the pickle module as pickle.X, package classes by `where`);
    None if the class is not known"""
    import builtins
    import pickle as _pickle

    def of_type(k):
        return [q.__name__ if q.__module__ == 'builtins'
                else 'pickle.' + q.__name__
                for q in k.__mro__ if q is not object]
    nm = dotted(expr)
    b = getattr(builtins, nm, None) if nm and '.' not in nm else None
    r = prog.resolve(fn.module, expr, scope_imports(fn))
    if r is None and isinstance(b, type) and issubclass(b, BaseException):
        return of_type(b)
    if r and r[0] == 'ext' and r[1].startswith('pickle.'):
        k = getattr(_pickle, r[1][len('pickle.'):], None)
        if isinstance(k, type) and issubclass(k, BaseException):
            return of_type(k)
    if r and r[0] == 'class':
        out = []
        for k in prog.mro(r[1]):
            out.append(k.where)
            for bx in k.node.bases:
                sub = _exc_chain(prog, fn, bx)
                if sub and prog.resolve(k.module, bx) is None:
                    out += sub
        return out
    return None


def _handler_types(h):
    if h.type is None:
        return [None]
    return list(h.type.elts) if isinstance(h.type, ast.Tuple) else [h.type]


def _ext_calls(prog, fn, stmts):
    """[(call, external dotted name)] in the statements (nested functions
    excluded)"""
    out = []
    limp = scope_imports(fn)
    for st in stmts:
        for c in [st] + list(_own_nodes(st)):
            if isinstance(c, ast.Call) and dotted(c.func):
                r = prog.resolve(fn.module, c.func, limp)
                if r and r[0] == 'ext':
                    out.append((c, r[1]))
    return out


def _enclosing_try(stmts, call):
    """innermost try below `stmts` whose BODY holds the call (None: the call
    is not guarded there)"""
    found = []

    def rec(node, cur):
        if node is call:
            found.append(cur)
            return
        if isinstance(node, (ast.FunctionDef, ast.AsyncFunctionDef,
                             ast.Lambda)):
            return
        if isinstance(node, ast.Try):
            for b in node.body:
                rec(b, node)
            for part in (node.handlers, node.orelse, node.finalbody):
                for b in part:
                    rec(b, cur)
            return
        for c in ast.iter_child_nodes(node):
            rec(c, cur)
    for st in stmts:
        rec(st, None)
    return found[0] if found else None


def _retries(prog, fn, handler, names, depth=0):
    """[(external name, try around the retry | None)]: calls in the handler
    (or in a module function it calls) of an external callee in `names`"""
    out = []
    for c, ext in _ext_calls(prog, fn, handler.body):
        if ext in names:
            out.append((ext, _enclosing_try(handler.body, c)))
    if depth == 0:
        for st in handler.body:
            for c in [st] + list(_own_nodes(st)):
                if not isinstance(c, ast.Call):
                    continue
                callee = prog.resolve_call(fn, c)
                if callee is None or callee.cls is not None or \
                        callee.module is not fn.module:
                    continue
                for c2, ext in _ext_calls(prog, callee, callee.node.body):
                    if ext in names:
                        out.append((ext, _enclosing_try(callee.node.body, c2)
                                    or _enclosing_try(handler.body, c)))
    return out


def r19_13(prog, rep, rid='R19.13'):
    rep.rule(rid, 'a handler of the serializer which tries the failed '
             'primitive again another way (fallback) catches at least the '
             'exceptions on which the handler around that retry gives up',
             minimum=1)
    ser = prog.module(SER)
    for name, fn in sorted(ser.funcs.items()):
        tries = [n for n in _own_nodes(fn.node) if isinstance(n, ast.Try)]
        if not tries:
            continue
        rep.saw(fn)
        found = 0
        for t1 in tries:
            names = {ext for c, ext in _ext_calls(prog, fn, t1.body)}
            if not names:
                continue
            per = {}
            for h in t1.handlers:
                for ext, t2 in _retries(prog, fn, h, names):
                    per.setdefault(ext, []).append((h, t2))
            for ext, hs in sorted(per.items()):
                found += 1
                wide = [ty for h, t2 in hs for ty in _handler_types(h)]
                heads = set()
                for ty in wide:
                    ch = ['BaseException'] if ty is None else \
                        _exc_chain(prog, fn, ty)
                    heads.add(ch[0] if ch else unparse(ty))
                if heads & {'BaseException'}:
                    heads.add('Exception')
                missed = []
                for h, t2 in hs:
                    for h2 in (t2.handlers if t2 is not None else []):
                        for ty in _handler_types(h2):
                            if ty is None:
                                ch = ['Exception']
                            else:
                                ch = _exc_chain(prog, fn, ty)
                                if ch and ch[0] == 'BaseException':
                                    ch = ['Exception']
                            if ch is None:
                                if unparse(ty) in heads or \
                                        'Exception' in heads:
                                    continue
                                raise AnalysisError(
                                    'UNRECOGNISED-IDIOM %s: exception class '
                                    '`%s` is not known' % (fn.where,
                                                           unparse(ty)))
                            if not (heads & set(ch)):
                                missed.append(ty)
                first = hs[0][0]
                rep.check(not missed, rid, fn,
                          '%s: the handler which retries %s catches what the '
                          'handler around the retry catches' % (name, ext),
                          construct='fallback of %s' % ext,
                          message='%s: `except %s` is the handler which tries '
                          '%s again another way, but the handler around that '
                          'second attempt gives up on `%s`: that is what this '
                          'function regards as a failure of %s, and a first '
                          'attempt failing with such an exception which is '
                          'not %s leaves the function without the fallback '
                          'being tried (dill reports an object it cannot '
                          'pickle by value with TypeError, not PicklingError)'
                          % (name, ', '.join(unparse(x) if x is not None
                                             else '<all>' for x in wide) or
                             '<all>', ext,
                             ', '.join(sorted({unparse(x) if x is not None else
                                               '<all>' for x in missed})),
                             ext, ' / '.join(sorted(heads))),
                          loc=fn.loc(first),
                          history='PythonTask(obj) for a callable instance '
                          'whose class holds something dill cannot copy by '
                          'value (a running generator): dill.dumps(obj) raises '
                          'TypeError, the by-reference attempt which would '
                          'succeed is skipped and the encoder raises')
        if not found:
            rep.ok(rid, fn, '%s: no handler retries the guarded primitive'
                   % name, fn.loc())


# ------------------------------------------------------------------------------
# R19.16  a payload file holds the payload of the last encoder call only
#
_OPEN_FUNCS = {'open', 'io.open', 'ru.ru_open', 'ru_open', 'codecs.open',
               'gzip.open', 'bz2.open', 'lzma.open', 'os.fdopen'}
_LOADERS    = {'dill.load', 'pickle.load'}


def _all_funcs(module):
    """every function of the module: top level, methods, nested ones"""
    todo = list(module.funcs.values())
    for c in module.classes.values():
        todo += list(c.methods.values())
    out = []
    while todo:
        f = todo.pop()
        out.append(f)
        todo += list(f.nested.values())
    return sorted(out, key=lambda f: f.node.lineno)


def _open_parts(prog, f, c):
    """(file expr, mode expr or None, whole) if the call opens a file; whole:
    the call writes the file in one go (pathlib write_bytes / write_text)"""
    def path_of(e):
        if isinstance(e, ast.Call) and (dotted(e.func) or '').split('.')[-1] \
                in ('Path', 'PurePath', 'PosixPath') and len(e.args) == 1 \
                and not e.keywords:
            return e.args[0]
        return e
    limp = scope_imports(f)
    d = dotted(c.func)
    r = prog.resolve(f.module, c.func, limp) if d else None
    ext = r[1] if r and r[0] == 'ext' else None
    if d in _OPEN_FUNCS or ext in _OPEN_FUNCS:
        return path_of(kwarg(c, 'file', 0)), kwarg(c, 'mode', 1), False
    if isinstance(c.func, ast.Attribute) and c.func.attr == 'open':
        if ext is not None or (r and r[0] == 'mod'):
            return None                      # os.open, webbrowser.open, ...
        b = prog.resolve(f.module, c.func.value, limp) \
            if dotted(c.func.value) else None
        if b and b[0] in ('ext', 'mod'):
            return None
        return path_of(c.func.value), kwarg(c, 'mode', 0), False
    if isinstance(c.func, ast.Attribute) and \
            c.func.attr in ('write_bytes', 'write_text'):
        # pathlib: creates / truncates the file
        return path_of(c.func.value), ast.Constant(
            value='wb' if c.func.attr == 'write_bytes' else 'w'), True
    return None


def _file_opens(prog, f):
    """[(call, file expr, mode expr or None)] of the file opens in f itself"""
    out = []
    for c in _own_nodes(f.node):
        if isinstance(c, ast.Call):
            parts = _open_parts(prog, f, c)
            if parts is not None:
                out.append((c, parts[0], parts[1]))
    return out


def _param_default(f, name):
    """default expression of parameter `name`, 'var' for *args/**kwargs,
    None if it has no default"""
    a = f.node.args
    if a.vararg and a.vararg.arg == name:
        return 'var'
    if a.kwarg and a.kwarg.arg == name:
        return 'var'
    pos = a.posonlyargs + a.args
    for p, d in zip(pos[len(pos) - len(a.defaults):], a.defaults):
        if p.arg == name:
            return d
    for p, d in zip(a.kwonlyargs, a.kw_defaults):
        if p.arg == name and d is not None:
            return d
    return None


def r19_4(prog, rep, rid='R19.4'):
    rep.rule(rid, 'serialize_*/deserialize_* compose inverse primitives in '
             'reverse order; the PythonTask encoders and get_func_attr agree '
             'on keys, per-key codecs and the outer codec; a default of None '
             'is not handed to a consumer which unpacks it', minimum=19)
    rep.rule('R19.4b', 'every value of a PythonTask payload is encoded '
             'inside the function which builds the payload (at call time), '
             'not once in an enclosing scope', minimum=6)
    rep.rule('R19.9', 'every value of a PythonTask payload which the decoder '
             'reads is, for every set argument, computed from a parameter of '
             'the encoder (what the caller handed in) - not a literal, not '
             'the wrapper or another object of the program; two entries are '
             'not made from one parameter while another reaches none',
             minimum=8)
    rep.rule('R19.14', 'a payload value which an encoder reads back from a '
             'keyed store that outlives the call (a memo of the encoded '
             'function) is stored under a key which carries every parameter '
             'the entry is made from as it is (the parameter, a tuple with '
             'it, id() of it) - a key computed from a part of the argument '
             '(an attribute, getattr, type, a name) lets two different '
             'arguments share the entry of the first', minimum=6)
    P = Pipes(prog)
    ser = prog.module(SER)
    # (d) primitives
    pairs = []
    for name, f in sorted(ser.funcs.items()):
        if name.startswith('serialize_'):
            g = ser.funcs.get('de' + name)
            if g is None:
                rep.bad(rid, f, 'no inverse', '%s has no de%s' % (name, name),
                        f.loc())
                continue
            pairs.append((f, g))
    if len(pairs) < 3:
        raise AnalysisError('%s: only %d serialize_/deserialize_ pairs in %s'
                            % (rid, len(pairs), SER))
    for f, g in pairs:
        rep.saw(f)
        rep.saw(g)
        try:
            ep, dp = P.func_pipes(f), P.func_pipes(g)
        except Unrec as e:
            raise AnalysisError('UNRECOGNISED-IDIOM %s / %s: %s'
                                % (f.where, g.where, e))
        okp = all(inverse(list(e), list(d)) for e in ep for d in dp)
        rep.check(okp, rid, g,
                  '%s undoes %s: %s <-> %s' % (g.name, f.name,
                                               sorted(ep), sorted(dp)),
                  construct='%s/%s' % (f.name, g.name),
                  message='%s applies %s, %s applies %s: not the inverse '
                  'primitives in reverse order' % (
                      f.name, [list(e) for e in sorted(ep)], g.name,
                      [list(d) for d in sorted(dp)]),
                  loc=g.loc(),
                  history='%s(%s(x)) raises or differs from x for every x'
                  % (g.name, f.name))
    # PythonTask
    dec = prog.method(PYT[0], PYT[1], 'get_func_attr')
    rep.saw(dec)
    dparams = dec.params
    if not dparams:
        raise AnalysisError('%s has no parameter' % dec.where)
    # the decoded object: name bound to <codec>(param)
    obj, obj_expr = None, None
    for n in walk(dec.node):
        if isinstance(n, ast.Assign) and len(n.targets) == 1 and \
                isinstance(n.targets[0], ast.Name) and \
                isinstance(n.value, ast.Call) and n.value.args and \
                isinstance(n.value.args[0], ast.Name) and \
                n.value.args[0].id == dparams[0]:
            obj, obj_expr = n.targets[0].id, n.value
    if obj is None:
        raise AnalysisError('UNRECOGNISED-IDIOM %s: the decoded object is not '
                            'bound to a name' % dec.where)

    def is_item(e):
        return isinstance(e, ast.Subscript) and isinstance(e.value, ast.Name) \
            and e.value.id == obj and isinstance(e.slice, ast.Constant)

    try:
        d_outer = P.pipe(dec, obj_expr, lambda e: isinstance(e, ast.Name)
                         and e.id == dparams[0])
    except Unrec as e:
        raise AnalysisError('UNRECOGNISED-IDIOM %s: %s' % (dec.where, e))
    d_keys = {}              # key -> (expr which decodes it, pipeline)
    for n in walk(dec.node):
        vals = []
        if isinstance(n, ast.Assign):
            vals = [n.value]
        elif isinstance(n, ast.Return) and n.value is not None:
            vals = n.value.elts if isinstance(n.value, ast.Tuple) \
                else [n.value]
        for v in vals:
            items = [x for x in walk(v) if is_item(x)]
            ks = {x.slice.value for x in items}
            if len(ks) != 1:
                continue
            k = list(ks)[0]
            core = v
            normal = False
            if isinstance(v, ast.BoolOp) and isinstance(v.op, ast.Or) and \
                    any(is_item(x) for x in walk(v.values[0])):
                core, normal = v.values[0], True
            if isinstance(v, ast.IfExp):
                normal = True
                core = v.body if any(is_item(x) for x in walk(v.body)) \
                    else v.orelse
            try:
                d_keys[k] = (v, P.pipe(dec, core, is_item), normal)
            except Unrec as e:
                raise AnalysisError('UNRECOGNISED-IDIOM %s: %s'
                                    % (dec.where, e))
    if not d_keys:
        raise AnalysisError('UNRECOGNISED-IDIOM %s reads no key of the '
                            'decoded object' % dec.where)
    # schema test of the decoder: `k not in obj for k in (...)`: the keys it
    # demands (a payload without one of them is refused)
    demanded = set()
    for n in walk(dec.node):
        if isinstance(n, ast.GeneratorExp) and len(n.generators) == 1 and \
                isinstance(n.elt, ast.Compare) and \
                isinstance(n.elt.ops[0], (ast.In, ast.NotIn)) and \
                isinstance(n.elt.comparators[0], ast.Name) and \
                n.elt.comparators[0].id == obj:
            want = prog.fold(dec.module, n.generators[0].iter)
            if want is not UNKNOWN:
                demanded |= set(want)
    for n in walk(dec.node):
        if isinstance(n, ast.For) and isinstance(n.target, ast.Name):
            want = fold_name(prog, dec.module, n.iter)
            if isinstance(want, (list, tuple)) and any(
                    isinstance(c, ast.Compare) and len(c.ops) == 1 and
                    isinstance(c.ops[0], (ast.In, ast.NotIn)) and
                    isinstance(c.left, ast.Name) and
                    c.left.id == n.target.id and
                    isinstance(c.comparators[0], ast.Name) and
                    c.comparators[0].id == obj for c in walk(n)):
                demanded |= set(want)
    encs = _encoders(prog)
    if len(encs) < 2:
        raise AnalysisError('%s: only %d PythonTask encoder(s) found'
                            % (rid, len(encs)))
    consumer = _consumer_unpacks(prog, dec, d_keys)
    for enc in encs:
        f, lit = enc['f'], enc['anchor']
        of, olit, ret = enc['of'], enc['olit'], enc['oret']
        rep.saw(f)
        keys = dict_keys(prog, of.module, of.cls, olit)
        need = set(d_keys) | demanded
        rep.check(need <= set(keys), rid, f,
                  '%s encodes every key the decoder reads or demands %s'
                  % (f.qual, sorted(need)), construct='keys',
                  message='%s encodes keys %s, get_func_attr reads %s and '
                  'demands %s: %s missing' % (
                      f.qual, sorted(keys), sorted(d_keys), sorted(demanded),
                      sorted(need - set(keys))), loc=f.loc(lit),
                  history='every task encoded by %s fails to decode '
                  '(KeyError / TypeError in get_func_attr)' % f.qual)
        try:
            e_outer = P.pipe(of, ret.value, lambda e: e is olit or (
                isinstance(e, ast.Name) and isinstance(ret.value.args[0],
                                                       ast.Name)
                and e.id == ret.value.args[0].id))
        except Unrec as e:
            raise AnalysisError('UNRECOGNISED-IDIOM %s: %s' % (f.where, e))
        rep.check(inverse(e_outer, d_outer), rid, f,
                  '%s: outer codec %s is undone by the decoder %s'
                  % (f.qual, e_outer, d_outer), construct='outer codec',
                  message='%s encodes the task with %s, get_func_attr decodes '
                  'with %s' % (f.qual, e_outer, d_outer), loc=of.loc(ret),
                  history='get_func_attr(%s(...)) raises' % f.qual)
        params = set()
        for h in (f, f.parent):
            if h is None:
                continue
            own = list(h.params)
            if h.cls is not None and h.parent is None and own and not any(
                    isinstance(d, ast.Name) and d.id == 'staticmethod'
                    for d in h.node.decorator_list):
                own = own[1:]           # cls / self: not given by the caller
            params |= set(own)
        values = dict(zip(keys, enc['values']))
        carried = {}             # payload key -> parameters it is made from
        for k in sorted(set(keys) | set(d_keys)):
            if k not in d_keys or k not in values:
                # reported by the key-set obligation above
                rep.ok(rid, f, '%s: key %r has no counterpart to compare'
                       % (f.qual, k), f.loc(lit))
                rep.ok('R19.4b', f, '%s: key %r has no counterpart'
                       % (f.qual, k), f.loc(lit))
                rep.ok('R19.9', f, '%s: key %r has no counterpart'
                       % (f.qual, k), f.loc(lit))
                rep.ok('R19.14', f, '%s: key %r has no counterpart'
                       % (f.qual, k), f.loc(lit))
                continue
            v = values[k]
            P.hoisted = []
            P.memos = []
            hits = carried.setdefault(k, [])
            try:
                ek = P.pipe(f, v, lambda e: isinstance(e, ast.Name)
                            and e.id in params and
                            (hits.append(e.id) or True))
            except NoSource as e:
                rep.bad('R19.9', f, '%s: not from a parameter' % k,
                        '%s puts `%s` into the payload under %r; for a set '
                        'argument that value is %s, whatever the caller '
                        'passed: get_func_attr decodes it without complaint, '
                        'and the call made from the decoded (func, args, '
                        'kwargs) is not the call the application encoded'
                        % (f.qual, short(v, 50), k, e.why), f.loc(v),
                        history={
                            'func': 'decoding a task encoded by %s gives a '
                            'callable which is not the function handed in: '
                            'calling it with the decoded arguments returns '
                            'something else than f(*args, **kwargs) (for the '
                            'wrapper itself: another encoded task)' % f.qual,
                        }.get(k, "%s with %s set (e.g. {'y': 5} / (1, 2)): "
                              "the decoded %s is %s, the call runs without "
                              "the caller's %s" % (f.qual, k, k, e.why, k)))
                for r2 in (rid, rid, 'R19.4b', 'R19.14'):
                    rep.ok(r2, f, '%s: value of %r is not computed from a '
                           'parameter (see R19.9)' % (f.qual, k), f.loc(v))
                continue
            except Unrec as e:
                raise AnalysisError('UNRECOGNISED-IDIOM %s: value of %r in '
                                    'the payload: %s' % (f.where, k, e))
            hoisted = list(P.hoisted)
            rep.ok('R19.9', f, '%s: value of %r is computed from a parameter '
                   'of the encoder' % (f.qual, k), f.loc(v))
            _memo_obligation(rep, f, k, v, list(P.memos), params)
            rep.check(not hoisted, 'R19.4b', f,
                      '%s: the value of %r is encoded when the payload is '
                      'built' % (f.qual, k), construct='%s: encoded outside'
                      % k,
                      message='%s puts `%s` into the payload under %r, but '
                      'that value was encoded (%s) in the enclosing %s, i.e. '
                      'once when the wrapper was created and not when the '
                      'payload is built: what is pickled by value (closure '
                      'cells, defaults, attributes of a local function) is '
                      'the state at decoration time. The other encoder%s '
                      'encode%s at call time' % (
                          f.qual, hoisted[0][1] if hoisted else '', k,
                          ', '.join(hoisted[0][3]) if hoisted else '',
                          hoisted[0][2].qual if hoisted else '',
                          '' if len(encs) == 2 else 's',
                          's' if len(encs) == 2 else ''),
                      loc=f.loc(v),
                      history='factor = 0; @pythontask def scaled(x): return '
                      'x * factor; then factor = 2; scaled(10) -> the decoded '
                      'callable returns 0, the function itself 20 (and '
                      'PythonTask(scaled, (10,)) decodes to 20)')
            rep.check(inverse(ek, d_keys[k][1]), rid, f,
                      '%s: value of %r encoded with %s, decoded with %s'
                      % (f.qual, k, ek, d_keys[k][1]),
                      construct='codec:%s' % k,
                      message='%s stores %r encoded with %s but get_func_attr '
                      'decodes it with %s' % (f.qual, k, ek, d_keys[k][1]),
                      loc=f.loc(v),
                      history='the decoded %r is not what was encoded (or '
                      'decoding raises)' % k)
            # (c) None handed to a consumer which unpacks it
            none_dflt = False
            if isinstance(v, ast.BoolOp) and isinstance(v.op, ast.And):
                # `x and ..`: an unset x is stored as it is
                v = v.values[0]
            if isinstance(v, ast.Name) and v.id in f.params:
                dflt = _param_default(f, v.id)
                rebound = any(
                    isinstance(n, (ast.Assign, ast.AugAssign)) and v.id in
                    [x.id for t in (n.targets if isinstance(n, ast.Assign)
                                    else [n.target]) for x in walk(t)
                     if isinstance(x, ast.Name)] for n in walk(f.node))
                none_dflt = isinstance(dflt, ast.Constant) and \
                    dflt.value is None and not rebound
            unpack = consumer.get(k)
            bad = none_dflt and not d_keys[k][2] and unpack is not None
            rep.check(not bad, rid, f,
                      '%s: %r is never None when the consumer unpacks it'
                      % (f.qual, k), construct='%s=None' % k,
                      message='%s stores its parameter %r (default None) '
                      'under %r; get_func_attr returns it unchanged and %s '
                      'unpacks it with `%s`' % (
                          f.qual, v.id if isinstance(v, ast.Name) else k, k,
                          unpack[0].qual if unpack else '',
                          short(unpack[1], 50) if unpack else ''),
                      loc=f.loc(v),
                      history='PythonTask(f) without %s: get_func_attr '
                      'returns %s=None and the call %s raises TypeError: the '
                      'task fails although f is fine' % (
                          k, k, short(unpack[1], 40) if unpack else ''))
        _distinct_sources(rep, f, carried, params, lit)


def _memo_obligation(rep, f, k, v, memos, params, rid='R19.14'):
    """the payload value v (key k) of encoder f was resolved through the
    reads `memos` of keyed stores"""
    if not memos:
        rep.ok(rid, f, '%s: the value of %r is computed by the call which '
               'builds the payload, no store is read' % (f.qual, k), f.loc(v))
        return
    bad = None
    notes = []
    for m in memos:
        try:
            verdict, detail = memo_decide(m['f'], m, params)
        except Unrec as e:
            raise AnalysisError('UNRECOGNISED-IDIOM %s: value of %r in the '
                                'payload: %s' % (f.where, k, e))
        notes.append('`%s` %s' % (short(m['read'], 30), {
            'local': 'lives for this call only',
            'fresh': 'is stored by every call before it is read',
            'keyed': 'is keyed by the parameters its entries are made from',
            'coarse': 'is keyed too coarsely'}[verdict]))
        if verdict == 'coarse' and bad is None:
            bad = (m, detail)
    m, (lost, key, val) = bad if bad else (memos[0], ((), None, None))
    rep.check(bad is None, rid, f,
              '%s: value of %r: %s' % (f.qual, k, '; '.join(notes)),
              construct='%s: memo key' % k,
              message='%s takes the payload value %r from the store `%s`, '
              'which outlives the call and is filled only when the key is '
              'new, under the key `%s`; the entry `%s` is made from the '
              'parameter%s %s, which that key does not carry as %s: two '
              'different arguments with an equal key (for a key made from an '
              'attribute of a callable such as __code__ / __name__: closures '
              'of one factory, functions which differ in defaults or cells, '
              'bound methods of two instances) share one entry, and every '
              'later payload carries the encoded value of the FIRST argument'
              % (f.qual, k, short(m['cont'], 40),
                 short(key, 60) if key is not None else '',
                 short(val, 50) if val is not None else '',
                 's' if len(lost) > 1 else '', ', '.join(map(repr, lost)),
                 'they are' if len(lost) > 1 else 'it is'),
              loc=f.loc(v),
              history='def scale(n): return lambda x: x * n; '
              '%s(scale(2), (3,)) then %s(scale(5), (3,)) in one process: '
              'both closures have the same key, get_func_attr of the second '
              'payload returns the first closure and the task computes 6 '
              'instead of 15' % (f.qual.split('.')[0], f.qual.split('.')[0]))


def _distinct_sources(rep, f, carried, params, lit):
    """two payload entries made from the same parameter while another
    parameter reaches none: one of the two names the wrong variable"""
    used = {p for ps in carried.values() for p in ps}
    twice = sorted(p for p in used
                   if sum(1 for ps in carried.values() if p in ps) > 1)
    a = f.node.args
    own = [x.arg for x in a.posonlyargs + a.args + a.kwonlyargs] + \
        [x.arg for x in (a.vararg, a.kwarg) if x is not None]
    lost = sorted(p for p in own if p in params and p not in used)
    bad = bool(twice and lost)
    rep.check(not bad, 'R19.9', f,
              '%s: the payload entries %s are made from different parameters'
              % (f.qual, sorted(carried)), construct='same parameter twice',
              message='%s makes the payload entries %s from the one parameter '
              '%r while its parameter %r reaches no entry: the decoded call '
              'gets %r in both places and never sees %r' % (
                  f.qual, sorted(k for k, ps in carried.items()
                                 if twice and twice[0] in ps),
                  twice[0] if twice else '', lost[0] if lost else '',
                  twice[0] if twice else '', lost[0] if lost else ''),
              loc=f.loc(lit),
              history='%s with both %s and %s set: get_func_attr returns the '
              'value of %s for both' % (
                  f.qual, twice[0] if twice else '', lost[0] if lost else '',
                  twice[0] if twice else ''))


def _consumer_unpacks(prog, dec, d_keys):
    """{key: (FuncInfo, call)}: keys of the decoded task which the raptor
    worker unpacks with * / ** without normalising them"""
    out = {}
    # position of each key in the tuple the decoder returns
    pos = {}
    names = {}
    for n in walk(dec.node):
        if isinstance(n, ast.Assign) and len(n.targets) == 1 and \
                isinstance(n.targets[0], ast.Name):
            for k, (v, p, normal) in d_keys.items():
                if n.value is v:
                    names[n.targets[0].id] = k
    for n in walk(dec.node):
        if isinstance(n, ast.Return) and isinstance(n.value, ast.Tuple):
            for i, e in enumerate(n.value.elts):
                if isinstance(e, ast.Name) and e.id in names:
                    pos[i] = names[e.id]
                for k, (v, p, normal) in d_keys.items():
                    if e is v:
                        pos[i] = k
    if not pos:
        return out
    wc = prog.cls(*WRK)
    for f in wc.methods.values():
        for n in walk(f.node):
            if not (isinstance(n, ast.Assign) and isinstance(n.value, ast.Call)
                    and prog.resolve_call(f, n.value, wc) is dec and
                    isinstance(n.targets[0], ast.Tuple)):
                continue
            for i, t in enumerate(n.targets[0].elts):
                if i not in pos or not isinstance(t, ast.Name):
                    continue
                alias = {t.id}
                normal = False
                for _ in range(3):
                    for a in walk(f.node):
                        if isinstance(a, ast.Assign) and \
                                len(a.targets) == 1 and \
                                isinstance(a.targets[0], ast.Name):
                            if isinstance(a.value, ast.Name) and \
                                    a.value.id in alias:
                                alias.add(a.targets[0].id)
                            elif isinstance(a.value, (ast.BoolOp, ast.IfExp)) \
                                    and any(isinstance(x, ast.Name) and
                                            x.id in alias
                                            for x in walk(a.value)):
                                normal = True
                if normal:
                    continue
                for c in calls_in(f.node):
                    for a in c.args:
                        if isinstance(a, ast.Starred) and \
                                isinstance(a.value, ast.Name) and \
                                a.value.id in alias:
                            out.setdefault(pos[i], (f, c))
                    for kw in c.keywords:
                        if kw.arg is None and isinstance(kw.value, ast.Name) \
                                and kw.value.id in alias:
                            out.setdefault(pos[i], (f, c))
    return out


# ------------------------------------------------------------------------------
# R19.5  slot converters
#
def _slot_reads(expr, slot):
    """keys of the input slot read directly in expr"""
    out = set()
    for n in walk(expr):
        k = self_key(n, slot)
        if k is not None:
            out.add(k)
    return out


def _prov(expr, env, slot):
    """set of input-slot keys the value of expr is computed from"""
    if expr is None:
        return frozenset()
    if isinstance(expr, (ast.ListComp, ast.SetComp, ast.GeneratorExp,
                         ast.DictComp)):
        env = dict(env)
        for gen in expr.generators:
            p = _prov(gen.iter, env, slot)
            for nm in stores_in_target(gen.target):
                env[nm] = p
        parts = [expr.elt] if not isinstance(expr, ast.DictComp) else \
            [expr.key, expr.value]
        out = set()
        for e in parts:
            out |= _prov(e, env, slot)
        return frozenset(out)
    k = self_key(expr, slot)
    if k is not None:
        return frozenset([k])
    if isinstance(expr, ast.Name):
        return frozenset(env.get(expr.id, ()))
    out = set()
    for c in ast.iter_child_nodes(expr):
        if isinstance(c, (ast.expr, ast.keyword, ast.comprehension)):
            if isinstance(c, ast.keyword):
                out |= _prov(c.value, env, slot)
            elif isinstance(c, ast.expr):
                out |= _prov(c, env, slot)
    return frozenset(out)


def scope_imports(fn):
    """imports executed in the body of fn or of a function enclosing it"""
    out, g = {}, fn
    while g is not None:
        for k, v in g.module.local_imports(g.node).items():
            out.setdefault(k, v)
        g = g.parent
    return out


def converter_funcs(prog, f):
    """the converter and the helper functions of its module (nested or
    module level) it calls"""
    funcs = [f]
    for fn in funcs:
        for c in calls_in(fn.node):
            callee = prog.resolve_call(fn, c)
            if callee is not None and callee.cls is None and \
                    callee.module is f.module and callee not in funcs:
                funcs.append(callee)
        if len(funcs) > 12:
            break
    return funcs


def converter_facts(prog, f):
    """per-slot loop of a converter: ({key: value expr}, sink node, [env per
    path], discriminator keys)"""
    g = cfg_of(f)
    params = f.params
    loop = None
    for h in g.nodes:
        if h.kind == 'for' and isinstance(h.ast.iter, ast.Name) and \
                h.ast.iter.id == params[0] and \
                isinstance(h.ast.target, ast.Name) and not h.loops:
            loop = h
    if loop is None:
        raise AnalysisError('UNRECOGNISED-IDIOM %s: no loop over %r'
                            % (f.where, params[0]))
    slot = loop.ast.target.id
    smap = I.stmt_node_map(g)
    limp = f.module.local_imports(f.node)
    # the converted slot: argument of <result>.append(..) which is not the
    # input slot itself
    sink = None
    for c in calls_in(loop.ast):
        if isinstance(c.func, ast.Attribute) and c.func.attr == 'append' and \
                len(c.args) == 1 and isinstance(c.args[0], ast.Name) and \
                c.args[0].id != slot and smap.get(id(c)) is not None and \
                loop.id in smap[id(c)].loops[-1:]:
            for n in walk(loop.ast):
                if isinstance(n, ast.Assign) and len(n.targets) == 1 and \
                        isinstance(n.targets[0], ast.Name) and \
                        n.targets[0].id == c.args[0].id:
                    sink = n
    if sink is None:
        raise AnalysisError('UNRECOGNISED-IDIOM %s: the converted slot is not '
                            'built by an assignment and appended' % f.where)
    table = {}
    v = sink.value
    if isinstance(v, ast.Dict):
        keys = dict_keys(prog, f.module, None, v)
        if keys is None:
            raise AnalysisError('UNRECOGNISED-IDIOM %s: computed key'
                                % f.where)
        table = dict(zip(keys, v.values))
    elif isinstance(v, ast.Call):
        r = prog.resolve(f.module, v.func, limp)
        if not (r and r[0] == 'class' and r[1] is prog.cls(RC, 'Slot')):
            raise AnalysisError('UNRECOGNISED-IDIOM %s: `%s` does not build a '
                                'Slot' % (f.where, short(v, 40)))
        if v.args:
            raise AnalysisError('UNRECOGNISED-IDIOM %s: Slot(...) with '
                                'positional arguments' % f.where)
        table = {k.arg: k.value for k in v.keywords if k.arg}
    else:
        raise AnalysisError('UNRECOGNISED-IDIOM %s: converted slot is `%s`'
                            % (f.where, short(v, 40)))
    sink_node = smap[id(sink)]
    # discriminator: keys of the input slot read by the tests which decide
    # whether the slot is converted at all (control dependence of the sink)
    from ..flow import guard_atoms
    disc = set()
    for atom, pol in guard_atoms(g, sink_node.id,
                                 within=g.loop_body[loop.id]):
        disc |= _slot_reads(atom, slot)
    # path-sensitive provenance up to the sink
    start, stop, stop_edge = loop_slice(g, loop.id)

    def transfer(node, edge, st):
        if edge.label == 'exc':
            return st
        env = dict(st)
        a = node.ast
        if node.kind == 'for' and edge.label == 'iter':
            p = _prov(a.iter, env, slot)
            for nm in stores_in_target(a.target):
                env[nm] = p
        elif node.kind == 'stmt' and isinstance(a, ast.Assign):
            p = _prov(a.value, env, slot)
            for t in a.targets:
                for e in I._flat(t):
                    if isinstance(e, ast.Name):
                        env[e.id] = p
                    else:
                        r = root_name(e)
                        if r:
                            env[r] = frozenset(env.get(r, ())) | p
        elif node.kind == 'stmt' and isinstance(a, ast.AugAssign):
            r = root_name(a.target)
            if r:
                env[r] = frozenset(env.get(r, ())) | _prov(a.value, env, slot)
        elif node.kind == 'stmt' and isinstance(a, ast.Expr):
            for c in calls_in(a):
                if isinstance(c.func, ast.Attribute) and \
                        c.func.attr in ('append', 'extend', 'insert', 'add'):
                    r = root_name(c.func.value)
                    if r:
                        p = frozenset()
                        for x in c.args:
                            p |= _prov(x, env, slot)
                        env[r] = frozenset(env.get(r, ())) | p
        return frozenset(env.items())

    ex = Exploration(g, start, frozenset(), transfer,
                     stop=lambda nid: nid == sink_node.id or stop(nid),
                     stop_edge=stop_edge)
    envs = [dict(t.state) for t in ex.terminals if t.node == sink_node.id]
    if not envs:
        raise AnalysisError('%s: the conversion is unreachable' % f.where)
    return slot, table, sink, envs, disc, ex.states


def r19_5(prog, rep, rid='R19.5'):
    rep.rule(rid, 'both slot converters carry every key of Slot._schema '
             '(except the version discriminator) from the same key of the '
             'input slot; every RO built carries index and occupation',
             minimum=13)
    slot_cls = prog.cls(RC, 'Slot')
    ro_cls   = prog.cls(RC, 'RO')
    schema   = class_table_keys(prog, slot_cls, '_schema')
    ro_keys  = class_table_keys(prog, ro_cls, '_schema')
    for fname in ('convert_slots_to_new', 'convert_slots_to_old'):
        f = prog.function(MISC, fname)
        rep.saw(f)
        slot, table, sink, envs, disc, nstates = converter_facts(prog, f)
        rep.stat('paths', nstates)
        keys = [k for k in schema if k not in disc]
        if len(keys) < 6:
            raise AnalysisError('%s: %s: only keys %s of Slot._schema are left '
                                'to check' % (rid, f.where, keys))
        for k in keys:
            if k not in table:
                rep.bad(rid, f, 'dropped:%s' % k,
                        '%s builds the converted slot without %r (a key of '
                        'Slot._schema): the value of the input slot is lost'
                        % (fname, k), f.loc(sink),
                        history='a slot with %s=V: the converted slot has the '
                        'default / no %s' % (k, k))
                continue
            provs = [_prov(table[k], env, slot) for env in envs]
            foreign = [p for p in provs if p and k not in p]
            carried = any(k in p for p in provs)
            rep.check(carried and not foreign, rid, f,
                      '%s: %r of the converted slot comes from %r of the '
                      'input slot' % (fname, k, k), construct='key:%s' % k,
                      message='%s: %r of the converted slot is computed from '
                      '%s of the input slot%s' % (
                          fname, k, sorted(foreign[0]) if foreign
                          else 'nothing', '' if foreign else
                          ' (never from its %r)' % k),
                      loc=f.loc(table[k]),
                      history='a slot whose %s differs from its %s: the '
                      'converted slot has the wrong %s' % (
                          k, '/'.join(sorted(foreign[0])) if foreign
                          else 'default', k))
        # RO(...) calls of the converter and of the module helpers it calls
        funcs, ros = converter_funcs(prog, f), []
        for fn in funcs:
            limp = scope_imports(fn)
            for c in calls_in(fn.node):
                r = prog.resolve(fn.module, c.func, limp)
                if r and r[0] == 'class' and r[1] is ro_cls:
                    ros.append((fn, c))
        if fname == 'convert_slots_to_new':
            if not ros:
                raise AnalysisError('UNRECOGNISED-IDIOM %s builds no RO'
                                    % f.where)
            bad = [(fn, c) for fn, c in ros if not c.args and
                   not set(ro_keys) <= {k.arg for k in c.keywords}]
            rep.check(not bad, rid, f,
                      'all %d RO(...) built by %s set %s' % (len(ros), fname,
                                                             ro_keys),
                      construct=bad[0][1] if bad else 'RO',
                      message='%s builds `%s` without %s: the index or the '
                      'occupation of the resource is lost' % (
                          bad[0][0].qual if bad else '',
                          short(bad[0][1], 50) if bad else '',
                          sorted(set(ro_keys) - {k.arg for k in
                                                 bad[0][1].keywords})
                          if bad else ''),
                      loc=bad[0][0].loc(bad[0][1]) if bad else f.loc(),
                      history='an old-format slot: the new slot names core 0 '
                      '/ has no occupation')


# ------------------------------------------------------------------------------
# R19.10  which component of an input entry goes where (index / occupation)
#
_PLAIN_ITER_CALLS = {'list', 'tuple', 'sorted', 'reversed'}


def _parents(root):
    par = {}
    for n in walk(root):
        for c in ast.iter_child_nodes(n):
            par[id(c)] = n
    return par


def _plain_view(e):
    """the iterated expression is the input list itself (a name, an entry of
    a mapping, an order preserving copy of those) - not enumerate / zip /
    items / a generator, whose items are not entries of the input format"""
    if isinstance(e, (ast.Name, ast.Subscript, ast.Attribute)):
        return True
    if isinstance(e, ast.Call):
        if isinstance(e.func, ast.Name) and e.func.id in _PLAIN_ITER_CALLS \
                and len(e.args) == 1:
            return _plain_view(e.args[0])
        if isinstance(e.func, ast.Attribute) and e.func.attr == 'get':
            return True
    return False


def _binders(node, par):
    """[(target, iterated expr, loop statement or None)] of the loops and
    comprehension clauses enclosing `node`, innermost first"""
    out, n = [], node
    while id(n) in par:
        up = par[id(n)]
        if isinstance(up, (ast.ListComp, ast.SetComp, ast.GeneratorExp,
                           ast.DictComp)) and not any(
                               n is g for g in up.generators):
            out += [(g.target, g.iter, None) for g in reversed(up.generators)]
        elif isinstance(up, ast.For) and any(n is b for b in up.body):
            out.append((up.target, up.iter, up))
        n = up
    return out


def component_of(expr, node, par, depth=0):
    """('pos', i) / ('key', k): which component of an entry of the iterated
    input list the value of expr is; None if it is the entry as a whole or
    anything else"""
    if depth > 4:
        return None
    binders = _binders(node, par)

    def entry(name):
        """binder of a plain loop variable: ('elem',) / ('pos', i)"""
        for tgt, it, loop in binders:
            if isinstance(tgt, ast.Name) and tgt.id == name:
                return ('elem',) if _plain_view(it) else ('other',)
            if isinstance(tgt, (ast.Tuple, ast.List)):
                for i, e in enumerate(tgt.elts):
                    if isinstance(e, ast.Name) and e.id == name:
                        return ('pos', i) if _plain_view(it) and not any(
                            isinstance(x, ast.Starred) for x in tgt.elts) \
                            else ('other',)
        return None

    if isinstance(expr, ast.Name):
        b = entry(expr.id)
        if b is not None:
            return b if b[0] == 'pos' else None
        # bound once in the body of an enclosing loop
        for tgt, it, loop in binders:
            if loop is None:
                continue
            defs = []
            for st in walk_stmts(loop.body):
                if isinstance(st, ast.Assign):
                    for t in st.targets:
                        if isinstance(t, ast.Name) and t.id == expr.id:
                            defs.append((st, st.value, None))
                        elif isinstance(t, (ast.Tuple, ast.List)):
                            for i, e in enumerate(t.elts):
                                if isinstance(e, ast.Name) and \
                                        e.id == expr.id:
                                    defs.append((st, st.value, i))
            if len(defs) == 1:
                st, val, i = defs[0]
                if i is None:
                    return component_of(val, st, par, depth + 1)
                if isinstance(val, ast.Name) and entry(val.id) == ('elem',):
                    return ('pos', i)
                if isinstance(val, (ast.Tuple, ast.List)) and \
                        i < len(val.elts):
                    return component_of(val.elts[i], st, par, depth + 1)
            if defs:
                return None
        return None
    base, sel = None, None
    if isinstance(expr, ast.Subscript) and isinstance(expr.slice, ast.Constant):
        base, sel = expr.value, expr.slice.value
    elif isinstance(expr, ast.Attribute):
        base, sel = expr.value, expr.attr
    elif isinstance(expr, ast.Call) and isinstance(expr.func, ast.Attribute) \
            and expr.func.attr == 'get' and expr.args and \
            isinstance(expr.args[0], ast.Constant):
        base, sel = expr.func.value, expr.args[0].value
    if isinstance(base, ast.Name) and entry(base.id) == ('elem',):
        if isinstance(sel, bool):
            return None
        if isinstance(sel, int):
            return ('pos', sel)
        if isinstance(sel, str):
            return ('key', sel)
    return None


def walk_stmts(stmts):
    for s in stmts:
        if isinstance(s, (ast.FunctionDef, ast.AsyncFunctionDef,
                          ast.ClassDef)):
            continue
        yield s
        for fld in ('body', 'orelse', 'finalbody'):
            yield from walk_stmts(getattr(s, fld, []) or [])
        for h in getattr(s, 'handlers', []) or []:
            yield from walk_stmts(h.body)


def r19_10(prog, rep, rid='R19.10'):
    rep.rule(rid, 'where a slot converter takes an entry of the input apart, '
             'each part goes where it belongs: RO(index=, occupation=) get '
             'the part of that name (dict / RO entries) resp. of that position '
             'in RO._schema order ((index, occupation) pairs); the old format '
             'is built from the index', minimum=6)
    ro_cls  = prog.cls(RC, 'RO')
    ro_keys = class_table_keys(prog, ro_cls, '_schema')
    # old -> new: RO(...) calls
    f = prog.function(MISC, 'convert_slots_to_new')
    for fn in converter_funcs(prog, f):
        limp, par = scope_imports(fn), _parents(fn.node)
        for c in calls_in(fn.node):
            r = prog.resolve(fn.module, c.func, limp)
            if not (r and r[0] == 'class' and r[1] is ro_cls) or c.args:
                continue
            sel = {k.arg: component_of(k.value, c, par)
                   for k in c.keywords if k.arg in ro_keys}
            sel = {k: v for k, v in sel.items() if v is not None}
            if not sel:
                continue
            wrong = []
            for k, (kind, x) in sorted(sel.items()):
                want = k if kind == 'key' else ro_keys.index(k)
                if x != want:
                    wrong.append((k, kind, x, want))
            pairs = any(kind == 'pos' for kind, x in sel.values())
            rep.check(not wrong, rid, fn,
                      '`%s`: %s' % (short(c, 40), ', '.join(
                          '%s <- entry[%r]' % (k, v[1])
                          for k, v in sorted(sel.items()))),
                      construct='RO parts: %s' % ', '.join(
                          '%s<-%r' % (k, x) for k, kind, x, want in wrong),
                      message='%s builds `%s` with %s: %s' % (
                          fn.qual, short(c, 50), '; '.join(
                              '%s taken from part %r of the entry instead of '
                              '%r' % (k, x, want)
                              for k, kind, x, want in wrong),
                          'an entry given as an (index, occupation) pair (the '
                          'order of RO._schema, which the Slot._schema '
                          'comment documents) comes out with index and '
                          'occupation exchanged' if pairs else
                          'an entry given as a dict / RO comes out with the '
                          'wrong value under that name'),
                      loc=fn.loc(c),
                      history="convert_slots_to_new([{'cores': %s, 'gpus': "
                      "[], 'lfs': 0, 'mem': 0, 'node_index': 0, 'node_name': "
                      "'n'}]): the new slot names core 0.5 with occupation 3"
                      % ('[(3, 0.5)]' if pairs else
                         "[{'index': 3, 'occupation': 0.5}]"))
    # new -> old: entries are reduced to their index
    f = prog.function(MISC, 'convert_slots_to_old')
    top = InputFlow(prog, f, f.params[0])

    def over_slots(x, elt, par):
        # the selector reads a SLOT of the input list (the variable of a loop /
        # comprehension over the converter's input), not an entry of a slot
        base = x.func.value if isinstance(x, ast.Call) and \
            isinstance(x.func, ast.Attribute) else getattr(x, 'value', None)
        if not isinstance(base, ast.Name):
            return False
        for tgt, it, loop in _binders(elt, par):
            if base.id in stores_in_target(tgt):
                return top._over_input(it)
        return False

    for fn in converter_funcs(prog, f):
        par = _parents(fn.node)
        for n in walk(fn.node):
            # the element of a comprehension, or of `<list>.append(..)` in a
            # loop over the entries
            if isinstance(n, (ast.ListComp, ast.GeneratorExp)):
                elt = n.elt
            elif isinstance(n, ast.Call) and isinstance(n.func, ast.Attribute) \
                    and n.func.attr == 'append' and len(n.args) == 1:
                elt = n.args[0]
            else:
                continue
            keys = []
            for x in walk(elt):
                sel = component_of(x, elt, par) if isinstance(
                    x, (ast.Subscript, ast.Attribute, ast.Call)) else None
                if sel and sel[0] == 'key' and not (
                        fn is f and over_slots(x, elt, par)):
                    keys.append(sel[1])
            if not keys:
                continue
            rep.check(ro_keys[0] in keys, rid, fn,
                      '`%s` keeps the %s of each entry' % (short(n, 40),
                                                           ro_keys[0]),
                      construct='old entry from %s' % sorted(set(keys)),
                      message='%s reduces each entry of the new slot to `%s` '
                      '(%s): the old format lists core / GPU indices, the '
                      '%s of the entry is lost' % (
                          fn.qual, short(elt, 40), sorted(set(keys)),
                          ro_keys[0]), loc=fn.loc(n),
                      history='convert_slots_to_old([Slot(cores=[RO(index=3, '
                      'occupation=0.5)], ..)]) gives cores [[0.5]] instead '
                      'of [[3]]')


# ------------------------------------------------------------------------------
# R19.7  what a typed-dict constructor normalises is what the base
#        constructor receives (definition must reach the use; aliasing)
#
COPY_FUNCS = {'dict', 'copy.copy', 'copy.deepcopy', 'copy', 'deepcopy',
              'ru.as_dict', 'as_dict'}
NORMALISERS = ((RC, 'Slot'), (RC, 'Node'))


class MapState:
    """per-path facts about the mapping objects of a constructor.
    env   : local name -> token of the object it refers to
    norm  : (token, key) - the entry `key` of that object holds a value the
            constructor stored (a copy inherits the entries of its source)
    events: (token, key) - the stores themselves
    roots : token -> tokens of the caller's objects it was copied from"""

    def __init__(self, env=(), norm=(), events=(), roots=()):
        self.env, self.norm = dict(env), set(norm)
        self.events, self.roots = set(events), dict(roots)

    def freeze(self):
        return (frozenset(self.env.items()), frozenset(self.norm),
                frozenset(self.events), frozenset(self.roots.items()))

    @classmethod
    def thaw(cls, fz):
        return cls(*fz)


def _map_key(sl):
    if isinstance(sl, ast.Constant) and isinstance(sl.value, str):
        return sl.value
    return '$' + unparse(sl)


def _bind(callee, call):
    a = callee.node.args
    pos = [x.arg for x in a.posonlyargs + a.args]
    static = any(isinstance(d, ast.Name) and d.id == 'staticmethod'
                 for d in callee.node.decorator_list)
    if callee.cls is not None and not static and pos and \
            isinstance(call.func, ast.Attribute):
        pos = pos[1:]
    out = {}
    for p, v in zip(pos, call.args):
        if isinstance(v, ast.Starred):
            break
        out[p] = v
    names = set(pos) | {x.arg for x in a.kwonlyargs}
    for k in call.keywords:
        if k.arg in names:
            out[k.arg] = k.value
    return out


def _param_item_stores(callee, param):
    """keys of `<param>[key] = ..` / `<param>.update(key=..)` in callee"""
    out = set()
    for kind, target, stmt in I.stores(callee.node):
        if kind in ('assign', 'aug') and isinstance(target, ast.Subscript) \
                and isinstance(target.value, ast.Name) and \
                target.value.id == param:
            out.add(_map_key(target.slice))
    for c in calls_in(callee.node):
        if call_name(c) == param + '.update':
            out |= {k.arg for k in c.keywords if k.arg}
            for a in c.args:
                if isinstance(a, ast.Dict):
                    out |= {_map_key(k) for k in a.keys if k is not None}
    return out


class CtorMaps:
    """symbolic run of a constructor up to its super().__init__ call"""

    def __init__(self, prog, f):
        self.prog, self.f = prog, f
        self.g = cfg_of(f)
        self.smap = I.stmt_node_map(self.g)
        self.supers = [c for c in calls_in(f.node)
                       if call_name(c) == 'super().__init__' and
                       self.smap.get(id(c)) is not None]
        self.super_nodes = {self.smap[id(c)].id: c for c in self.supers}
        # `x = a or b` over mapping names: one run per choice
        self.choices = []
        self.unknown = {}

    # -- values ---------------------------------------------------------------
    def value(self, expr, st, nid, pick):
        """token of the object expr evaluates to (new tokens are entered into
        st.roots / st.norm)"""
        if isinstance(expr, ast.Name):
            return st.env.get(expr.id, 'g:' + expr.id)
        if isinstance(expr, ast.BoolOp) and isinstance(expr.op, ast.Or) and \
                all(isinstance(v, ast.Name) for v in expr.values):
            i = pick.get(id(expr))
            if i is None:
                raise _NeedChoice(expr)
            return self.value(expr.values[i], st, nid, pick)
        srcs = None
        if isinstance(expr, ast.Call):
            cn = call_name(expr)
            if cn in COPY_FUNCS:
                srcs = [a for a in expr.args] + \
                    [k.value for k in expr.keywords if k.arg is None]
                if any(k.arg is not None for k in expr.keywords) and \
                        cn != 'dict':
                    srcs = None
            elif isinstance(expr.func, ast.Attribute) and \
                    expr.func.attr in ('copy', 'as_dict') and \
                    not expr.args and not expr.keywords:
                srcs = [expr.func.value]
        elif isinstance(expr, ast.Dict) and any(k is None for k in expr.keys):
            srcs = [v for k, v in zip(expr.keys, expr.values) if k is None]
        if srcs is not None and all(isinstance(x, ast.Name) for x in srcs):
            toks = [self.value(x, st, nid, pick) for x in srcs]
            if toks:
                t = 'c:%d:%s' % (nid, '+'.join(toks))
                roots = set()
                for x in toks:
                    roots |= set(st.roots.get(x, (x,)))
                    st.norm |= {(t, k) for tk, k in list(st.norm) if tk == x}
                st.roots[t] = tuple(sorted(roots))
                if any(x.startswith('u:') for x in toks):
                    t = 'u:%d' % nid
                return t
        mentions = [n.id for n in walk(expr) if isinstance(n, ast.Name) and
                    not st.env.get(n.id, 'n:').startswith('n:')]
        return ('u:%d' if mentions else 'n:%d') % nid

    def store(self, st, tok, key):
        st.norm.add((tok, key))
        st.events.add((tok, key))

    # -- one statement --------------------------------------------------------
    def transfer_for(self, pick):
        def transfer(node, edge, fz):
            if edge.label == 'exc':
                return fz
            st = MapState.thaw(fz)
            a = node.ast
            if node.kind == 'for' and edge.label == 'iter':
                for nm in stores_in_target(a.target):
                    st.env[nm] = 'n:%d' % node.id
                return st.freeze()
            if node.kind == 'with':
                for it in a.items:
                    if it.optional_vars is not None:
                        for nm in stores_in_target(it.optional_vars):
                            st.env[nm] = 'n:%d' % node.id
                return st.freeze()
            if node.kind != 'stmt':
                return fz
            # helpers which get a mapping and store into it
            for c in calls_in(a):
                if c in self.supers:
                    continue
                callee = self.prog.resolve_call(self.f, c)
                if callee is None:
                    continue
                for p, v in _bind(callee, c).items():
                    if isinstance(v, ast.Name) and v.id in st.env:
                        for k in _param_item_stores(callee, p):
                            self.store(st, st.env[v.id], k)
            for c in calls_in(a):
                if call_name(c).endswith('.update') and \
                        isinstance(c.func, ast.Attribute) and \
                        isinstance(c.func.value, ast.Name) and \
                        c.func.value.id in st.env and \
                        self.prog.resolve_call(self.f, c) is None:
                    tok = st.env[c.func.value.id]
                    for k in c.keywords:
                        if k.arg:
                            self.store(st, tok, k.arg)
                    for x in c.args:
                        if isinstance(x, ast.Dict):
                            for k in x.keys:
                                if k is not None:
                                    self.store(st, tok, _map_key(k))
            if isinstance(a, (ast.Assign, ast.AnnAssign, ast.AugAssign)):
                targets = a.targets if isinstance(a, ast.Assign) else \
                    [a.target]
                val = None
                for t in targets:
                    for e in I._flat(t):
                        if isinstance(e, ast.Subscript) and \
                                isinstance(e.value, ast.Name) and \
                                e.value.id in st.env:
                            self.store(st, st.env[e.value.id],
                                       _map_key(e.slice))
                for t in targets:
                    if isinstance(t, ast.Name):
                        if isinstance(a, ast.AugAssign) or a.value is None:
                            st.env[t.id] = 'u:%d' % node.id
                            continue
                        if val is None:
                            val = self.value(a.value, st, node.id, pick)
                        st.env[t.id] = val
                    elif isinstance(t, (ast.Tuple, ast.List)):
                        for nm in stores_in_target(t):
                            st.env[nm] = 'u:%d' % node.id
            return st.freeze()
        return transfer

    # -- which entries are present (R19.11) -----------------------------------
    def _entry_read(self, e, env):
        """key K if e is <mapping>.get(K) / <mapping>[K] for a local name
        which refers to an input mapping (or a copy of one)"""
        m, k = None, None
        if isinstance(e, ast.Call) and isinstance(e.func, ast.Attribute) and \
                e.func.attr == 'get' and e.args:
            m, k = e.func.value, e.args[0]
        elif isinstance(e, ast.Subscript):
            m, k = e.value, e.slice
        if isinstance(m, ast.Name) and env.get(m.id, 'u:')[:2] in ('p:', 'c:'):
            if isinstance(k, ast.Constant) and isinstance(k.value, str):
                return k.value
            v = self.prog.fold(self.f.module, k, self.f.cls) \
                if k is not None else UNKNOWN
            if isinstance(v, str):
                return v
        return None

    def presence_step(self, node, edge, x, env):
        """x = (names holding an entry of the input, assumptions made on the
        path about entries being set); None if the edge contradicts them"""
        ent, assume = dict(x[0]), dict(x[1])
        a = node.ast
        if node.kind == 'stmt' and isinstance(a, (ast.Assign, ast.AugAssign,
                                                  ast.AnnAssign)):
            targets = a.targets if isinstance(a, ast.Assign) else [a.target]
            for t in targets:
                for nm in stores_in_target(t):
                    ent.pop(nm, None)
            if isinstance(a, ast.Assign) and len(targets) == 1 and \
                    isinstance(targets[0], ast.Name):
                k = self._entry_read(a.value, env)
                if k is not None:
                    ent[targets[0].id] = k
        elif node.kind in ('for', 'with') and a is not None:
            tg = [a.target] if node.kind == 'for' else [
                it.optional_vars for it in a.items if it.optional_vars]
            for t in tg:
                for nm in stores_in_target(t):
                    ent.pop(nm, None)
        elif node.kind == 'test' and edge.label in ('T', 'F'):
            taken = edge.label == 'T'

            def key_of(e):
                if isinstance(e, ast.Name):
                    return ent.get(e.id)
                return self._entry_read(e, env)
            k, implied = key_of(a), None
            if k is not None:
                implied = taken
            elif isinstance(a, ast.Compare) and len(a.ops) == 1 and \
                    isinstance(a.ops[0], (ast.Is, ast.IsNot)) and \
                    isinstance(a.comparators[0], ast.Constant) and \
                    a.comparators[0].value is None:
                k = key_of(a.left)
                # `x is None` holds: x is not set; it fails: nothing follows
                # (an empty list is not None and not set either)
                if k is not None and taken == isinstance(a.ops[0], ast.Is):
                    implied = False
            if k is not None and implied is not None:
                if assume.get(k, implied) != implied:
                    return None
                assume[k] = implied
        return (frozenset(ent.items()), frozenset(assume.items()))

    def runs(self):
        """[(super call, MapState at the call, literals of a witness path,
        node id, choices, entries assumed set / not set on the path)]"""
        params = [p for p in self.f.params if p != 'self']
        init = MapState(env={p: 'p:' + p for p in params})
        picks = [{}]
        out = []
        tried = 0
        while picks:
            pick = picks.pop()
            tried += 1
            if tried > 16:
                raise AnalysisError('UNRECOGNISED-IDIOM %s: too many `a or b` '
                                    'mapping choices' % self.f.where)
            base = self.transfer_for(pick)

            def transfer(node, edge, state):
                fz, x = state
                x2 = self.presence_step(node, edge, x, dict(fz[0])) \
                    if edge.label != 'exc' else x
                if x2 is None:
                    return None
                fz2 = base(node, edge, fz)
                return None if fz2 is None else (fz2, x2)
            try:
                ex = Exploration(self.g, self.g.entry.id,
                                 (init.freeze(), (frozenset(), frozenset())),
                                 transfer,
                                 stop=lambda nid: nid in self.super_nodes or
                                 nid in (self.g.exit.id, self.g.raise_.id))
            except _NeedChoice as e:
                for i in range(len(e.expr.values)):
                    p2 = dict(pick)
                    p2[id(e.expr)] = i
                    picks.append(p2)
                continue
            for t in ex.terminals:
                if t.node in self.super_nodes:
                    out.append((self.super_nodes[t.node], MapState.thaw(
                        t.state[0]), ex.literals(t), t.node, pick,
                        dict(t.state[1][1])))
        return out


# ------------------------------------------------------------------------------
# R19.12  a slot converter hands the input list back unconverted only when a
#         test on the WHOLE list says so (the format is decided per slot)
#
def _is_input(e, al):
    """the expression is the input list itself or a shallow copy of it"""
    if isinstance(e, ast.Name):
        return e.id in al
    if isinstance(e, ast.Call) and len(e.args) == 1 and not e.keywords:
        fn = dotted(e.func) or ''
        if fn in ('list', 'tuple', 'copy.copy', 'copy'):
            return _is_input(e.args[0], al)
    if isinstance(e, ast.Call) and not e.args and not e.keywords and \
            isinstance(e.func, ast.Attribute) and e.func.attr == 'copy':
        return _is_input(e.func.value, al)
    if isinstance(e, ast.Subscript) and isinstance(e.slice, ast.Slice) and \
            e.slice.lower is None and e.slice.upper is None and \
            e.slice.step is None:
        return _is_input(e.value, al)
    return False


def _own_nodes(fnode):
    """ast nodes of the function without those of nested functions"""
    todo = list(ast.iter_child_nodes(fnode))
    while todo:
        n = todo.pop()
        yield n
        if not isinstance(n, (ast.FunctionDef, ast.AsyncFunctionDef,
                              ast.Lambda)):
            todo.extend(ast.iter_child_nodes(n))


class InputFlow:
    """names which stand for the input list of a function (flow insensitive)
    and the single elements of that list an expression depends on"""

    def __init__(self, prog, f, param):
        self.prog, self.f, self.param = prog, f, param
        self.defs, self.loops = {}, {}
        for n in _own_nodes(f.node):
            if isinstance(n, ast.Assign) and len(n.targets) == 1 and \
                    isinstance(n.targets[0], ast.Name):
                self.defs.setdefault(n.targets[0].id, []).append(n.value)
            elif isinstance(n, ast.For):
                for nm in stores_in_target(n.target):
                    self.loops.setdefault(nm, []).append(n)
        self.al = {param}
        while True:
            more = {nm for nm, vs in self.defs.items() if nm not in self.al
                    and any(_is_input(v, self.al) for v in vs)}
            if not more:
                break
            self.al |= more

    def _over_input(self, it):
        """the loop runs over the input list (plain, enumerate, reversed..)"""
        if _is_input(it, self.al):
            return True
        if isinstance(it, ast.Call) and it.args and \
                (dotted(it.func) or '') in ('enumerate', 'reversed', 'sorted',
                                            'iter'):
            return self._over_input(it.args[0])
        return False

    def elements(self, expr, in_loops=(), _seen=None, _depth=0):
        """[text]: the single elements of the input `expr` depends on: an
        element picked by a constant index / next(iter(..)), the variable of
        a loop over the input when that loop is one of `in_loops` (ast.For
        nodes), and what a module function computes from such an element"""
        seen = set() if _seen is None else _seen
        out = []
        bound = set()
        for n in walk(expr):
            if isinstance(n, ast.comprehension):
                bound |= set(stores_in_target(n.target))
        for n in walk(expr):
            if isinstance(n, ast.Subscript) and _is_input(n.value, self.al) \
                    and not isinstance(n.slice, ast.Slice):
                i = n.slice
                if isinstance(i, ast.UnaryOp) and isinstance(i.op, ast.USub):
                    i = i.operand
                if isinstance(i, ast.Constant) and isinstance(i.value, int):
                    out.append('`%s`' % short(n, 40))
                elif any(isinstance(x, ast.Name) and any(
                        lp in in_loops for lp in self.loops.get(x.id, []))
                        for x in walk(n.slice)):
                    out.append('`%s`' % short(n, 40))
            elif isinstance(n, ast.Call) and dotted(n.func) == 'next' and \
                    n.args and self._over_input(n.args[0]):
                out.append('`%s`' % short(n, 40))
            elif isinstance(n, ast.Call) and _depth < 2:
                out += self._through_call(n, _depth)
            if isinstance(n, ast.Name) and isinstance(n.ctx, ast.Load) and \
                    n.id not in self.al and n.id not in bound and \
                    n.id not in seen:
                seen.add(n.id)
                for lp in self.loops.get(n.id, []):
                    if lp in in_loops and self._over_input(lp.iter):
                        out.append('`%s` (one element of the loop over `%s`)'
                                   % (n.id, short(lp.iter, 30)))
                for v in self.defs.get(n.id, []):
                    out += self.elements(v, in_loops, seen, _depth)
        return out

    def _through_call(self, call, depth):
        """a module level / nested function which gets the input list and
        whose result depends on a single element of it"""
        hit = [i for i, a in enumerate(call.args) if _is_input(a, self.al)]
        kws = [k.arg for k in call.keywords
               if k.arg and _is_input(k.value, self.al)]
        if not hit and not kws:
            return []
        callee = self.prog.resolve_call(self.f, call)
        if callee is None or callee.cls is not None:
            return []
        params = list(callee.params)
        names = [params[i] for i in hit if i < len(params)] + \
                [k for k in kws if k in params]
        out = []
        for nm in names:
            sub = InputFlow(self.prog, callee, nm)
            g = cfg_of(callee)
            for node in g.nodes:
                if node.kind != 'stmt' or not isinstance(node.ast, ast.Return):
                    continue
                exprs = [node.ast.value] if node.ast.value is not None else []
                exprs += [t.ast for t in _controls(g, node.id)]
                for e in exprs:
                    for el in sub.elements(e, (), None, depth + 1):
                        out.append('%s in %s()' % (el, callee.name))
        return out


def _controls(g, target):
    """test nodes the target is control dependent on: the target is reachable
    from the test, but not from one of its branches (without coming back to
    the test)"""
    out = []
    for n in g.nodes:
        if n.kind != 'test':
            continue
        reach = [target in g.reachable(e.dst, skip_nodes={n.id})
                 for e in g.succ[n.id] if e.label in ('T', 'F')]
        if any(reach) and not all(reach):
            out.append(n)
    return out


def _single_slot_list(atom, pol, al):
    """the guard says that the list has one element"""
    if not isinstance(atom, ast.Compare) or len(atom.ops) != 1:
        return False
    l, op, r = atom.left, atom.ops[0], atom.comparators[0]
    if not (isinstance(l, ast.Call) and dotted(l.func) == 'len' and
            len(l.args) == 1 and _is_input(l.args[0], al) and
            isinstance(r, ast.Constant)):
        return False
    return (isinstance(op, ast.Eq) and r.value == 1 and pol) or \
           (isinstance(op, ast.NotEq) and r.value == 1 and not pol) or \
           (isinstance(op, ast.Lt) and r.value == 2 and pol) or \
           (isinstance(op, ast.LtE) and r.value == 1 and pol) or \
           (isinstance(op, ast.Gt) and r.value == 1 and not pol) or \
           (isinstance(op, ast.GtE) and r.value == 2 and not pol)


def r19_12(prog, rep, rid='R19.12'):
    from ..flow import guard_atoms
    rep.rule(rid, 'a slot converter hands its input list back unconverted '
             'only under tests on the whole list: the format is decided slot '
             'by slot, a test on one slot does not decide for the others',
             minimum=2)
    for fname in ('convert_slots_to_new', 'convert_slots_to_old'):
        f = prog.function(MISC, fname)
        rep.saw(f)
        g = cfg_of(f)
        flow = InputFlow(prog, f, f.params[0])
        returned = set()
        for n in g.nodes:
            if n.kind == 'stmt' and isinstance(n.ast, ast.Return) and \
                    isinstance(n.ast.value, ast.Name):
                returned.add(n.ast.value.id)
        events = []
        for n in g.nodes:
            if n.kind != 'stmt':
                continue
            if isinstance(n.ast, ast.Return) and n.ast.value is not None \
                    and _is_input(n.ast.value, flow.al):
                events.append(n)
            elif isinstance(n.ast, ast.Assign) and \
                    _is_input(n.ast.value, flow.al) and any(
                        isinstance(t, ast.Name) and t.id in returned and
                        t.id != flow.param for t in n.ast.targets):
                events.append(n)
        bad = 0
        for ev in events:
            if any(_single_slot_list(a, pol, flow.al)
                   for a, pol in guard_atoms(g, ev.id)):
                continue
            in_loops = tuple(g.loop_ast[h] for h in ev.loops
                             if isinstance(g.loop_ast.get(h), ast.For))
            for t in _controls(g, ev.id):
                els = flow.elements(t.ast, in_loops)
                if not els:
                    continue
                bad += 1
                rep.bad(rid, f, 'one-element test before `%s`'
                        % short(ev.ast, 40),
                        '%s: `%s` hands the input list back as it is, and '
                        'whether it is reached depends on the test `%s` which '
                        'looks at %s only; the other slots of the list may be '
                        'in the other format (the converter itself decides '
                        'the format slot by slot) and stay unconverted'
                        % (fname, short(ev.ast, 40), short(t.ast, 50),
                           ', '.join(sorted(set(els)))), f.loc(t.ast),
                        history='%s([A, B]) where A already has the target '
                        'format and B does not: the test looks at A, the list '
                        'comes back unchanged and B reaches the consumer in '
                        'the wrong format (jsrun indexes slot[\'cores\'] as '
                        'list of lists; Node.allocate_slot reads ro.index)'
                        % fname)
                break
        if not bad:
            rep.ok(rid, f, '%s: %d exit(s) hand the input list back, each '
                   'decided by tests on the whole list' % (fname, len(events)),
                   f.loc())


# ------------------------------------------------------------------------------
# R19.13  a handler which retries the guarded primitive another way (fallback)
#         catches at least what the handler around the retry gives up on
#
def _exc_chain(prog, fn, expr):
    """names of the exception class `expr` and of its bases (builtins by name,
    classes of the pickle module as pickle.X, package classes by `where`);
    None if the class is not known"""
    import builtins
    import pickle as _pickle

    def of_type(k):
        return [q.__name__ if q.__module__ == 'builtins'
                else 'pickle.' + q.__name__
                for q in k.__mro__ if q is not object]
    nm = dotted(expr)
    b = getattr(builtins, nm, None) if nm and '.' not in nm else None
    r = prog.resolve(fn.module, expr, scope_imports(fn))
    if r is None and isinstance(b, type) and issubclass(b, BaseException):
        return of_type(b)
    if r and r[0] == 'ext' and r[1].startswith('pickle.'):
        k = getattr(_pickle, r[1][len('pickle.'):], None)
        if isinstance(k, type) and issubclass(k, BaseException):
            return of_type(k)
    if r and r[0] == 'class':
        out = []
        for k in prog.mro(r[1]):
            out.append(k.where)
            for bx in k.node.bases:
                sub = _exc_chain(prog, fn, bx)
                if sub and prog.resolve(k.module, bx) is None:
                    out += sub
        return out
    return None


def _handler_types(h):
    if h.type is None:
        return [None]
    return list(h.type.elts) if isinstance(h.type, ast.Tuple) else [h.type]


def _ext_calls(prog, fn, stmts):
    """[(call, external dotted name)] in the statements (nested functions
    excluded)"""
    out = []
    limp = scope_imports(fn)
    for st in stmts:
        for c in [st] + list(_own_nodes(st)):
            if isinstance(c, ast.Call) and dotted(c.func):
                r = prog.resolve(fn.module, c.func, limp)
                if r and r[0] == 'ext':
                    out.append((c, r[1]))
    return out


def _enclosing_try(stmts, call):
    """innermost try below `stmts` whose BODY holds the call (None: the call
    is not guarded there)"""
    found = []

    def rec(node, cur):
        if node is call:
            found.append(cur)
            return
        if isinstance(node, (ast.FunctionDef, ast.AsyncFunctionDef,
                             ast.Lambda)):
            return
        if isinstance(node, ast.Try):
            for b in node.body:
                rec(b, node)
            for part in (node.handlers, node.orelse, node.finalbody):
                for b in part:
                    rec(b, cur)
            return
        for c in ast.iter_child_nodes(node):
            rec(c, cur)
    for st in stmts:
        rec(st, None)
    return found[0] if found else None


def _retries(prog, fn, handler, names, depth=0):
    """[(external name, try around the retry | None)]: calls in the handler
    (or in a module function it calls) of an external callee in `names`"""
    out = []
    for c, ext in _ext_calls(prog, fn, handler.body):
        if ext in names:
            out.append((ext, _enclosing_try(handler.body, c)))
    if depth == 0:
        for st in handler.body:
            for c in [st] + list(_own_nodes(st)):
                if not isinstance(c, ast.Call):
                    continue
                callee = prog.resolve_call(fn, c)
                if callee is None or callee.cls is not None or \
                        callee.module is not fn.module:
                    continue
                for c2, ext in _ext_calls(prog, callee, callee.node.body):
                    if ext in names:
                        out.append((ext, _enclosing_try(callee.node.body, c2)
                                    or _enclosing_try(handler.body, c)))
    return out


def r19_13(prog, rep, rid='R19.13'):
    rep.rule(rid, 'a handler of the serializer which tries the failed '
             'primitive again another way (fallback) catches at least the '
             'exceptions on which the handler around that retry gives up',
             minimum=1)
    ser = prog.module(SER)
    for name, fn in sorted(ser.funcs.items()):
        tries = [n for n in _own_nodes(fn.node) if isinstance(n, ast.Try)]
        if not tries:
            continue
        rep.saw(fn)
        found = 0
        for t1 in tries:
            names = {ext for c, ext in _ext_calls(prog, fn, t1.body)}
            if not names:
                continue
            per = {}
            for h in t1.handlers:
                for ext, t2 in _retries(prog, fn, h, names):
                    per.setdefault(ext, []).append((h, t2))
            for ext, hs in sorted(per.items()):
                found += 1
                wide = [ty for h, t2 in hs for ty in _handler_types(h)]
                heads = set()
                for ty in wide:
                    ch = ['BaseException'] if ty is None else \
                        _exc_chain(prog, fn, ty)
                    heads.add(ch[0] if ch else unparse(ty))
                if heads & {'BaseException'}:
                    heads.add('Exception')
                missed = []
                for h, t2 in hs:
                    for h2 in (t2.handlers if t2 is not None else []):
                        for ty in _handler_types(h2):
                            if ty is None:
                                ch = ['Exception']
                            else:
                                ch = _exc_chain(prog, fn, ty)
                                if ch and ch[0] == 'BaseException':
                                    ch = ['Exception']
                            if ch is None:
                                if unparse(ty) in heads or \
                                        'Exception' in heads:
                                    continue
                                raise AnalysisError(
                                    'UNRECOGNISED-IDIOM %s: exception class '
                                    '`%s` is not known' % (fn.where,
                                                           unparse(ty)))
                            if not (heads & set(ch)):
                                missed.append(ty)
                first = hs[0][0]
                rep.check(not missed, rid, fn,
                          '%s: the handler which retries %s catches what the '
                          'handler around the retry catches' % (name, ext),
                          construct='fallback of %s' % ext,
                          message='%s: `except %s` is the handler which tries '
                          '%s again another way, but the handler around that '
                          'second attempt gives up on `%s`: that is what this '
                          'function regards as a failure of %s, and a first '
                          'attempt failing with such an exception which is '
                          'not %s leaves the function without the fallback '
                          'being tried (dill reports an object it cannot '
                          'pickle by value with TypeError, not PicklingError)'
                          % (name, ', '.join(unparse(x) if x is not None
                                             else '<all>' for x in wide) or
                             '<all>', ext,
                             ', '.join(sorted({unparse(x) if x is not None else
                                               '<all>' for x in missed})),
                             ext, ' / '.join(sorted(heads))),
                          loc=fn.loc(first),
                          history='PythonTask(obj) for a callable instance '
                          'whose class holds something dill cannot copy by '
                          'value (a running generator): dill.dumps(obj) raises '
                          'TypeError, the by-reference attempt which would '
                          'succeed is skipped and the encoder raises')
        if not found:
            rep.ok(rid, fn, '%s: no handler retries the guarded primitive'
                   % name, fn.loc())


# ------------------------------------------------------------------------------
# R19.16  a payload file holds the payload of the last encoder call only
#
_OPEN_FUNCS = {'open', 'io.open', 'ru.ru_open', 'ru_open', 'codecs.open',
               'gzip.open', 'bz2.open', 'lzma.open', 'os.fdopen'}
_LOADERS    = {'dill.load', 'pickle.load'}


def _all_funcs(module):
    """every function of the module: top level, methods, nested ones"""
    todo = list(module.funcs.values())
    for c in module.classes.values():
        todo += list(c.methods.values())
    out = []
    while todo:
        f = todo.pop()
        out.append(f)
        todo += list(f.nested.values())
    return sorted(out, key=lambda f: f.node.lineno)


def _file_opens(prog, f):
    """[(call, file expr, mode expr or None)] of the file opens in f itself"""
    out = []
    limp = scope_imports(f)
    for c in _own_nodes(f.node):
        if not isinstance(c, ast.Call):
            continue
        d = dotted(c.func)
        r = prog.resolve(f.module, c.func, limp) if d else None
        ext = r[1] if r and r[0] == 'ext' else None
        if d in _OPEN_FUNCS or ext in _OPEN_FUNCS:
            out.append((c, kwarg(c, 'file', 0), kwarg(c, 'mode', 1)))
        elif isinstance(c.func, ast.Attribute) and c.func.attr == 'open':
            if ext is not None or (r and r[0] == 'mod'):
                continue                     # os.open, webbrowser.open, ...
            b = prog.resolve(f.module, c.func.value, limp) \
                if dotted(c.func.value) else None
            if b and b[0] in ('ext', 'mod'):
                continue
            out.append((c, c.func.value, kwarg(c, 'mode', 0)))
        elif isinstance(c.func, ast.Attribute) and \
                c.func.attr in ('write_bytes', 'write_text'):
            # pathlib: creates / truncates the file
            out.append((c, c.func.value, ast.Constant(
                value='wb' if c.func.attr == 'write_bytes' else 'w')))
    return out


def _param_default(f, name):
    a = f.node.args
    pos = a.posonlyargs + a.args
    for p, d in zip(pos[len(pos) - len(a.defaults):], a.defaults):
        if p.arg == name:
            return d
    for p, d in zip(a.kwonlyargs, a.kw_defaults):
        if p.arg == name:
            return d
    return None


def _mode_values(prog, f, e, depth=0):
    """the constant strings a mode expression may hold - through locals,
    module constants, conditional expressions, concatenation, a parameter
    (default and what the callers inside the module pass) - or None"""
    if e is None:
        return {'r'}
    if depth > 6:
        return None

    def union(xs):
        out = set()
        for x in xs:
            v = _mode_values(prog, f, x, depth + 1) if not isinstance(x, set) \
                else x
            if v is None:
                return None
            out |= v
        return out
    if isinstance(e, ast.Constant):
        return {e.value} if isinstance(e.value, str) else None
    if isinstance(e, ast.IfExp):
        return union([e.body, e.orelse])
    if isinstance(e, ast.BoolOp):
        return union(e.values)
    if isinstance(e, ast.BinOp) and isinstance(e.op, ast.Add):
        a = _mode_values(prog, f, e.left, depth + 1)
        b = _mode_values(prog, f, e.right, depth + 1)
        if a is None or b is None:
            return None
        return {x + y for x in a for y in b}
    if isinstance(e, ast.Name):
        h = f
        while h is not None:
            defs, opaque = [], False
            for n in _own_nodes(h.node):
                if isinstance(n, ast.Assign):
                    for t in n.targets:
                        if isinstance(t, ast.Name) and t.id == e.id:
                            defs.append(n.value)
                        elif e.id in stores_in_target(t):
                            opaque = True
                elif isinstance(n, (ast.AugAssign, ast.AnnAssign,
                                    ast.NamedExpr)) and \
                        isinstance(n.target, ast.Name) and n.target.id == e.id:
                    if isinstance(n, ast.AugAssign) or n.value is None:
                        opaque = True
                    else:
                        defs.append(n.value)
                elif isinstance(n, ast.Name) and n.id == e.id and \
                        isinstance(n.ctx, ast.Store) and not defs:
                    pass
            if opaque:
                return None
            vals = []
            if e.id in h.params:
                d = _param_default(h, e.id)
                if d is not None:
                    vals.append((h, d))
                a = h.node.args
                pos = [x.arg for x in a.posonlyargs + a.args]
                meth = h.cls is not None and h.parent is None
                for g in _all_funcs(h.module):
                    for c in _own_nodes(g.node):
                        if not isinstance(c, ast.Call):
                            continue
                        dn = dotted(c.func) or ''
                        if dn != h.name and not dn.endswith('.' + h.name):
                            continue
                        if any(isinstance(x, ast.Starred) for x in c.args) or \
                                any(k.arg is None for k in c.keywords):
                            return None
                        i = pos.index(e.id) if e.id in pos else None
                        if i is not None and meth and '.' in dn:
                            i -= 1
                        v = kwarg(c, e.id, i if i is not None and i >= 0
                                  else None)
                        if v is not None:
                            vals.append((g, v))
                if not vals:
                    return None
            vals += [(h, d) for d in defs]
            if vals:
                out = set()
                for g, x in vals:
                    if isinstance(x, ast.Constant) and x.value is None:
                        continue        # `mode=None` default: `mode or 'wb'`
                    v = _mode_values(prog, g, x, depth + 1)
                    if v is None:
                        return None
                    out |= v
                return out
            h = h.parent
        v = fold_name(prog, f.module, e, f.cls)
        return {v} if isinstance(v, str) else None
    v = prog.fold(f.module, e, f.cls)
    return {v} if isinstance(v, str) else None


def _in_loop(f, node):
    """node lies in a loop / comprehension of f"""
    par = {}
    for n in ast.walk(f.node):
        for c in ast.iter_child_nodes(n):
            par[id(c)] = n
    n = par.get(id(node))
    while n is not None and n is not f.node:
        if isinstance(n, (ast.While, ast.For, ast.AsyncFor, ast.ListComp,
                          ast.SetComp, ast.DictComp, ast.GeneratorExp)):
            return True
        n = par.get(id(n))
    return False


def r19_16(prog, rep, rid='R19.16'):
    rep.rule(rid, 'a file which the serializer writes a payload to is opened '
             'in a truncating mode: the reader takes ONE object from the start '
             'of the file, so what an earlier call left under the same name '
             '(the default name is one fixed path) must not be part of it',
             minimum=1)
    ser = prog.module(SER)
    writers, readers, rkinds = [], [], set()
    for f in _all_funcs(ser):
        for c, name, mode in _file_opens(prog, f):
            ms = _mode_values(prog, f, mode)
            if ms is None:
                raise AnalysisError(
                    'UNRECOGNISED-IDIOM %s: cannot tell the mode of `%s`'
                    % (f.where, short(c, 50)))
            if any(set(m) & set('wax+') for m in ms):
                writers.append((f, c, name, sorted(ms)))
            else:
                readers.append((f, c))
                rkinds |= {'b' in m for m in ms}
    # a file which no reader of the module could take an object from (a text
    # file next to binary readers: a log, a trace) is not a payload file
    for w in list(writers):
        if rkinds and not ({'b' in m for m in w[3]} & rkinds):
            writers.remove(w)
            rep.ok(rid, w[0], '%s: `%s` (mode %s) is not a file the readers '
                   'of the module read' % (w[0].qual, short(w[1], 40),
                                           '/'.join(w[3])), w[0].loc(w[1]))
    # what the readers of the module take from a file
    limp_loads, streams = [], []
    for f in _all_funcs(ser):
        for c, ext in _ext_calls(prog, f, f.node.body):
            if ext in _LOADERS:
                limp_loads.append((f, c))
                if _in_loop(f, c):
                    streams.append((f, c))
    for f, c, name, ms in writers:
        rep.saw(f)
        keeps = [m for m in ms if 'w' not in m]
        what = short(name, 40) if name is not None else '?'
        if keeps:
            top = f
            while top.parent is not None:
                top = top.parent
            for n in ast.walk(top.node):
                if isinstance(n, ast.Call) and (dotted(n.func) or '').split(
                        '.')[-1] in ('remove', 'unlink', 'truncate',
                                     'ftruncate', 'replace', 'rename'):
                    raise AnalysisError(
                        'UNRECOGNISED-IDIOM %s: `%s` is opened with mode %r '
                        'and the function removes / truncates / renames a '
                        'file itself (`%s`)' % (f.where, what, keeps[0],
                                                short(n, 40)))
            if streams or not readers:
                raise AnalysisError(
                    'UNRECOGNISED-IDIOM %s: `%s` is opened with mode %r and '
                    '%s' % (f.where, what, keeps[0],
                            '%s reads objects in a loop' % streams[0][0].qual
                            if streams else 'no function of the module reads '
                            'a file'))
        m = keeps[0] if keeps else ''
        if 'a' in m:
            effect = ('the payload is appended: the reader (%s) takes the '
                      'first object of the file, which is the payload of the '
                      'FIRST call - a stale function / stale arguments are '
                      'decoded without any error'
                      % ', '.join(sorted({g.qual for g, _ in readers})))
            hist = ('%s(f1, name) then %s(f2, name) without the file being '
                    'removed in between (the default name is one fixed path): '
                    'the reader returns f1 for the second payload'
                    % (f.qual, f.qual))
        elif 'x' in m:
            effect = ('the file is created exclusively: the second call for '
                      'the same name (the default name is one fixed path) '
                      'fails with FileExistsError')
            hist = ('%s(f1) then %s(f2) with the default file name: the '
                    'second payload is never written' % (f.qual, f.qual))
        else:
            effect = ('the file is neither created nor truncated: the first '
                      'call for a name fails (no such file), and a payload '
                      'shorter than the one before it leaves the old tail in '
                      'the file')
            hist = ('%s(f1, name) for a name which does not exist yet: the '
                    'encoder raises, nothing is transported' % f.qual)
        rep.check(not keeps, rid, f,
                  '%s opens %s with mode %s: the file holds this payload only'
                  % (f.qual, what, '/'.join(repr(x) for x in ms)),
                  construct=c,
                  message='%s opens `%s` with mode %r, which does not '
                  'truncate the file: %s' % (f.qual, what, m, effect),
                  loc=f.loc(c), history=hist)


class _NeedChoice(Exception):
    def __init__(self, expr):
        self.expr = expr


def r19_7(prog, rep, rid='R19.7'):
    rep.rule(rid, 'an entry which Slot.__init__ / Node.__init__ converts in '
             'the input mapping reaches the base constructor: the converted '
             'object (or a copy made after the conversion) is handed to '
             'super().__init__, and no argument of higher precedence carries '
             'the same input unconverted', minimum=2)
    rep.rule('R19.11', 'whether Slot.__init__ / Node.__init__ convert the '
             'entries of one kind (cores, gpus) depends on that kind only: '
             'with the other kind set as well, the same conversions happen',
             minimum=2)
    for rel, cname in NORMALISERS:
        f = prog.method(rel, cname, '__init__')
        rep.saw(f)
        cm = CtorMaps(prog, f)
        if not cm.supers:
            raise AnalysisError('UNRECOGNISED-IDIOM %s: no super().__init__ '
                                'call' % f.where)
        runs = cm.runs()
        rep.stat('paths', len(runs))
        seen_keys, reported = set(), set()
        for call, st, lits, nid, pick, assumed in runs:
            if not st.events:
                continue
            # arguments of the base constructor in order of precedence
            args = []
            pos = call.args[0] if call.args else kwarg(call, 'from_dict')
            if pos is not None:
                args.append(('the mapping `%s`' % short(pos, 30), pos))
            for k in call.keywords:
                if k.arg is None:
                    args.append(('`**%s`' % short(k.value, 30), k.value))
            toks = []
            for text, e in args:
                try:
                    toks.append((text, cm.value(e, st, nid, pick)))
                except _NeedChoice:
                    raise AnalysisError('UNRECOGNISED-IDIOM %s: `%s` as '
                                        'argument' % (f.where, short(e)))
            for tok, key in sorted(st.events):
                seen_keys.add(key)
                if tok.startswith('u:') or \
                        any(t.startswith('u:') for _, t in toks):
                    raise AnalysisError(
                        'UNRECOGNISED-IDIOM %s: the mapping which is '
                        'converted / handed to super().__init__ is computed '
                        'by something else than an alias or a copy'
                        % f.where)
                roots = set(st.roots.get(tok, (tok,)))
                same = [(text, t) for text, t in toks
                        if roots & set(st.roots.get(t, (t,)))]
                kname = key if not key.startswith('$') else key[1:]
                via = '; '.join(lits[-4:])
                if not same:
                    if (key, 'lost') not in reported:
                        reported.add((key, 'lost'))
                        rep.bad(rid, f, '%s:%s:lost' % (cname, kname),
                                '%s.__init__ stores the converted %r into a '
                                'mapping which is not handed to '
                                'super().__init__ (arguments: %s): the '
                                'conversion of compact core / GPU entries to '
                                'RO records is lost, the object keeps the '
                                'entries as they were given'
                                % (cname, kname, ', '.join(
                                    t for t, _ in args) or 'none'),
                                f.loc(call),
                                history='%s({.., %r: [3, 4]}) [path: %s]: '
                                '.%s == [3, 4] (ints) instead of RO records; '
                                'as_dict() / verify() differ from the same '
                                'placement in the other format'
                                % (cname, kname, via, kname))
                    continue
                text, last = same[-1]
                if (last, key) not in st.norm:
                    if (key, 'raw') not in reported:
                        reported.add((key, 'raw'))
                        rep.bad(rid, f, '%s:%s:raw' % (cname, kname),
                                '%s.__init__ converts %r in one object but '
                                'hands the same input unconverted to '
                                'super().__init__ as %s, which is applied '
                                'last (keywords take precedence in '
                                'TypedDict.__init__): the raw entries '
                                'overwrite the converted RO records'
                                % (cname, kname, text), f.loc(call),
                                history="%s(node_index=0, node_name='n', "
                                "%s=[3]) [path: %s]: .%s == [3] (ints), not "
                                "[RO(index=3)]; the same placement given as "
                                "a dict converts - the two formats no longer "
                                "agree, TaskDescription.verify() refuses "
                                "the slot" % (cname, kname, via, kname))
        if not seen_keys:
            raise AnalysisError('UNRECOGNISED-IDIOM %s: no store into the '
                                'input mapping found' % f.where)
        _independent_kinds(rep, f, cname, runs)
        if not reported:
            rep.ok(rid, f, '%s.__init__: the mapping in which %s are '
                   'converted is the one super().__init__ receives, no '
                   'later argument carries them unconverted'
                   % (cname, '/'.join(sorted(k.lstrip('$')
                                              for k in seen_keys))),
                   f.loc(cm.supers[0]))


def _independent_kinds(rep, f, cname, runs, rid='R19.11'):
    """R19.11: over the paths to super().__init__, with the presence of the
    entries decided (set / not set) and all other tests open, the conversion
    of kind k happens with all kinds set exactly when it happens with only k
    set"""
    stored = [({k for t, k in st.events}, assumed, lits)
              for call, st, lits, nid, pick, assumed in runs]
    kinds = sorted({k for ks, a, l in stored for k in ks
                    if not k.startswith('$')})
    if len(kinds) < 2:
        # one generic conversion for all kinds (helper with the kind as
        # parameter, loop over the kinds).  A loop must give every kind its
        # turn: it is left by exhaustion only
        g = cfg_of(f)
        for h in g.nodes:
            if h.kind != 'for' or not isinstance(h.ast.target, ast.Name):
                continue
            var = h.ast.target.id
            if not any(isinstance(t, ast.Subscript) and
                       isinstance(t.slice, ast.Name) and t.slice.id == var
                       and isinstance(t.ctx, ast.Store)
                       for t in walk(h.ast)):
                continue
            start, stop, stop_edge = loop_slice(g, h.id)
            ex = Exploration(g, start, 0, lambda n, e, st: st,
                             stop=lambda nid: stop(nid) or nid in (
                                 g.exit.id, g.raise_.id), stop_edge=stop_edge)
            early = [t for t in ex.terminals if t.node != g.raise_.id and
                     t.node != h.id and t.via != 'exc']
            if early:
                lits = ex.literals(early[0])
                rep.bad(rid, f, '%s: loop over the kinds left early' % cname,
                        '%s.__init__ converts the kinds in a loop over `%s` '
                        'and leaves that loop from inside its body (break / '
                        'return%s): the kinds which come later are not '
                        'converted because of what an earlier kind holds'
                        % (cname, short(h.ast.iter, 40), ' after `%s`'
                           % lits[-1] if lits else ''), f.loc(h.ast),
                        history='%s(gpus=[2, 1]) (no cores): .gpus stays a '
                        'list of ints, .gpus[0].index raises' % cname)
                return
        rep.ok(rid, f, '%s.__init__ converts %s through one generic piece of '
               'code' % (cname, '/'.join(sorted(
                   {k.lstrip('$') for ks, a, l in stored for k in ks}))),
               f.loc())
        return

    def outcomes(k, val):
        out = {}
        for ks, assumed, lits in stored:
            if all(assumed.get(x, v) == v for x, v in val.items()):
                out.setdefault(k in ks, lits)
        return out
    bad = []
    for k in kinds:
        alone = outcomes(k, {x: x == k for x in kinds})
        both  = outcomes(k, {x: True for x in kinds})
        if set(alone) != set(both):
            bad.append((k, alone, both))
    if not bad:
        rep.ok(rid, f, '%s.__init__: each of %s is converted under tests on '
               'that entry only' % (cname, '/'.join(kinds)), f.loc())
        return
    for k, alone, both in bad:
        others = [x for x in kinds if x != k]
        if True in alone and True not in both:
            what = 'never converted'
        elif True not in alone:
            what = 'only converted then'
        else:
            what = 'not converted on the same conditions'
        wit = both.get(False) or both.get(True) or []
        rep.bad(rid, f, '%s:%s depends on %s' % (cname, k, '/'.join(others)),
                '%s.__init__ converts compact %r entries (ints / dicts) to RO '
                'records when only %r is set, but with %s set as well they '
                'are %s: whether %r is converted is decided by a test on '
                'another entry, the two kinds are independent parts of a '
                'placement' % (cname, k, k, '/'.join(repr(x) for x in others),
                               what, k), f.loc(),
                history='%s(%s) [path: %s]: .%s stays a list of ints - '
                '.%s[0].index raises, as_dict() -> %s() does not give the '
                'same slot, TaskDescription.verify() refuses it' % (
                    cname, ', '.join('%s=[%d, 1]' % (x, i)
                                     for i, x in enumerate(kinds)),
                    '; '.join(wit[-4:]), k, k, cname))


# ------------------------------------------------------------------------------
# R19.15  as_dict() overrides of the typed dict classes
#
def _ext_typed_base(prog, c):
    """c derives (inside the package: transitively) from a TypedDict which is
    not a class of the package (radical.utils)"""
    for k in prog.mro(c):
        for b in k.node.bases:
            r = prog.resolve(k.module, b)
            if r and r[0] == 'ext' and r[1].split('.')[-1] == 'TypedDict':
                return True
    return False


def typed_witnesses(prog, c, family):
    """schema entries of c and of the classes below it which hold typed
    dicts: (class, key, 'direct' | 'nested', type name)"""
    out = []
    for k in prog.subclasses(c):
        sch = k.consts.get('_schema')
        if not isinstance(sch, ast.Dict):
            continue
        for kn, vn in zip(sch.keys, sch.values):
            if kn is None:
                continue
            key = fold_name(prog, k.module, kn, k)
            key = unparse(kn) if key is UNKNOWN else key
            for n in walk(vn):
                if not isinstance(n, (ast.Name, ast.Attribute)):
                    continue
                r = prog.resolve(k.module, n)
                if r and r[0] == 'class' and r[1] in family:
                    out.append((k, key, 'direct' if n is vn else 'nested',
                                r[1].name, unparse(vn)))
    return sorted(out, key=lambda w: (w[0].where, str(w[1])))


class _DictView:
    """what an as_dict() override returns: 'deep' - the conversion of the
    base class (super().as_dict / radical.utils as_dict: typed dicts at any
    depth become plain dicts), possibly changed afterwards; 'raw' - the data
    of the instance or a copy of it (nested values as they are)"""

    def __init__(self, prog, f):
        self.prog, self.f = prog, f
        self.me = f.params[0] if f.params else 'self'
        self.names = {}
        for n in walk(f.node):
            if isinstance(n, ast.Assign) and len(n.targets) == 1 and \
                    isinstance(n.targets[0], ast.Name):
                self.names.setdefault(n.targets[0].id, []).append(n.value)
        self.other = set()       # names bound in another way
        for n in walk(f.node):
            if isinstance(n, ast.Name) and isinstance(n.ctx, ast.Store) and \
                    n.id not in self.names:
                self.other.add(n.id)

    def is_data(self, e, depth=0):
        """the mapping which holds the values of the instance"""
        if depth > 5:
            return False
        if isinstance(e, ast.Name):
            if e.id == self.me:
                return True
            ds = self.names.get(e.id)
            return bool(ds) and e.id not in self.other and all(
                self.is_data(d, depth + 1) for d in ds)
        if isinstance(e, ast.Attribute) and e.attr in ('_data', '__dict__') \
                and isinstance(e.value, ast.Name) and e.value.id == self.me:
            return True
        return False

    def _deep_call(self, e):
        if not (isinstance(e, ast.Call) and
                isinstance(e.func, (ast.Attribute, ast.Name))):
            return False
        fn = e.func
        if isinstance(fn, ast.Attribute) and fn.attr == 'as_dict':
            b = fn.value
            if isinstance(b, ast.Call) and isinstance(b.func, ast.Name) and \
                    b.func.id == 'super':
                return True
        r = self.prog.resolve(self.f.module, fn)
        if r and r[0] == 'ext' and r[1].split('.')[-1] == 'as_dict':
            return True
        return False

    def view(self, e, depth=0):
        if depth > 6 or e is None:
            raise Unrec('`%s`' % (short(e, 40) if e is not None else 'None'))
        if self._deep_call(e):
            return 'deep'
        if self.is_data(e):
            return 'raw'
        if isinstance(e, ast.Name):
            ds = self.names.get(e.id)
            if not ds or e.id in self.other or e.id in self.f.params:
                raise Unrec('`%s` is not bound by plain assignments' % e.id)
            vs = {self.view(d, depth + 1) for d in ds}
            if len(vs) != 1:
                raise Unrec('`%s` is bound to the converted and to the raw '
                            'data' % e.id)
            return list(vs)[0]
        if isinstance(e, ast.Call):
            fn = e.func
            name = dotted(fn)
            if name in ('dict', 'copy.copy', 'copy.deepcopy', 'copy',
                        'deepcopy') and len(e.args) == 1 and not e.keywords:
                return self.view(e.args[0], depth + 1)
            if isinstance(fn, ast.Attribute) and fn.attr in ('copy', 'items') \
                    and not e.args and not e.keywords:
                return self.view(fn.value, depth + 1)
        if isinstance(e, ast.Dict) and len(e.keys) == 1 and e.keys[0] is None:
            return self.view(e.values[0], depth + 1)
        if isinstance(e, ast.DictComp) and len(e.generators) == 1 and \
                not e.generators[0].ifs:
            gen = e.generators[0]
            it = gen.iter
            if isinstance(it, ast.Call) and isinstance(it.func, ast.Attribute) \
                    and it.func.attr == 'items' and not it.args and \
                    isinstance(gen.target, ast.Tuple) and \
                    len(gen.target.elts) == 2 and all(
                        isinstance(x, ast.Name) for x in gen.target.elts):
                src = self.view(it.func.value, depth + 1)
                kn, vn = [x.id for x in gen.target.elts]
                if isinstance(e.key, ast.Name) and e.key.id == kn:
                    if isinstance(e.value, ast.Name) and e.value.id == vn:
                        return src
                    if self._deep_call(e.value) and e.value.args and \
                            isinstance(e.value.args[0], ast.Name) and \
                            e.value.args[0].id == vn:
                        return 'deep'
        raise Unrec('`%s`' % short(e, 50))


def _direct_typed_test(prog, f, atom, pol, dv, family):
    """the guard says: no DIRECT value of the data is a typed dict
    (`not any(isinstance(v, TypedDict) for v in data.values())`, all(not ..),
    items() with the value variable)"""
    if not (isinstance(atom, ast.Call) and isinstance(atom.func, ast.Name) and
            atom.func.id in ('any', 'all') and len(atom.args) == 1 and
            isinstance(atom.args[0], (ast.GeneratorExp, ast.ListComp)) and
            len(atom.args[0].generators) == 1 and
            not atom.args[0].generators[0].ifs):
        return False
    gen = atom.args[0].generators[0]
    it = gen.iter
    if not (isinstance(it, ast.Call) and isinstance(it.func, ast.Attribute)
            and not it.args and dv.is_data(it.func.value)):
        return False
    if it.func.attr == 'values' and isinstance(gen.target, ast.Name):
        var = gen.target.id
    elif it.func.attr == 'items' and isinstance(gen.target, ast.Tuple) and \
            len(gen.target.elts) == 2 and \
            isinstance(gen.target.elts[1], ast.Name):
        var = gen.target.elts[1].id
    else:
        return False
    elt = atom.args[0].elt
    neg = False
    if isinstance(elt, ast.UnaryOp) and isinstance(elt.op, ast.Not):
        elt, neg = elt.operand, True
    if not (isinstance(elt, ast.Call) and isinstance(elt.func, ast.Name) and
            elt.func.id == 'isinstance' and len(elt.args) == 2 and
            isinstance(elt.args[0], ast.Name) and elt.args[0].id == var):
        return False
    types = elt.args[1].elts if isinstance(elt.args[1], ast.Tuple) \
        else [elt.args[1]]
    root = False
    for t in types:
        r = prog.resolve(f.module, t)
        if r and r[0] == 'ext' and r[1].split('.')[-1] == 'TypedDict':
            root = True
        if r and r[0] == 'class' and all(r[1] in prog.mro(k)
                                         for k in family):
            root = True
    if not root:
        return False
    # not any(isinstance) / all(not isinstance)
    return (atom.func.id == 'any' and not neg and not pol) or \
        (atom.func.id == 'all' and neg and pol)


def r19_15(prog, rep, rid='R19.15'):
    rep.rule(rid, 'as_dict() of the description classes (TaskDescription, '
             'PilotDescription, Slot, RO and every other typed dict class of '
             'the package) is the conversion of radical.utils, or an override '
             'which returns that conversion on every path; an override which '
             'returns the data of the instance (or a copy of it) is plain only '
             'if no schema below that class holds typed dicts which the guard '
             'of that return does not exclude (a test of the direct values '
             'does not see typed dicts inside lists / dicts)', minimum=5)
    family = [c for c in prog.all_classes() if _ext_typed_base(prog, c)]
    anchors = [prog.cls(*TD), prog.cls(*PD), prog.cls(RC, 'Slot'),
               prog.cls(RC, 'RO')]
    for c in anchors:
        if c not in family:
            raise AnalysisError('UNRECOGNISED-IDIOM %s does not derive from '
                                'the TypedDict of radical.utils' % c.where)
    todo = []
    for c in anchors:
        f = prog.find_method(c, 'as_dict')
        if f is None:
            rep.ok(rid, c.where, '%s.as_dict is the conversion of '
                   'radical.utils TypedDict (typed dicts at any depth become '
                   'plain dicts)' % c.name, '%s' % c.where)
            continue
        rep.ok(rid, c.where, '%s.as_dict is the override %s, decided there'
               % (c.name, f.qual), f.loc())
        if f not in todo:
            todo.append(f)
    for c in sorted(family, key=lambda k: k.where):
        f = c.methods.get('as_dict')
        if f is not None and f not in todo:
            todo.append(f)
    for f in todo:
        rep.saw(f)
        _as_dict_override(prog, rep, rid, f, family)


def _as_dict_override(prog, rep, rid, f, family):
    dv = _DictView(prog, f)
    g = cfg_of(f)
    rets = [n for n in g.nodes if n.kind == 'stmt' and
            isinstance(n.ast, ast.Return)]
    if not rets:
        raise AnalysisError('UNRECOGNISED-IDIOM %s returns nothing' % f.where)
    wit = typed_witnesses(prog, f.cls, family)
    for n in rets:
        try:
            view = dv.view(n.ast.value)
        except Unrec as e:
            raise AnalysisError('UNRECOGNISED-IDIOM %s: what `%s` returns: %s'
                                % (f.where, short(n.ast, 50), e))
        if view == 'deep':
            rep.ok(rid, f, '%s: `%s` hands back the conversion of the base '
                   'class' % (f.qual, short(n.ast, 40)), f.loc(n.ast))
            continue
        # the raw data: which typed values may it still hold here?
        direct_excluded, empty = False, False
        for tid, lab in guards(g, n.id):
            atom, pol = g.nodes[tid].ast, lab == 'T'
            if dv.is_data(atom):
                empty = empty or not pol
                continue
            if _direct_typed_test(prog, f, atom, pol, dv, family):
                direct_excluded = True
                continue
            reads = {x.id for x in walk(atom) if isinstance(x, ast.Name)}
            if not any(isinstance(x, ast.Call) for x in walk(atom)) and \
                    reads and reads <= set(f.params[1:]):
                continue           # a test of the arguments only
            raise AnalysisError('UNRECOGNISED-IDIOM %s: `%s` is returned '
                                'under `%s`: cannot decide what that test '
                                'says about the values' % (
                                    f.where, short(n.ast.value, 40),
                                    short(atom, 50)))
        left = [] if empty else [w for w in wit if w[2] == 'nested' or
                                 not direct_excluded]
        w = left[0] if left else None
        rep.check(not left, rid, f,
                  '%s: `%s` hands back the data as it is, and no schema of '
                  '%s or below holds typed dicts%s' % (
                      f.qual, short(n.ast, 40), f.cls.name,
                      ' other than as direct values, which the guard excludes'
                      if direct_excluded else ''),
                  construct='raw data returned',
                  message='%s returns `%s` (the data of the instance, nested '
                  'values as they are) %s; %s.%s is declared `%s` in the '
                  'schema (and %d more such entries in %s and its subclasses)'
                  ': the %s objects %s stay typed dicts in the result. '
                  'as_dict() is then not a plain dictionary: a typed dict is '
                  'a dict subclass whose own dict is empty, json / msgpack '
                  'write it as {} and the description built from the '
                  'transported dictionary has lost these values' % (
                      f.qual, short(n.ast.value, 40),
                      'under a guard which looks at the direct values only'
                      if direct_excluded else 'without asking whether values '
                      'are typed dicts',
                      w[0].name if w else '', w[1] if w else '',
                      w[4] if w else '', max(len(left) - 1, 0), f.cls.name,
                      w[3] if w else '',
                      'inside that container' if w and w[2] == 'nested'
                      else ''),
                  loc=f.loc(n.ast),
                  history='%s with %s set to %s objects: as_dict() keeps them '
                  'as typed dicts, after json / msgpack transport they are '
                  '{} - the %s from the wire has lost them' % (
                      w[0].name if w else '', w[1] if w else '',
                      w[3] if w else '', w[0].name if w else ''))


# ------------------------------------------------------------------------------
# R19.3  information
#
def r19_3(prog, rep, rid='R19.3'):
    for rel, cname in (TD, PD, (RC, 'Slot'), (RC, 'RO')):
        c = prog.cls(rel, cname)
        s = set(class_table_keys(prog, c, '_schema'))
        d = set(class_table_keys(prog, c, '_defaults'))
        rep.info(rid, c.where, '%s: %d schema keys, %d defaults; without '
                 'default: %s; default without schema: %s'
                 % (cname, len(s), len(d), sorted(s - d) or '-',
                    sorted(d - s) or '-'))


# ------------------------------------------------------------------------------
#
def run(prog, rep, tier):
    rep.decided = ('every alias block of TaskDescription._verify leaves the '
        'deprecated value in a replacement of its own and the deprecated '
        'attribute falsy; _verify refuses each documented mode without its '
        'required attribute and accepts it with exactly those; every '
        'description key a raptor dispatcher reads unconditionally has a '
        'default or is required for its mode; PilotDescription requires '
        'resource and nodes-or-cores; serialize_*/deserialize_* compose '
        'inverse primitives in reverse order; PythonTask encoders and decoder '
        'agree on keys, per-key and outer codecs, and no None default reaches '
        'a consumer which unpacks it; both slot converters carry every key of '
        'Slot._schema from the same key of the input, every RO gets index '
        'and occupation; statements of _verify which derive an attribute '
        'from a replacement attribute run after the alias blocks writing it; '
        'payload values of the PythonTask encoders are encoded where the '
        'payload is built, not in an enclosing scope, and each is computed '
        'from a parameter of the encoder for every set argument; the test of '
        'each alias unit passes exactly for the set values of the deprecated '
        'attribute (finite domain per schema type); the slot converters put '
        'each part of an entry (by name or by position) where it belongs; '
        'Slot/Node.__init__ convert cores and gpus independently of each '
        'other; a slot converter returns its input list as it is only when '
        'a test on the whole list says so; the handler of serialize_obj '
        'which provides the by-reference fallback is as broad as the '
        'handler which gives up on that fallback; an encoded function which '
        'an encoder keeps in a store across calls is keyed by the callable '
        'itself; every file the serializer writes a payload to is opened '
        'truncating (the reader takes one object from the start); '
        'every as_dict() override of a typed dict class returns the '
        'radical.utils conversion, or the raw data only where no schema '
        'below it holds typed dicts the guard does not exclude.')
    rep.undecided = ('equality of values after a round trip through '
        'as_dict()/constructor (radical.utils TypedDict is trusted); '
        'pickling of arbitrary callables; numeric conversions (float()) of '
        'deprecated values.')
    rep.assumptions = [
        'a memo keyed by the callable itself is accepted (what the callable '
        'captures by value is then the state at the first call); id(x) is '
        'taken as carrying x',
        'radical.utils TypedDict honours _schema/_defaults: as_dict() carries '
        'every key with a default, verify() refuses keys outside the schema',
        'dill/pickle dumps<->loads, codecs base64 encode<->decode and '
        'bytes.decode<->str.encode are inverse pairs (library contract)',
        'the documented required attributes per mode are those of the '
        'TaskDescription docstring (table MODE_SPEC in the rules module)',
        'alias blocks are straight-line; a block with control flow stops the '
        'analysis (exit 2)',
        'set values of a deprecated attribute are the positive numbers / '
        'non-empty strings of its schema type (TYPE_DOMAIN in the rules '
        'module); `> 0` and truthiness are the same test on them',
        'the pair spelling of a resource entry lists the RO schema keys in '
        'schema order (index, occupation), as the Slot._schema comment says',
        'a slot list may mix old and new slots (both converters test the '
        'format slot by slot)',
        'what the handler around the retry of a primitive catches is what '
        'the function regards as a failure of that primitive (the exception '
        'types dill raises are not visible to the analysis)',
    ]
    r19_1(prog, rep)
    r19_8(prog, rep)
    r19_6(prog, rep)
    r19_2(prog, rep)
    r19_2b(prog, rep)
    r19_4(prog, rep)
    r19_5(prog, rep)
    r19_10(prog, rep)
    r19_12(prog, rep)
    r19_13(prog, rep)
    r19_16(prog, rep)
    rep.attempt(r19_7, prog, rep)
    r19_15(prog, rep)
    if tier == 'thorough':
        r19_3(prog, rep)


# ------------------------------------------------------------------------------
# self-test variants (thorough tier / --selftest)
#
_T = 'task_description.py'
_P = 'pilot_description.py'
_S = 'utils/serializer.py'
_Y = 'pytask.py'
_M = 'utils/misc.py'
_W = 'raptor/worker.py'

MUTATIONS = [
    dict(name='R19.1 F15 reverted: worker_class block clears raptor_class', rules=('R19.1',), edits=[
        (_T, "            self.raptor_class = self.worker_class\n            self.worker_class = ''",
             "            self.raptor_class = self.worker_class\n            self.raptor_class = ''")]),
    dict(name='R19.2b N1 reverted: method dispatcher reads description[method]', rules=('R19.2b',), edits=[
        (_W, "        descr = task['description']\n\n        descr['function'] = descr.get('method') or descr['function']\n",
             "        task['description']['function'] = task['description']['method']\n")]),
    dict(name='R19.4 N2 reverted: kwargs stored as None', rules=('R19.4',), edits=[
        (_Y, "                'kwargs': kwargs or {}}", "                'kwargs': kwargs}")]),
    dict(name='R19.1 cpu_processes cleared before it is copied', rules=('R19.1',), edits=[
        (_T, "            self.ranks = self.cpu_processes\n            self.cpu_processes = 0\n",
             "            self.cpu_processes = 0\n            self.ranks = self.cpu_processes\n")]),
    dict(name='R19.1 F15 pattern in the scheduler block', rules=('R19.1',), edits=[
        (_T, "            self.raptor_id = self.scheduler\n            self.scheduler = ''",
             "            self.raptor_id = self.scheduler\n            self.raptor_id = ''")]),
    dict(name='R19.1 lfs_per_process mapped onto mem_per_rank', rules=('R19.1',), edits=[
        (_T, "            self.lfs_per_rank = self.lfs_per_process", "            self.mem_per_rank = self.lfs_per_process")]),
    dict(name='R19.1 cpu_threads reset to 1 instead of cleared', rules=('R19.1',), edits=[
        (_T, "            self.cpu_threads = 0", "            self.cpu_threads = 1")]),
    dict(name='R19.1 gpus_per_rank computed from the wrong deprecated attribute', rules=('R19.1',), edits=[
        (_T, "            self.gpus_per_rank = float(self.gpu_processes)", "            self.gpus_per_rank = float(self.gpu_threads)")]),
    dict(name='R19.1 worker_class cleared without being copied', rules=('R19.1',), edits=[
        (_T, "            self.raptor_class = self.worker_class\n            self.worker_class = ''",
             "            self.worker_class = ''")]),
    dict(name='R19.6 seed C19-a: use_mpi default moved in front of the alias blocks', rules=('R19.6',), edits=[
        (_T, "            self.worker_class = ''\n\n        if self.use_mpi is None:\n            self.use_mpi = bool(self.ranks - 1)\n",
             "            self.worker_class = ''\n"),
        (_T, "        if not self.get('mode'):\n            self['mode'] = TASK_EXECUTABLE\n",
             "        if not self.get('mode'):\n            self['mode'] = TASK_EXECUTABLE\n\n        if self.use_mpi is None:\n            self.use_mpi = bool(self.ranks - 1)\n")]),
    dict(name='R19.6 use_mpi default right before the cpu_processes block', rules=('R19.6',), edits=[
        (_T, "            self.worker_class = ''\n\n        if self.use_mpi is None:\n            self.use_mpi = bool(self.ranks - 1)\n",
             "            self.worker_class = ''\n"),
        (_T, "        if self.cpu_processes:\n            self.ranks = self.cpu_processes\n",
             "        if self.use_mpi is None:\n            self.use_mpi = bool(self.ranks - 1)\n\n        if self.cpu_processes:\n            self.ranks = self.cpu_processes\n")]),
    dict(name='R19.6 cpu_processes block moved behind the use_mpi default', rules=('R19.6',), edits=[
        (_T, "        if self.cpu_processes:\n            self.ranks = self.cpu_processes\n            self.cpu_processes = 0\n\n", ""),
        (_T, "            self.use_mpi = bool(self.ranks - 1)\n",
             "            self.use_mpi = bool(self.ranks - 1)\n\n        if self.cpu_processes:\n            self.ranks = self.cpu_processes\n            self.cpu_processes = 0\n")]),
    dict(name='R19.6 new default derived from cores_per_rank before normalisation', rules=('R19.6',), edits=[
        (_T, "        # backward compatibility for deprecated attributes\n",
             "        if self.cores_per_rank > 1 and not self.get('environment'):\n            self.environment = {'OMP_NUM_THREADS': str(self.cores_per_rank)}\n\n        # backward compatibility for deprecated attributes\n")]),
    dict(name='R19.4b seed C19-b: function serialised once at decoration time', rules=('R19.4b',), edits=[
        (_Y, "        # ----------------------------------------------------------------------\n        @functools.wraps(f)\n        def decor(*args, **kwargs):\n\n            task = {'func'  : serialize_obj(f),",
             "        func = serialize_obj(f)\n\n        # ----------------------------------------------------------------------\n        @functools.wraps(f)\n        def decor(*args, **kwargs):\n\n            task = {'func'  : func,")]),
    dict(name='R19.4b serialised payload cached under another name and reused', rules=('R19.4b',), edits=[
        (_Y, "        # ----------------------------------------------------------------------\n        @functools.wraps(f)\n        def decor(*args, **kwargs):\n\n            task = {'func'  : serialize_obj(f),",
             "        cached = serialize_obj(f)\n        blob   = cached\n\n        # ----------------------------------------------------------------------\n        @functools.wraps(f)\n        def decor(*args, **kwargs):\n\n            task = {'func'  : blob,")]),
    dict(name='R19.4 function serialised in a default argument of the wrapper', rules=('R19.4',), edits=[
        (_Y, "        def decor(*args, **kwargs):\n\n            task = {'func'  : serialize_obj(f),",
             "        def decor(*args, _func=serialize_obj(f), **kwargs):\n\n            task = {'func'  : _func,")]),
    dict(name='R19.2 TASK_EVAL asks for command', rules=('R19.2',), edits=[
        (_T, "        elif self.mode == TASK_EVAL:\n            if not self.get('code'):",
             "        elif self.mode == TASK_EVAL:\n            if not self.get('command'):")]),
    dict(name='R19.2 TASK_SHELL test without not', rules=('R19.2',), edits=[
        (_T, "            if not self.get('command'):", "            if self.get('command'):")]),
    dict(name='R19.2 TASK_SERVICE dropped from the executable modes', rules=('R19.2',), edits=[
        (_T, "        if self.mode in [TASK_EXECUTABLE, TASK_SERVICE, AGENT_SERVICE]:",
             "        if self.mode in [TASK_EXECUTABLE, AGENT_SERVICE]:")]),
    dict(name='R19.2 default mode no longer set', rules=('R19.2',), edits=[
        (_T, "        if not self.get('mode'):\n            self['mode'] = TASK_EXECUTABLE\n\n", "")]),
    dict(name='R19.2 raptor workers need an executable', rules=('R19.2',), edits=[
        (_T, "        if self.mode in [TASK_EXECUTABLE, TASK_SERVICE, AGENT_SERVICE]:",
             "        if self.mode in [TASK_EXECUTABLE, TASK_SERVICE, AGENT_SERVICE,\n                         RAPTOR_WORKER]:")]),
    dict(name='R19.2 TASK_EXEC chain entry compares with !=', rules=('R19.2',), edits=[
        (_T, "        elif self.mode == TASK_EXEC:", "        elif self.mode != TASK_EXEC:")]),
    dict(name='R19.2 pilot description: resource test inverted', rules=('R19.2',), edits=[
        (_P, "        if not self.get('resource'):", "        if self.get('resource'):")]),
    dict(name='R19.2 pilot description: cores test inverted', rules=('R19.2',), edits=[
        (_P, "            if not self.get('cores'):", "            if self.get('cores'):")]),
    dict(name='R19.2b shell dispatcher reads description[cmd]', rules=('R19.2b',), edits=[
        (_W, "            cmd = task['description']['command']", "            cmd = task['description']['cmd']")]),
    dict(name='R19.2b proc dispatcher reads description[exe]', rules=('R19.2b',), edits=[
        (_W, "            exe  = task['description']['executable']", "            exe  = task['description']['exe']")]),
    dict(name='R19.4 deserialize_obj uses pickle', rules=('R19.4',), edits=[
        (_S, "        return dill.loads(data)", "        return pickle.loads(data)")]),
    dict(name='R19.4 serialize_bson returns bytes', rules=('R19.4',), edits=[
        (_S, "        return codecs.encode(pickle.dumps(obj), \"base64\").decode()",
             "        return codecs.encode(pickle.dumps(obj), \"base64\")")]),
    dict(name='R19.4 deserialize_bson decodes hex', rules=('R19.4',), edits=[
        (_S, "        return pickle.loads(codecs.decode(obj.encode(), \"base64\"))",
             "        return pickle.loads(codecs.decode(obj.encode(), \"hex\"))")]),
    dict(name='R19.4 deserialize_file opens in text mode', rules=('R19.4',), edits=[
        (_S, "        with open(fname, 'rb') as f:", "        with open(fname, 'r') as f:")]),
    dict(name='R19.4 decoder treats func as bson', rules=('R19.4',), edits=[
        (_Y, "        func   = deserialize_obj(pytask['func'])", "        func   = deserialize_bson(pytask['func'])")]),
    dict(name='R19.4 decorator encodes under function', rules=('R19.4',), edits=[
        (_Y, "            task = {'func'  : serialize_obj(f),", "            task = {'function': serialize_obj(f),")]),
    dict(name='R19.4 __new__ stores the function unserialized', rules=('R19.4',), edits=[
        (_Y, "        task = {'func'  : serialize_obj(func),", "        task = {'func'  : func,")]),
    dict(name='R19.4 args default becomes None', rules=('R19.4',), edits=[
        (_Y, "    def __new__(cls, func, args=(), kwargs=None):", "    def __new__(cls, func, args=None, kwargs=None):")]),
    dict(name='R19.4 decoder demands a key nobody encodes', rules=('R19.4',), edits=[
        (_Y, "for key in ('args', 'func', 'kwargs')):", "for key in ('args', 'function', 'kwargs')):")]),
    dict(name='R19.5 new slot built without mem', rules=('R19.5',), edits=[
        (_M, "                        mem=slot['mem'],\n", "")]),
    dict(name='R19.5 old slot takes lfs from mem', rules=('R19.5',), edits=[
        (_M, "                    'lfs'       : slot.get('lfs', 0),", "                    'lfs'       : slot.get('mem', 0),")]),
    dict(name='R19.5 gpu ROs built from the core list', rules=('R19.5',), edits=[
        (_M, "                gpus  = [RO(index=i, occupation=1.0)\n                         for i in slot['gpus']]",
             "                gpus  = [RO(index=i, occupation=1.0)\n                         for i in slot['cores']]")]),
    dict(name='R19.5 RO without occupation', rules=('R19.5',), edits=[
        (_M, "                    cores.append(RO(index=i, occupation=o))", "                    cores.append(RO(index=i))")]),
    dict(name='R19.5 old gpu list built from cores', rules=('R19.5',), edits=[
        (_M, "                gpus = [[ro.index] for ro in gpus]", "                gpus = [[ro.index] for ro in cores]")]),
    dict(name='R19.5 node_index replaced by a constant', rules=('R19.5',), edits=[
        (_M, "                        node_index=slot['node_index'],", "                        node_index=0,")]),
    dict(name='R19.5 Slot keywords swapped', rules=('R19.5',), edits=[
        (_M, "        new_slot = Slot(cores=cores,\n                        gpus=gpus,", "        new_slot = Slot(cores=gpus,\n                        gpus=cores,")]),
]

SILENT = [
    dict(name='kwargs normalised before the dict is built', edits=[
        (_Y, "        task = {'func'  : serialize_obj(func),\n                'args'  : args,\n                'kwargs': kwargs or {}}",
             "        if kwargs is None:\n            kwargs = dict()\n\n        task = {'func'  : serialize_obj(func),\n                'args'  : args,\n                'kwargs': kwargs}")]),
    dict(name='use_mpi default right behind the cpu_processes block', edits=[
        (_T, "            self.worker_class = ''\n\n        if self.use_mpi is None:\n            self.use_mpi = bool(self.ranks - 1)\n",
             "            self.worker_class = ''\n"),
        (_T, "            self.cpu_processes = 0\n",
             "            self.cpu_processes = 0\n\n        if self.use_mpi is None:\n            self.use_mpi = bool(self.ranks - 1)\n")]),
    dict(name='use_mpi default as a comparison', edits=[
        (_T, "            self.use_mpi = bool(self.ranks - 1)", "            self.use_mpi = self.ranks > 1")]),
    dict(name='ranks normalised from itself before the alias blocks', edits=[
        (_T, "        # backward compatibility for deprecated attributes\n",
             "        self.ranks = int(self.ranks or 1)\n\n        # backward compatibility for deprecated attributes\n")]),
    dict(name='function serialised into a local of the wrapper', edits=[
        (_Y, "            task = {'func'  : serialize_obj(f),", "            func = serialize_obj(f)\n            task = {'func'  : func,")]),
    dict(name='alias block through a temporary', edits=[
        (_T, "            self.ranks = self.cpu_processes\n            self.cpu_processes = 0\n",
             "            value = self.cpu_processes\n            self.cpu_processes = 0\n            self.ranks = value\n")]),
    dict(name='alias block with get() and item assignment', edits=[
        (_T, "        if self.cpu_threads:\n            self.cores_per_rank = self.cpu_threads\n            self.cpu_threads = 0",
             "        if self.get('cpu_threads'):\n            self['cores_per_rank'] = self['cpu_threads']\n            self['cpu_threads'] = 0")]),
    dict(name='alias blocks reordered', edits=[
        (_T, "        if self.scheduler:\n            self.raptor_id = self.scheduler\n            self.scheduler = ''\n\n        if self.worker_file:\n            self.raptor_file = self.worker_file\n            self.worker_file = ''\n",
             "        if self.worker_file:\n            self.raptor_file = self.worker_file\n            self.worker_file = ''\n\n        if self.scheduler:\n            self.raptor_id = self.scheduler\n            self.scheduler = None\n")]),
    dict(name='TASK_EVAL and TASK_EXEC share one branch', edits=[
        (_T, "        elif self.mode == TASK_EVAL:\n            if not self.get('code'):\n                raise ValueError(\"TASK_EVAL Task mode needs 'code'\")\n\n        elif self.mode == TASK_EXEC:\n            if not self.get('code'):\n                raise ValueError(\"TASK_EXEC Task mode needs 'code'\")\n",
             "        elif self.mode in [TASK_EVAL, TASK_EXEC]:\n            if not self.get('code'):\n                raise ValueError(\"Task mode needs 'code'\")\n")]),
    dict(name='mode test with the constant on the left', edits=[
        (_T, "        elif self.mode == TASK_SHELL:", "        elif TASK_SHELL == self['mode']:")]),
    dict(name='deserialize_bson in two steps', edits=[
        (_S, "        return pickle.loads(codecs.decode(obj.encode(), \"base64\"))",
             "        raw = codecs.decode(obj.encode(), \"base64\")\n        return pickle.loads(raw)")]),
    dict(name='decoder returns the tuple directly', edits=[
        (_Y, "        args   = list(pytask['args'])\n        kwargs = pytask['kwargs']\n        func   = deserialize_obj(pytask['func'])\n\n        return func, args, kwargs\n",
             "        return (deserialize_obj(pytask['func']), list(pytask['args']),\n                pytask['kwargs'])\n")]),
    dict(name='encoders add a key the decoder ignores', edits=[
        (_Y, "        task = {'func'  : serialize_obj(func),\n", "        task = {'func'  : serialize_obj(func),\n                'v'     : 1,\n"),
        (_Y, "            task = {'func'  : serialize_obj(f),\n", "            task = {'func'  : serialize_obj(f),\n                    'v'     : 1,\n")]),
    dict(name='method dispatcher falls back with try/except KeyError', edits=[
        (_W, "        descr['function'] = descr.get('method') or descr['function']\n",
             "        try:\n            descr['function'] = descr['method']\n        except KeyError:\n            pass\n")]),
    dict(name='method dispatcher with a presence test', edits=[
        (_W, "        descr['function'] = descr.get('method') or descr['function']\n",
             "        if 'method' in descr:\n            descr['function'] = descr['method']\n")]),
    dict(name='dispatcher reads the description through a local name', edits=[
        (_W, "            cmd = task['description']['command']", "            descr = task['description']\n            cmd = descr['command']")]),
    dict(name='converter reads lfs with get()', edits=[
        (_M, "                        lfs=slot['lfs'],", "                        lfs=slot.get('lfs', 0),")]),
    dict(name='old slot built key by key from locals', edits=[
        (_M, "        old_slot = {'cores'     : cores,\n                    'gpus'      : gpus,\n                    'lfs'       : slot.get('lfs', 0),",
             "        lfs = slot.get('lfs', 0)\n        old_slot = {'cores'     : cores,\n                    'gpus'      : gpus,\n                    'lfs'       : lfs,")]),
    dict(name='dict-form cores converted by a comprehension', edits=[
        (_M, "                cores = list()\n                for ro in slot['cores']:\n                    i = ro['index']\n                    o = ro['occupation']\n                    cores.append(RO(index=i, occupation=o))\n",
             "                cores = [RO(index=ro['index'], occupation=ro['occupation'])\n                         for ro in cores]\n")]),
]


# ------------------------------------------------------------------------------
# behaviour-preserving refactorings of the robustness corpus (seeded/<id>-r<n>),
# as text edits: silent as they are, killed with a defect on top
#
_CORPUS = {
    'C19-r1': [
        ('task_description.py',
         "SERVICES         = 'services'\nMETADATA         = 'metadata'\n\n\n# ------------------------------------------------------------------------------\n#\n",
         "SERVICES         = 'services'\nMETADATA         = 'metadata'\n\n# attribute which needs to be set for the respective task mode\n_MODE_REQUIRES   = {TASK_EXECUTABLE: EXECUTABLE,\n                    TASK_SERVICE   : EXECUTABLE,\n                    AGENT_SERVICE  : EXECUTABLE,\n                    TASK_PROC      : EXECUTABLE,\n                    TASK_FUNC      : FUNCTION,\n                    TASK_METH      : FUNCTION,\n                    TASK_EVAL      : CODE,\n                    TASK_EXEC      : CODE,\n                    TASK_SHELL     : COMMAND}\n\n\n# ------------------------------------------------------------------------------\n#\n"),
        ('task_description.py',
         '        super().__init__(from_dict=from_dict)\n\n\n    # --------------------------------------------------------------------------\n    #\n    def _verify(self):\n',
         '        super().__init__(from_dict=from_dict)\n\n\n    # --------------------------------------------------------------------------\n    #\n    def _verify_mode(self):\n\n        mode   = self.mode\n        needed = _MODE_REQUIRES.get(mode)\n\n        if needed and not self.get(needed):\n\n            if mode in [TASK_FUNC, TASK_METH]:\n                label = \'TASK_FUNC\'\n            else:\n                label = mode.upper().replace(\'.\', \'_\')\n\n            raise ValueError("%s Task mode needs \'%s\'" % (label, needed))\n\n        if mode in [TASK_FUNC, TASK_METH] and self.get(\'named_env\'):\n            raise ValueError("TASK_FUNC and TASK_METH Task mode does not "\n                             "support \'named_env\'")\n\n\n    # --------------------------------------------------------------------------\n    #\n    def _verify(self):\n'),
        ('task_description.py',
         '        if not self.get(\'mode\'):\n            self[\'mode\'] = TASK_EXECUTABLE\n\n        if self.mode in [TASK_EXECUTABLE, TASK_SERVICE, AGENT_SERVICE]:\n            if not self.get(\'executable\'):\n                umode = self.mode.upper().replace(\'.\', \'_\')\n                raise ValueError("%s Task mode needs \'executable\'" % umode)\n\n        elif self.mode in [TASK_FUNC, TASK_METH]:\n            if not self.get(\'function\'):\n                raise ValueError("TASK_FUNC Task mode needs \'function\'")\n            if self.get(\'named_env\'):\n                raise ValueError("TASK_FUNC and TASK_METH Task mode does not "\n                                 "support \'named_env\'")\n\n        elif self.mode == TASK_PROC:\n            if not self.get(\'executable\'):\n                raise ValueError("TASK_PROC Task mode needs \'executable\'")\n\n        elif self.mode == TASK_EVAL:\n            if not self.get(\'code\'):\n                raise ValueError("TASK_EVAL Task mode needs \'code\'")\n\n        elif self.mode == TASK_EXEC:\n            if not self.get(\'code\'):\n                raise ValueError("TASK_EXEC Task mode needs \'code\'")\n\n        elif self.mode == TASK_SHELL:\n            if not self.get(\'command\'):\n                raise ValueError("TASK_SHELL Task mode needs \'command\'")\n\n        # backward compatibility for deprecated attributes\n        if self.cpu_processes:\n',
         "        if not self.get('mode'):\n            self['mode'] = TASK_EXECUTABLE\n\n        self._verify_mode()\n\n        # backward compatibility for deprecated attributes\n        if self.cpu_processes:\n"),
    ],
    'C19-r2': [
        ('task_description.py',
         '    }\n\n\n    # --------------------------------------------------------------------------\n    #\n    def __init__(self, from_dict=None):\n',
         "    }\n\n\n    # deprecated attributes: (old name, new name, reset value, value cast)\n    _deprecated = (\n        (CPU_PROCESSES   , RANKS         , 0   , None ),\n        (CPU_THREADS     , CORES_PER_RANK, 0   , None ),\n        (CPU_THREAD_TYPE , THREADING_TYPE, None, None ),\n        (GPU_PROCESSES   , GPUS_PER_RANK , 0   , float),\n        (GPU_PROCESS_TYPE, GPU_TYPE      , None, None ),\n        (LFS_PER_PROCESS , LFS_PER_RANK  , 0   , None ),\n        (MEM_PER_PROCESS , MEM_PER_RANK  , 0   , None ),\n        (SCHEDULER       , RAPTOR_ID     , ''  , None ),\n        (WORKER_FILE     , RAPTOR_FILE   , ''  , None ),\n        (WORKER_CLASS    , RAPTOR_CLASS  , ''  , None ),\n    )\n\n\n    # --------------------------------------------------------------------------\n    #\n    def __init__(self, from_dict=None):\n"),
        ('task_description.py',
         '                raise ValueError("TASK_SHELL Task mode needs \'command\'")\n\n        # backward compatibility for deprecated attributes\n        if self.cpu_processes:\n            self.ranks = self.cpu_processes\n            self.cpu_processes = 0\n\n        if self.cpu_threads:\n            self.cores_per_rank = self.cpu_threads\n            self.cpu_threads = 0\n\n        if self.cpu_thread_type:\n            self.threading_type = self.cpu_thread_type\n            self.cpu_thread_type = None\n\n        if self.gpu_processes:\n            self.gpus_per_rank = float(self.gpu_processes)\n            self.gpu_processes = 0\n\n        if self.gpu_process_type:\n            self.gpu_type = self.gpu_process_type\n            self.gpu_process_type = None\n\n        if self.lfs_per_process:\n            self.lfs_per_rank = self.lfs_per_process\n            self.lfs_per_process = 0\n\n        if self.mem_per_process:\n            self.mem_per_rank = self.mem_per_process\n            self.mem_per_process = 0\n\n        if self.scheduler:\n            self.raptor_id = self.scheduler\n            self.scheduler = \'\'\n\n        if self.worker_file:\n            self.raptor_file = self.worker_file\n            self.worker_file = \'\'\n\n        if self.worker_class:\n            self.raptor_class = self.worker_class\n            self.worker_class = \'\'\n\n        if self.use_mpi is None:\n            self.use_mpi = bool(self.ranks - 1)\n',
         '                raise ValueError("TASK_SHELL Task mode needs \'command\'")\n\n        # backward compatibility for deprecated attributes\n        for old_name, new_name, reset, cast in self._deprecated:\n\n            value = self.get(old_name)\n            if not value:\n                continue\n\n            self[new_name] = cast(value) if cast else value\n            self[old_name] = reset\n\n        if self.use_mpi is None:\n            self.use_mpi = bool(self.ranks - 1)\n'),
    ],
    'C19-r3': [
        ('utils/misc.py',
         "    return ru.Url(rcfg.schemas[schema]['job_manager_endpoint'])\n\n\n# ------------------------------------------------------------------------------\n#\ndef convert_slots_to_new(slots, log=None):\n\n    from ..resource_config import Slot, RO\n\n    if not slots:\n        return slots\n",
         "    return ru.Url(rcfg.schemas[schema]['job_manager_endpoint'])\n\n\n# ------------------------------------------------------------------------------\n#\ndef _to_ros(resources):\n\n    # convert the core or gpu entries of an old-style slot to a list of `RO`s\n\n    from ..resource_config import RO\n\n    if not resources:\n        return resources\n\n    first = resources[0]\n\n    if isinstance(first, RO):\n        return resources\n\n    if isinstance(first, int):\n        return [RO(index=i, occupation=1.0) for i in resources]\n\n    if isinstance(first, dict):\n        return [RO(index=ro['index'], occupation=ro['occupation'])\n                for ro in resources]\n\n    return [RO(index=i, occupation=o) for i,o in resources]\n\n\n# ------------------------------------------------------------------------------\n#\ndef convert_slots_to_new(slots, log=None):\n\n    from ..resource_config import Slot\n\n    if not slots:\n        return slots\n"),
        ('utils/misc.py',
         "            new_slots.append(slot)\n            continue\n\n        cores = slot['cores']\n        if cores:\n            if isinstance(cores[0], RO):\n                pass\n            elif isinstance(cores[0], int):\n                cores = [RO(index=i, occupation=1.0)\n                         for i in slot['cores']]\n            elif isinstance(cores[0], dict):\n                cores = list()\n                for ro in slot['cores']:\n                    i = ro['index']\n                    o = ro['occupation']\n                    cores.append(RO(index=i, occupation=o))\n            else:\n                cores = [RO(index=i, occupation=o)\n                         for i,o in slot['cores']]\n\n\n        gpus = slot['gpus']\n        if gpus:\n            if isinstance(gpus[0], RO):\n                pass\n            elif isinstance(gpus[0], int):\n                gpus  = [RO(index=i, occupation=1.0)\n                         for i in slot['gpus']]\n            elif isinstance(gpus[0], dict):\n                gpus = list()\n                for ro in slot['gpus']:\n                    i = ro['index']\n                    o = ro['occupation']\n                    gpus.append(RO(index=i, occupation=o))\n            else:\n                gpus  = [RO(index=i, occupation=o)\n                         for i,o in slot['gpus']]\n\n        new_slot = Slot(cores=cores,\n                        gpus=gpus,\n",
         "            new_slots.append(slot)\n            continue\n\n        cores = _to_ros(slot['cores'])\n        gpus  = _to_ros(slot['gpus'])\n\n        new_slot = Slot(cores=cores,\n                        gpus=gpus,\n"),
    ],
    'C19-r4': [
        ('pytask.py',
         'from .utils import deserialize_obj, deserialize_bson\n\n\n# ------------------------------------------------------------------------------\n#\nclass PythonTask(object):\n',
         "from .utils import deserialize_obj, deserialize_bson\n\n\n# keys expected in an encoded function call\n_TASK_KEYS = ('args', 'func', 'kwargs')\n\n\n# ------------------------------------------------------------------------------\n#\ndef _encode_call(func, args, kwargs):\n\n    task = {'func'  : serialize_obj(func),\n            'args'  : args,\n            'kwargs': kwargs}\n\n    return serialize_bson(task)\n\n\n# ------------------------------------------------------------------------------\n#\nclass PythonTask(object):\n"),
        ('pytask.py',
         "        if not callable(func):\n            raise ValueError('task function not callable')\n\n        task = {'func'  : serialize_obj(func),\n                'args'  : args,\n                'kwargs': kwargs or {}}\n\n        return serialize_bson(task)\n\n\n\n",
         "        if not callable(func):\n            raise ValueError('task function not callable')\n\n        return _encode_call(func, args, kwargs or {})\n\n\n\n"),
        ('pytask.py',
         "            raise ValueError('bson object should be string')\n\n        pytask = deserialize_bson(bson_obj)\n        if any(key not in pytask for key in ('args', 'func', 'kwargs')):\n            raise TypeError('Encoded object does not have the expected schema.')\n        args   = list(pytask['args'])\n        kwargs = pytask['kwargs']\n        func   = deserialize_obj(pytask['func'])\n",
         "            raise ValueError('bson object should be string')\n\n        pytask = deserialize_bson(bson_obj)\n        for key in _TASK_KEYS:\n            if key not in pytask:\n                raise TypeError('Encoded object does not have the expected '\n                                'schema.')\n        args   = list(pytask['args'])\n        kwargs = pytask['kwargs']\n        func   = deserialize_obj(pytask['func'])\n"),
        ('pytask.py',
         "        @functools.wraps(f)\n        def decor(*args, **kwargs):\n\n            task = {'func'  : serialize_obj(f),\n                    'args'  : args,\n                    'kwargs': kwargs}\n\n            return serialize_bson(task)\n\n        return decor\n        # ----------------------------------------------------------------------\n",
         '        @functools.wraps(f)\n        def decor(*args, **kwargs):\n\n            return _encode_call(f, args, kwargs)\n\n        return decor\n        # ----------------------------------------------------------------------\n'),
        ('resource_config.py',
         "\n        if from_dict:\n\n            cores = from_dict.get('cores')\n            gpus  = from_dict.get('gpus')\n\n            if cores:\n                # this is much faster than `isinstance`\n                if cores[0].__class__.__name__ == 'dict':\n                    from_dict['cores'] =  [RO(d) for d in cores]\n\n                elif isinstance(cores[0], int):\n                    from_dict['cores'] =  [RO(index=i, occupation=BUSY)\n                                                 for i in cores]\n\n            if gpus:\n                if gpus[0].__class__.__name__ == 'dict':\n                    from_dict['gpus'] =  [RO(d) for d in gpus]\n\n                elif isinstance(gpus[0], int):\n                    from_dict['gpus'] =  [RO(index=i, occupation=BUSY)\n                                                for i in gpus]\n\n\n        super().__init__(from_dict, **kwargs)\n",
         "\n        if from_dict:\n\n            for key in (self.CORES, self.GPUS):\n\n                resources = from_dict.get(key)\n                if not resources:\n                    continue\n\n                # this is much faster than `isinstance`\n                if resources[0].__class__.__name__ == 'dict':\n                    from_dict[key] = [RO(d) for d in resources]\n\n                elif isinstance(resources[0], int):\n                    from_dict[key] = [RO(index=i, occupation=BUSY)\n                                            for i in resources]\n\n\n        super().__init__(from_dict, **kwargs)\n"),
    ],
    'C19-r7': [
        ('task_description.py',
         "METADATA         = 'metadata'\n\n\n# ------------------------------------------------------------------------------\n#\nclass TaskDescription(FastTypedDict):\n",
         "METADATA         = 'metadata'\n\n\n# deprecated attributes: a set value is moved (converted) to the replacement\n#   (deprecated name , replacement   , conversion, reset value)\n_DEPRECATED = [\n    (CPU_PROCESSES   , RANKS         , None      , 0   ),\n    (CPU_THREADS     , CORES_PER_RANK, None      , 0   ),\n    (CPU_THREAD_TYPE , THREADING_TYPE, None      , None),\n    (GPU_PROCESSES   , GPUS_PER_RANK , float     , 0   ),\n    (GPU_PROCESS_TYPE, GPU_TYPE      , None      , None),\n    (LFS_PER_PROCESS , LFS_PER_RANK  , None      , 0   ),\n    (MEM_PER_PROCESS , MEM_PER_RANK  , None      , 0   ),\n    (SCHEDULER       , RAPTOR_ID     , None      , ''  ),\n    (WORKER_FILE     , RAPTOR_FILE   , None      , ''  ),\n    (WORKER_CLASS    , RAPTOR_CLASS  , None      , ''  ),\n]\n\n\n# ------------------------------------------------------------------------------\n#\nclass TaskDescription(FastTypedDict):\n"),
        ('task_description.py',
         '                raise ValueError("TASK_SHELL Task mode needs \'command\'")\n\n        # backward compatibility for deprecated attributes\n        if self.cpu_processes:\n            self.ranks = self.cpu_processes\n            self.cpu_processes = 0\n\n        if self.cpu_threads:\n            self.cores_per_rank = self.cpu_threads\n            self.cpu_threads = 0\n\n        if self.cpu_thread_type:\n            self.threading_type = self.cpu_thread_type\n            self.cpu_thread_type = None\n\n        if self.gpu_processes:\n            self.gpus_per_rank = float(self.gpu_processes)\n            self.gpu_processes = 0\n\n        if self.gpu_process_type:\n            self.gpu_type = self.gpu_process_type\n            self.gpu_process_type = None\n\n        if self.lfs_per_process:\n            self.lfs_per_rank = self.lfs_per_process\n            self.lfs_per_process = 0\n\n        if self.mem_per_process:\n            self.mem_per_rank = self.mem_per_process\n            self.mem_per_process = 0\n\n        if self.scheduler:\n            self.raptor_id = self.scheduler\n            self.scheduler = \'\'\n\n        if self.worker_file:\n            self.raptor_file = self.worker_file\n            self.worker_file = \'\'\n\n        if self.worker_class:\n            self.raptor_class = self.worker_class\n            self.worker_class = \'\'\n\n        if self.use_mpi is None:\n            self.use_mpi = bool(self.ranks - 1)\n',
         '                raise ValueError("TASK_SHELL Task mode needs \'command\'")\n\n        # backward compatibility for deprecated attributes\n        for old_key, new_key, convert, unset in _DEPRECATED:\n            old_val = self.get(old_key)\n            if not old_val:\n                continue\n\n            self[new_key] = convert(old_val) if convert else old_val\n            self[old_key] = unset\n\n        if self.use_mpi is None:\n            self.use_mpi = bool(self.ranks - 1)\n'),
    ],
    'C19-r8': [
        ('utils/misc.py',
         '    if not slots:\n        return slots\n\n    new_slots = list()\n    for slot in slots:\n\n',
         "    if not slots:\n        return slots\n\n    # --------------------------------------------------------------------------\n    def to_ros(resources):\n        # accept lists of `RO`s, of indexes, of `RO` dicts or of\n        # `(index, occupation)` pairs - the first element decides\n\n        if not resources:\n            return resources\n\n        first = resources[0]\n\n        if isinstance(first, RO):\n            return resources\n\n        if isinstance(first, int):\n            return [RO(index=i, occupation=1.0) for i in resources]\n\n        if isinstance(first, dict):\n            return [RO(index=ro['index'], occupation=ro['occupation'])\n                    for ro in resources]\n\n        return [RO(index=i, occupation=o) for i,o in resources]\n    # --------------------------------------------------------------------------\n\n    new_slots = list()\n    for slot in slots:\n\n"),
        ('utils/misc.py',
         "            new_slots.append(slot)\n            continue\n\n        cores = slot['cores']\n        if cores:\n            if isinstance(cores[0], RO):\n                pass\n            elif isinstance(cores[0], int):\n                cores = [RO(index=i, occupation=1.0)\n                         for i in slot['cores']]\n            elif isinstance(cores[0], dict):\n                cores = list()\n                for ro in slot['cores']:\n                    i = ro['index']\n                    o = ro['occupation']\n                    cores.append(RO(index=i, occupation=o))\n            else:\n                cores = [RO(index=i, occupation=o)\n                         for i,o in slot['cores']]\n\n\n        gpus = slot['gpus']\n        if gpus:\n            if isinstance(gpus[0], RO):\n                pass\n            elif isinstance(gpus[0], int):\n                gpus  = [RO(index=i, occupation=1.0)\n                         for i in slot['gpus']]\n            elif isinstance(gpus[0], dict):\n                gpus = list()\n                for ro in slot['gpus']:\n                    i = ro['index']\n                    o = ro['occupation']\n                    gpus.append(RO(index=i, occupation=o))\n            else:\n                gpus  = [RO(index=i, occupation=o)\n                         for i,o in slot['gpus']]\n\n        new_slot = Slot(cores=cores,\n                        gpus=gpus,\n",
         "            new_slots.append(slot)\n            continue\n\n        cores = to_ros(slot['cores'])\n        gpus  = to_ros(slot['gpus'])\n\n        new_slot = Slot(cores=cores,\n                        gpus=gpus,\n"),
    ],
    'C19-r9': [
        ('task_description.py',
         "METADATA         = 'metadata'\n\n\n# ------------------------------------------------------------------------------\n#\nclass TaskDescription(FastTypedDict):\n",
         "METADATA         = 'metadata'\n\n\n# attribute required per task mode: (modes, attribute, label to use in the error\n# message).  Without label, the error message uses the upper-cased mode name.\n_MODE_REQUIREMENTS = [\n    ([TASK_EXECUTABLE, TASK_SERVICE, AGENT_SERVICE, TASK_PROC], EXECUTABLE, None),\n    ([TASK_FUNC, TASK_METH]                                   , FUNCTION  , 'TASK_FUNC'),\n    ([TASK_EVAL, TASK_EXEC]                                   , CODE      , None),\n    ([TASK_SHELL]                                             , COMMAND   , None),\n]\n\n\n# ------------------------------------------------------------------------------\n#\nclass TaskDescription(FastTypedDict):\n"),
        ('task_description.py',
         '        if not self.get(\'mode\'):\n            self[\'mode\'] = TASK_EXECUTABLE\n\n        if self.mode in [TASK_EXECUTABLE, TASK_SERVICE, AGENT_SERVICE]:\n            if not self.get(\'executable\'):\n                umode = self.mode.upper().replace(\'.\', \'_\')\n                raise ValueError("%s Task mode needs \'executable\'" % umode)\n\n        elif self.mode in [TASK_FUNC, TASK_METH]:\n            if not self.get(\'function\'):\n                raise ValueError("TASK_FUNC Task mode needs \'function\'")\n            if self.get(\'named_env\'):\n                raise ValueError("TASK_FUNC and TASK_METH Task mode does not "\n                                 "support \'named_env\'")\n\n        elif self.mode == TASK_PROC:\n            if not self.get(\'executable\'):\n                raise ValueError("TASK_PROC Task mode needs \'executable\'")\n\n        elif self.mode == TASK_EVAL:\n            if not self.get(\'code\'):\n                raise ValueError("TASK_EVAL Task mode needs \'code\'")\n\n        elif self.mode == TASK_EXEC:\n            if not self.get(\'code\'):\n                raise ValueError("TASK_EXEC Task mode needs \'code\'")\n\n        elif self.mode == TASK_SHELL:\n            if not self.get(\'command\'):\n                raise ValueError("TASK_SHELL Task mode needs \'command\'")\n\n        # backward compatibility for deprecated attributes\n        if self.cpu_processes:\n',
         '        if not self.get(\'mode\'):\n            self[\'mode\'] = TASK_EXECUTABLE\n\n        # check the attribute required by the task mode\n        mode = self.mode\n        for modes, attr, label in _MODE_REQUIREMENTS:\n\n            if mode not in modes:\n                continue\n\n            if not self.get(attr):\n                if not label:\n                    label = mode.upper().replace(\'.\', \'_\')\n                raise ValueError("%s Task mode needs \'%s\'" % (label, attr))\n\n            break\n\n        if mode in [TASK_FUNC, TASK_METH] and self.get(\'named_env\'):\n            raise ValueError("TASK_FUNC and TASK_METH Task mode does not "\n                             "support \'named_env\'")\n\n        # backward compatibility for deprecated attributes\n        if self.cpu_processes:\n'),
    ],
}

SILENT += [dict(name='corpus %s' % k, edits=v) for k, v in sorted(_CORPUS.items())]

MUTATIONS += [
    dict(name='R19.2 corpus C19-r1, mode table asks command for TASK_EVAL', rules=('R19.2',), edits=_CORPUS['C19-r1'] + [
        (_T, "                    TASK_EVAL      : CODE,", "                    TASK_EVAL      : COMMAND,")]),
    dict(name='R19.2 corpus C19-r1, TASK_SHELL missing in the mode table', rules=('R19.2',), edits=_CORPUS['C19-r1'] + [
        (_T, "                    TASK_EXEC      : CODE,\n                    TASK_SHELL     : COMMAND}", "                    TASK_EXEC      : CODE}")]),
    dict(name='R19.1 corpus C19-r2, table row names the wrong replacement', rules=('R19.1',), edits=_CORPUS['C19-r2'] + [
        (_T, "        (WORKER_CLASS    , RAPTOR_CLASS  , ''  , None ),", "        (WORKER_CLASS    , RAPTOR_FILE   , ''  , None ),")]),
    dict(name='R19.1 corpus C19-r2, loop resets the replacement (F15 pattern)', rules=('R19.1',), edits=_CORPUS['C19-r2'] + [
        (_T, "            self[old_name] = reset\n", "            self[new_name] = reset\n")]),
    dict(name='R19.1 corpus C19-r2, reset value 1 for cpu_threads', rules=('R19.1',), edits=_CORPUS['C19-r2'] + [
        (_T, "        (CPU_THREADS     , CORES_PER_RANK, 0   , None ),", "        (CPU_THREADS     , CORES_PER_RANK, 1   , None ),")]),
    dict(name='R19.6 corpus C19-r2, use_mpi default in front of the table loop', rules=('R19.6',), edits=_CORPUS['C19-r2'] + [
        (_T, "        if self.use_mpi is None:\n            self.use_mpi = bool(self.ranks - 1)\n\n", ""),
        (_T, "        for old_name, new_name, reset, cast in self._deprecated:\n", "        if self.use_mpi is None:\n            self.use_mpi = bool(self.ranks - 1)\n\n        for old_name, new_name, reset, cast in self._deprecated:\n")]),
    dict(name='R19.5 corpus C19-r3, helper builds ROs without occupation', rules=('R19.5',), edits=_CORPUS['C19-r3'] + [
        (_M, "        return [RO(index=i, occupation=1.0) for i in resources]", "        return [RO(index=i) for i in resources]")]),
    dict(name='R19.5 corpus C19-r3, gpus converted from the core list', rules=('R19.5',), edits=_CORPUS['C19-r3'] + [
        (_M, "        gpus  = _to_ros(slot['gpus'])", "        gpus  = _to_ros(slot['cores'])")]),
    dict(name='R19.4 corpus C19-r4, helper stores the function unserialized', rules=('R19.4',), edits=_CORPUS['C19-r4'] + [
        (_Y, "    task = {'func'  : serialize_obj(func),", "    task = {'func'  : func,")]),
    dict(name='R19.4 corpus C19-r4, __new__ passes kwargs=None to the helper', rules=('R19.4',), edits=_CORPUS['C19-r4'] + [
        (_Y, "        return _encode_call(func, args, kwargs or {})", "        return _encode_call(func, args, kwargs)")]),
]


# ------------------------------------------------------------------------------
# R19.7: Slot.__init__ / Node.__init__
#
_R = 'resource_config.py'
_SLOT_ALIAS = "        if not from_dict:\n            from_dict = kwargs\n"
_SLOT_HEAD  = "        if from_dict:\n\n            cores = from_dict.get('cores')\n"
_SLOT_SUPER = "        super().__init__(from_dict, **kwargs)\n"
_SLOT_CONV  = ("            cores = from_dict.get('cores')\n"
               "            gpus  = from_dict.get('gpus')\n"
               "\n"
               "            if cores:\n"
               "                # this is much faster than `isinstance`\n"
               "                if cores[0].__class__.__name__ == 'dict':\n"
               "                    from_dict['cores'] =  [RO(d) for d in cores]\n"
               "\n"
               "                elif isinstance(cores[0], int):\n"
               "                    from_dict['cores'] =  [RO(index=i, occupation=BUSY)\n"
               "                                                 for i in cores]\n"
               "\n"
               "            if gpus:\n"
               "                if gpus[0].__class__.__name__ == 'dict':\n"
               "                    from_dict['gpus'] =  [RO(d) for d in gpus]\n"
               "\n"
               "                elif isinstance(gpus[0], int):\n"
               "                    from_dict['gpus'] =  [RO(index=i, occupation=BUSY)\n"
               "                                                for i in gpus]\n")
_NODE_HEAD  = "        self.__lock__ = mt.RLock()\n\n        cores = from_dict.get('cores')\n"
_NODE_SUPER = "        super().__init__(from_dict)\n\n\n    # --------------------------------------------------------------------------\n    #\n    def _get_core_index(self, ro):\n"
_NODE_CONV  = ("        cores = from_dict.get('cores')\n"
               "        gpus  = from_dict.get('gpus')\n"
               "\n"
               "        if cores:\n"
               "            if not isinstance(cores[0], RO):\n"
               "                from_dict['cores'] = [RO(index=i, occupation=o)\n"
               "                                                    for i,o in enumerate(cores)]\n"
               "\n"
               "        if gpus:\n"
               "            if not isinstance(gpus[0], RO):\n"
               "                from_dict['gpus'] = [RO(index=i, occupation=o)\n"
               "                                                     for i,o in enumerate(gpus)]\n")

MUTATIONS += [
    dict(name='R19.7 seed C19-e: Slot.__init__ converts on a copy, the raw keywords win again', rules=('R19.7',), edits=[
        (_R, _SLOT_HEAD, "        if from_dict:\n\n            from_dict = dict(from_dict)\n\n            cores = from_dict.get('cores')\n")]),
    dict(name='R19.7 Slot.__init__ takes the keywords as a copy instead of an alias', rules=('R19.7',), edits=[
        (_R, _SLOT_ALIAS, "        if not from_dict:\n            from_dict = {**kwargs}\n")]),
    dict(name='R19.7 Slot.__init__ copies the input before the keyword form is chosen (`or` spelling)', rules=('R19.7',), edits=[
        (_R, _SLOT_ALIAS, "        from_dict = from_dict or kwargs\n        data = from_dict.copy()\n"),
        (_R, _SLOT_CONV, _SLOT_CONV.replace("from_dict['", "data['")),
        (_R, _SLOT_SUPER, "        super().__init__(data, **kwargs)\n")]),
    dict(name='R19.7 Slot.__init__ converts in a working copy but hands the original on', rules=('R19.7',), edits=[
        (_R, _SLOT_HEAD, "        if from_dict:\n\n            data  = dict(from_dict)\n            cores = from_dict.get('cores')\n"),
        (_R, _SLOT_CONV, _SLOT_CONV.replace("from_dict['", "data['"))]),
    dict(name='R19.7 Node.__init__ hands on a copy taken before the conversion', rules=('R19.7',), edits=[
        (_R, _NODE_HEAD, "        self.__lock__ = mt.RLock()\n\n        orig  = from_dict.copy()\n        cores = from_dict.get('cores')\n"),
        (_R, _NODE_SUPER, _NODE_SUPER.replace("(from_dict)", "(orig)"))]),
]

SILENT += [
    dict(name='Slot.__init__ chooses the keyword form with `or`', edits=[
        (_R, _SLOT_ALIAS, "        from_dict = from_dict or kwargs\n")]),
    dict(name='Slot.__init__ hands a copy made after the conversion to the base class', edits=[
        (_R, _SLOT_SUPER, "        super().__init__(dict(from_dict), **kwargs)\n")]),
    dict(name='Slot.__init__ converts through a local alias of the input', edits=[
        (_R, _SLOT_HEAD, "        if from_dict:\n\n            data  = from_dict\n            cores = from_dict.get('cores')\n"),
        (_R, _SLOT_CONV, _SLOT_CONV.replace("from_dict['", "data['"))]),
    dict(name='Slot.__init__ copies on entry and lets the keywords travel in the copy only', edits=[
        (_R, _SLOT_ALIAS, "        if not from_dict:\n            from_dict = kwargs\n            kwargs    = dict()\n"),
        (_R, _SLOT_HEAD, "        if from_dict:\n\n            from_dict = dict(from_dict)\n\n            cores = from_dict.get('cores')\n")]),
    dict(name='Slot.__init__ conversion extracted into a static helper which stores into the mapping', edits=[
        (_R, "    def __init__(self, from_dict: dict = None, **kwargs):\n\n        if not from_dict:\n            from_dict = kwargs\n",
             "    @staticmethod\n    def _to_ros(data, kind):\n\n        vals = data.get(kind)\n        if not vals:\n            return\n"
             "        if vals[0].__class__.__name__ == 'dict':\n            data[kind] = [RO(d) for d in vals]\n"
             "        elif isinstance(vals[0], int):\n            data[kind] = [RO(index=i, occupation=BUSY) for i in vals]\n\n\n"
             "    def __init__(self, from_dict: dict = None, **kwargs):\n\n        if not from_dict:\n            from_dict = kwargs\n"),
        (_R, _SLOT_CONV, "            self._to_ros(from_dict, 'cores')\n            self._to_ros(from_dict, 'gpus')\n")]),
    dict(name='Node.__init__ converts in a loop over the two kinds and hands a late copy on', edits=[
        (_R, _NODE_CONV, "        for kind in ('cores', 'gpus'):\n            vals = from_dict.get(kind)\n            if not vals or isinstance(vals[0], RO):\n                continue\n"
                         "            from_dict[kind] = [RO(index=i, occupation=o)\n                               for i, o in enumerate(vals)]\n"),
        (_R, _NODE_SUPER, _NODE_SUPER.replace("(from_dict)", "(from_dict.copy())"))]),
]


# ------------------------------------------------------------------------------
# round 4: R19.8 (guard of an alias unit), R19.9 (payload values come from the
# caller), R19.10 (parts of an entry), R19.11 (kinds converted independently)
#
_G_THREADS = "        if self.cpu_threads:\n            self.cores_per_rank = self.cpu_threads\n"
_R7_TEST   = "            old_val = self.get(old_key)\n            if not old_val:\n                continue\n"
_R2_TEST   = "            value = self.get(old_name)\n            if not value:\n                continue\n"
_NEW_TASK  = "        task = {'func'  : serialize_obj(func),\n                'args'  : args,\n                'kwargs': kwargs or {}}"
_DEC_TASK  = "            task = {'func'  : serialize_obj(f),\n                    'args'  : args,\n                    'kwargs': kwargs}"
_CORE_PAIRS = "                cores = [RO(index=i, occupation=o)\n                         for i,o in slot['cores']]\n"
_GPU_PAIRS  = "                gpus  = [RO(index=i, occupation=o)\n                         for i,o in slot['gpus']]\n"
_CORE_DICTS = "                for ro in slot['cores']:\n                    i = ro['index']\n                    o = ro['occupation']\n"
_SLOT_GPUS  = "\n            if gpus:\n                if gpus[0].__class__.__name__ == 'dict':\n"
_NODE_GPUS  = "\n        if gpus:\n            if not isinstance(gpus[0], RO):\n"
_SLOT_CORES_BLOCK = ("            if cores:\n"
                     "                # this is much faster than `isinstance`\n"
                     "                if cores[0].__class__.__name__ == 'dict':\n"
                     "                    from_dict['cores'] =  [RO(d) for d in cores]\n"
                     "\n"
                     "                elif isinstance(cores[0], int):\n"
                     "                    from_dict['cores'] =  [RO(index=i, occupation=BUSY)\n"
                     "                                                 for i in cores]\n"
                     "\n")
_SLOT_GPUS_BLOCK  = ("            if gpus:\n"
                     "                if gpus[0].__class__.__name__ == 'dict':\n"
                     "                    from_dict['gpus'] =  [RO(d) for d in gpus]\n"
                     "\n"
                     "                elif isinstance(gpus[0], int):\n"
                     "                    from_dict['gpus'] =  [RO(index=i, occupation=BUSY)\n"
                     "                                                for i in gpus]\n")

MUTATIONS += [
    # R19.8
    dict(name='R19.8 seed C19-g1: cpu_threads only mapped when larger than one', rules=('R19.8',), edits=[
        (_T, _G_THREADS, _G_THREADS.replace("if self.cpu_threads:", "if self.cpu_threads > 1:"))]),
    dict(name='R19.8 cpu_processes of one is skipped (`and != 1`)', rules=('R19.8',), edits=[
        (_T, "        if self.cpu_processes:\n", "        if self.cpu_processes and self.cpu_processes != 1:\n")]),
    dict(name='R19.8 scheduler block runs for the default (is not None)', rules=('R19.8',), edits=[
        (_T, "        if self.scheduler:\n", "        if self.scheduler is not None:\n")]),
    dict(name='R19.8 cpu_thread_type block runs again for its reset value None', rules=('R19.8',), edits=[
        (_T, "        if self.cpu_thread_type:\n", "        if self.cpu_thread_type != '':\n")]),
    dict(name='R19.8 mem_per_process only mapped from 2 on (>= 2, constant on the left)', rules=('R19.8',), edits=[
        (_T, "        if self.mem_per_process:\n", "        if 2 <= self.mem_per_process:\n")]),
    dict(name='R19.8 corpus C19-r7, table loop skips the value one', rules=('R19.8',), edits=_CORPUS['C19-r7'] + [
        (_T, _R7_TEST, _R7_TEST.replace("if not old_val:", "if not old_val or old_val == 1:"))]),
    dict(name='R19.8 corpus C19-r2, table loop tests `is None`', rules=('R19.8',), edits=_CORPUS['C19-r2'] + [
        (_T, _R2_TEST, _R2_TEST.replace("if not value:", "if value is None:"))]),
    # R19.9
    dict(name='R19.9 seed C19-g5: kwargs and {}', rules=('R19.9',), edits=[
        (_Y, "                'kwargs': kwargs or {}}", "                'kwargs': kwargs and {}}")]),
    dict(name='R19.9 seed C19-g6: the wrapper serialises itself', rules=('R19.9',), edits=[
        (_Y, "            task = {'func'  : serialize_obj(f),", "            task = {'func'  : serialize_obj(decor),")]),
    dict(name='R19.9 decorator stores empty kwargs', rules=('R19.9',), edits=[
        (_Y, _DEC_TASK, _DEC_TASK.replace("'kwargs': kwargs}", "'kwargs': {}}"))]),
    dict(name='R19.9 __new__ stores args only when they are empty (inverted conditional)', rules=('R19.9',), edits=[
        (_Y, _NEW_TASK, _NEW_TASK.replace("'args'  : args,", "'args'  : () if args else args,"))]),
    dict(name='R19.9 __new__ takes args from kwargs', rules=('R19.9',), edits=[
        (_Y, _NEW_TASK, _NEW_TASK.replace("'args'  : args,", "'args'  : kwargs or (),"))]),
    dict(name='R19.9 __new__ serialises the class instead of the function', rules=('R19.9',), edits=[
        (_Y, _NEW_TASK, _NEW_TASK.replace("serialize_obj(func)", "serialize_obj(cls)"))]),
    dict(name='R19.9 corpus C19-r4, decorator hands the wrapper to the helper', rules=('R19.9',), edits=_CORPUS['C19-r4'] + [
        (_Y, "            return _encode_call(f, args, kwargs)", "            return _encode_call(decor, args, kwargs)")]),
    # R19.10
    dict(name='R19.10 seed C19-g3: core pairs unpacked the wrong way round', rules=('R19.10',), edits=[
        (_M, _CORE_PAIRS, _CORE_PAIRS.replace("for i,o in", "for o,i in"))]),
    dict(name='R19.10 gpu pairs unpacked the wrong way round', rules=('R19.10',), edits=[
        (_M, _GPU_PAIRS, _GPU_PAIRS.replace("for i,o in", "for o,i in"))]),
    dict(name='R19.10 core pairs taken apart by position, exchanged', rules=('R19.10',), edits=[
        (_M, _CORE_PAIRS, "                cores = [RO(index=p[1], occupation=p[0])\n                         for p in slot['cores']]\n")]),
    dict(name='R19.10 dict-form cores: index read from occupation', rules=('R19.10',), edits=[
        (_M, _CORE_DICTS, _CORE_DICTS.replace("i = ro['index']", "i = ro['occupation']").replace("o = ro['occupation']", "o = ro['index']"))]),
    dict(name='R19.10 old format built from the occupation', rules=('R19.10',), edits=[
        (_M, "                cores = [[ro.index] for ro in cores]", "                cores = [[ro.occupation] for ro in cores]")]),
    dict(name='R19.10 corpus C19-r8, nested helper unpacks pairs the wrong way round', rules=('R19.10',), edits=_CORPUS['C19-r8'] + [
        (_M, "        return [RO(index=i, occupation=o) for i,o in resources]", "        return [RO(index=i, occupation=o) for o,i in resources]")]),
    dict(name='R19.5 corpus C19-r8, nested helper builds ROs without occupation', rules=('R19.5',), edits=_CORPUS['C19-r8'] + [
        (_M, "            return [RO(index=i, occupation=1.0) for i in resources]", "            return [RO(index=i) for i in resources]")]),
    # R19.11
    dict(name='R19.11 seed C19-g4: Slot.__init__ converts gpus only without cores (elif)', rules=('R19.11',), edits=[
        (_R, _SLOT_GPUS, _SLOT_GPUS.replace("            if gpus:", "            elif gpus:"))]),
    dict(name='R19.11 Node.__init__ converts gpus only without cores (elif)', rules=('R19.11',), edits=[
        (_R, _NODE_GPUS, _NODE_GPUS.replace("        if gpus:", "        elif gpus:"))]),
    dict(name='R19.11 Slot.__init__ converts gpus only when there are cores (nested)', rules=('R19.11',), edits=[
        (_R, _SLOT_GPUS, _SLOT_GPUS.replace("            if gpus:", "            if gpus and cores:"))]),
    dict(name='R19.11 Slot.__init__ skips the gpus when cores are set (`and not`)', rules=('R19.11',), edits=[
        (_R, _SLOT_GPUS, _SLOT_GPUS.replace("            if gpus:", "            if gpus and not from_dict.get('cores'):"))]),
    dict(name='R19.11 corpus C19-r4, loop over the kinds stops at an empty kind', rules=('R19.11',), edits=_CORPUS['C19-r4'] + [
        (_R, "                if not resources:\n                    continue\n", "                if not resources:\n                    break\n")]),
]

SILENT += [
    # R19.8
    dict(name='alias guard spelled > 0', edits=[
        (_T, "        if self.cpu_threads:\n", "        if self.cpu_threads > 0:\n")]),
    dict(name='alias guard spelled != 0 with the constant on the left', edits=[
        (_T, "        if self.cpu_processes:\n", "        if 0 != self.cpu_processes:\n")]),
    dict(name='alias guard spelled `is not None and`', edits=[
        (_T, "        if self.cpu_thread_type:\n", "        if self.cpu_thread_type is not None and self.cpu_thread_type != '':\n")]),
    dict(name='alias guard spelled bool()', edits=[
        (_T, "        if self.mem_per_process:\n", "        if bool(self.mem_per_process):\n")]),
    dict(name='alias guard spelled len() > 0', edits=[
        (_T, "        if self.worker_file:\n", "        if len(self.worker_file or '') > 0:\n")]),
    dict(name='corpus C19-r7 with the table test spelled as a comparison', edits=_CORPUS['C19-r7'] + [
        (_T, _R7_TEST, _R7_TEST.replace("if not old_val:", "if old_val is None or not old_val:"))]),
    # R19.9
    dict(name='kwargs default as a conditional expression', edits=[
        (_Y, "                'kwargs': kwargs or {}}", "                'kwargs': kwargs if kwargs else {}}")]),
    dict(name='kwargs copied when set (and/or idiom)', edits=[
        (_Y, "                'kwargs': kwargs or {}}", "                'kwargs': kwargs and dict(kwargs) or {}}")]),
    dict(name='kwargs default with the negated conditional expression', edits=[
        (_Y, "                'kwargs': kwargs or {}}", "                'kwargs': {} if not kwargs else kwargs}")]),
    dict(name='decorator serialises the function through a local alias', edits=[
        (_Y, "            task = {'func'  : serialize_obj(f),", "            fn   = f\n            task = {'func'  : serialize_obj(fn),")]),
    dict(name='decorator copies args and kwargs into fresh containers', edits=[
        (_Y, _DEC_TASK, _DEC_TASK.replace("'args'  : args,", "'args'  : tuple(args),").replace("'kwargs': kwargs}", "'kwargs': dict(kwargs)}"))]),
    # R19.10
    dict(name='pair components renamed', edits=[
        (_M, _CORE_PAIRS, "                cores = [RO(index=idx, occupation=occ)\n                         for idx, occ in slot['cores']]\n")]),
    dict(name='pair taken apart by position', edits=[
        (_M, _CORE_PAIRS, "                cores = [RO(index=p[0], occupation=p[1])\n                         for p in slot['cores']]\n")]),
    dict(name='RO keywords in the other order', edits=[
        (_M, _GPU_PAIRS, "                gpus  = [RO(occupation=o, index=i)\n                         for i,o in slot['gpus']]\n")]),
    dict(name='pairs converted by a loop which unpacks in its body', edits=[
        (_M, _CORE_PAIRS, "                cores = list()\n                for pair in slot['cores']:\n                    i, o = pair\n                    cores.append(RO(index=i, occupation=o))\n")]),
    dict(name='dict-form cores read with get()', edits=[
        (_M, _CORE_DICTS, _CORE_DICTS.replace("i = ro['index']", "i = ro.get('index')"))]),
    dict(name='old format built by an append loop', edits=[
        (_M, "                cores = [[ro.index] for ro in cores]", "                done = list()\n                for ro in cores:\n                    done.append([ro.index])\n                cores = done")]),
    # R19.11
    dict(name='Slot.__init__ converts the gpus first', edits=[
        (_R, _SLOT_CORES_BLOCK + _SLOT_GPUS_BLOCK, _SLOT_GPUS_BLOCK + "\n" + _SLOT_CORES_BLOCK.rstrip('\n') + "\n")]),
    dict(name='Slot.__init__ tests presence and form of the gpus in one condition', edits=[
        (_R, _SLOT_GPUS_BLOCK,
             "            if gpus and gpus[0].__class__.__name__ == 'dict':\n"
             "                from_dict['gpus'] =  [RO(d) for d in gpus]\n"
             "\n"
             "            elif gpus and isinstance(gpus[0], int):\n"
             "                from_dict['gpus'] =  [RO(index=i, occupation=BUSY)\n"
             "                                            for i in gpus]\n")]),
    dict(name='Slot.__init__ enters the conversion only when one of the kinds is set', edits=[
        (_R, "        if from_dict:\n\n            cores = from_dict.get('cores')\n",
             "        if from_dict and (from_dict.get('cores') or from_dict.get('gpus')):\n\n            cores = from_dict.get('cores')\n")]),
    dict(name='Slot.__init__ reads the gpus right before their conversion, `is None` guard first', edits=[
        (_R, "            gpus  = from_dict.get('gpus')\n\n", "\n"),
        (_R, "            if gpus:\n                if gpus[0].__class__", "            gpus = from_dict.get('gpus')\n            if gpus is not None and gpus:\n                if gpus[0].__class__")]),
    dict(name='Node.__init__ merges presence and type test of the gpus', edits=[
        (_R, _NODE_GPUS, "\n        if gpus and not isinstance(gpus[0], RO):\n            if True:\n")]),
]


# ------------------------------------------------------------------------------
# round 5: table driven mode loop (corpus C19-r9) decided row by row by R19.2;
# R19.12 (the input list is handed back only on tests over the whole list),
# R19.13 (breadth of the handler which provides the fallback)
#
_OLD_HEAD = "    if not slots:\n        return slots\n\n    old_slots = list()\n"
_NEW_HEAD = "    if not slots:\n        return slots\n\n    new_slots = list()\n"
_OLD_DEF  = "def convert_slots_to_old(slots, log=None):\n\n    if not slots:\n        return slots\n"
_SER_H1   = "    except Exception as e:\n        try:\n            return dill.dumps(obj, byref=True)\n"
_SER_H2   = "        except Exception as e2:\n            raise SerializationError(\"Failed to serialize object\", e2) from e2\n"
_SER_TRY  = "    try:\n        if callable(obj):\n            return dill.dumps(obj)\n        else:\n            return dill.dumps(obj, recurse=True)\n"
_SER_HELP = ("def _by_ref(obj):\n    try:\n        return dill.dumps(obj, byref=True)\n    except Exception as e2:\n"
             "        raise SerializationError(\"Failed to serialize object\", e2) from e2\n\n\ndef serialize_obj(obj):\n")
_R9_ROW   = "    ([TASK_EVAL, TASK_EXEC]                                   , CODE      , None),\n"

MUTATIONS += [
    # R19.2 on the table driven loop
    dict(name='R19.2 corpus C19-r9, TASK_EXEC missing in its table row', rules=('R19.2',), edits=_CORPUS['C19-r9'] + [
        (_T, _R9_ROW, _R9_ROW.replace("[TASK_EVAL, TASK_EXEC]", "[TASK_EVAL]           "))]),
    dict(name='R19.2 corpus C19-r9, code row asks for command', rules=('R19.2',), edits=_CORPUS['C19-r9'] + [
        (_T, _R9_ROW, _R9_ROW.replace("CODE      ,", "COMMAND   ,"))]),
    dict(name='R19.2 corpus C19-r9, loop leaves at the first row which does not match', rules=('R19.2',), edits=_CORPUS['C19-r9'] + [
        (_T, "            if mode not in modes:\n                continue\n", "            if mode not in modes:\n                break\n")]),
    dict(name='R19.2 corpus C19-r9, membership test inverted', rules=('R19.2',), edits=_CORPUS['C19-r9'] + [
        (_T, "            if mode not in modes:\n                continue\n", "            if mode in modes:\n                continue\n")]),
    # R19.12
    dict(name='R19.12 seed C19-h3: already-old fast path looks at the first slot', rules=('R19.12',), edits=[
        (_M, _OLD_HEAD, "    if not slots:\n        return slots\n\n    if not slots[0].get('version'):\n        return slots\n\n    old_slots = list()\n")]),
    dict(name='R19.12 first-slot test merged into the emptiness guard (or)', rules=('R19.12',), edits=[
        (_M, _OLD_HEAD, "    if not slots or not slots[0].get('version'):\n        return slots\n\n    old_slots = list()\n")]),
    dict(name='R19.12 first slot through two locals', rules=('R19.12',), edits=[
        (_M, _OLD_HEAD, "    if not slots:\n        return slots\n\n    first = slots[0]\n    is_old = not first.get('version')\n    if is_old:\n        return slots\n\n    old_slots = list()\n")]),
    dict(name='R19.12 sibling: to_new returns the list when the LAST slot is new', rules=('R19.12',), edits=[
        (_M, _NEW_HEAD, "    if not slots:\n        return slots\n\n    if slots[-1].get('version', 0) >= 1:\n        return slots\n\n    new_slots = list()\n")]),
    dict(name='R19.12 the loop returns the input at the first old slot it meets', rules=('R19.12',), edits=[
        (_M, "        if not slot.get('version'):\n            old_slots.append(slot)\n            continue\n", "        if not slot.get('version'):\n            return slots\n")]),
    dict(name='R19.12 result variable aliased to the input on a first-slot test', rules=('R19.12',), edits=[
        (_M, _OLD_HEAD, "    if not slots:\n        return slots\n\n    old_slots = list()\n    if not slots[0].get('version'):\n        old_slots = slots\n        slots = []\n\n")]),
    dict(name='R19.12 first-slot test in a module helper', rules=('R19.12',), edits=[
        (_M, _OLD_DEF, "def _is_old(slots):\n    return not slots[0].get('version')\n\n\n" + _OLD_DEF + "\n    if _is_old(slots):\n        return slots\n")]),
    dict(name='R19.12 next(iter(..)) picks the slot, a copy is returned', rules=('R19.12',), edits=[
        (_M, _OLD_HEAD, "    if not slots:\n        return slots\n\n    if next(iter(slots)).get('version') is None:\n        return list(slots)\n\n    old_slots = list()\n")]),
    # R19.13
    dict(name='R19.13 seed C19-h4: fallback handler narrowed to PicklingError', rules=('R19.13',), edits=[
        (_S, _SER_H1, _SER_H1.replace("except Exception as e:", "except pickle.PicklingError as e:"))]),
    dict(name='R19.13 fallback handler narrowed to a tuple', rules=('R19.13',), edits=[
        (_S, _SER_H1, _SER_H1.replace("except Exception as e:", "except (pickle.PicklingError, AttributeError) as e:"))]),
    dict(name='R19.13 fallback only on PickleError, a second handler gives up at once', rules=('R19.13',), edits=[
        (_S, _SER_H1, _SER_H1.replace("except Exception as e:", "except pickle.PickleError as e:")),
        (_S, _SER_H2, _SER_H2 + "    except Exception as e:\n        raise SerializationError(\"Failed to serialize object\", e) from e\n")]),
    dict(name='R19.13 retry extracted into a helper, handler narrowed', rules=('R19.13',), edits=[
        (_S, "def serialize_obj(obj):\n", _SER_HELP),
        (_S, _SER_H1 + _SER_H2, "    except pickle.PicklingError as e:\n        return _by_ref(obj)\n")]),
]

SILENT += [
    # R19.2 / table loop
    dict(name='corpus C19-r9 with the rows tested in positive form', edits=_CORPUS['C19-r9'] + [
        (_T, "            if mode not in modes:\n                continue\n\n            if not self.get(attr):\n                if not label:\n                    label = mode.upper().replace('.', '_')\n                raise ValueError(\"%s Task mode needs '%s'\" % (label, attr))\n\n            break\n",
             "            if mode in modes:\n                if not self.get(attr):\n                    if not label:\n                        label = mode.upper().replace('.', '_')\n                    raise ValueError(\"%s Task mode needs '%s'\" % (label, attr))\n                break\n")]),
    dict(name='corpus C19-r9 without the break (rows are disjoint)', edits=_CORPUS['C19-r9'] + [
        (_T, "                raise ValueError(\"%s Task mode needs '%s'\" % (label, attr))\n\n            break\n", "                raise ValueError(\"%s Task mode needs '%s'\" % (label, attr))\n")]),
    # R19.12
    dict(name='already-old fast path quantified with all()', edits=[
        (_M, _OLD_HEAD, "    if not slots:\n        return slots\n\n    if all(not slot.get('version') for slot in slots):\n        return slots\n\n    old_slots = list()\n")]),
    dict(name='already-new fast path quantified with not any()', edits=[
        (_M, _NEW_HEAD, "    if not slots:\n        return slots\n\n    if not any(s.get('version', 0) < 1 for s in slots):\n        return slots\n\n    new_slots = list()\n")]),
    dict(name='already-old fast path through a flag set by a loop over all slots', edits=[
        (_M, _OLD_HEAD, "    if not slots:\n        return slots\n\n    mixed = False\n    for slot in slots:\n        if slot.get('version'):\n            mixed = True\n            break\n    if not mixed:\n        return slots\n\n    old_slots = list()\n")]),
    dict(name='emptiness guard spelled with len()', edits=[
        (_M, _OLD_HEAD, "    if slots is None or len(slots) == 0:\n        return slots\n\n    old_slots = list()\n")]),
    dict(name='fast path for a list of one old slot', edits=[
        (_M, _OLD_HEAD, "    if not slots:\n        return slots\n\n    if len(slots) == 1 and not slots[0].get('version'):\n        return slots\n\n    old_slots = list()\n")]),
    dict(name='first slot only looked at for a log message', edits=[
        (_M, _OLD_HEAD, "    if not slots:\n        return slots\n\n    if log and slots[0].get('version'):\n        log.debug('new format')\n\n    old_slots = list()\n")]),
    dict(name='all-old test in a module helper which loops over the slots', edits=[
        (_M, _OLD_DEF, "def _all_old(slots):\n    for s in slots:\n        if s.get('version'):\n            return False\n    return True\n\n\n" + _OLD_DEF + "\n    if _all_old(slots):\n        return slots\n")]),
    # R19.13
    dict(name='fallback handler as a bare except', edits=[
        (_S, _SER_H1, _SER_H1.replace("except Exception as e:", "except:"))]),
    dict(name='fallback handler catches BaseException', edits=[
        (_S, _SER_H1, _SER_H1.replace("except Exception as e:", "except BaseException as e:"))]),
    dict(name='fallback handler with a one-element tuple', edits=[
        (_S, _SER_H1, _SER_H1.replace("except Exception as e:", "except (Exception,) as e:"))]),
    dict(name='by-reference attempt extracted into a helper with its own handler', edits=[
        (_S, "def serialize_obj(obj):\n", _SER_HELP),
        (_S, _SER_H1 + _SER_H2, "    except Exception as e:\n        return _by_ref(obj)\n")]),
    dict(name='attempts as a loop over the option sets with one handler', edits=[
        (_S, _SER_TRY + _SER_H1 + _SER_H2,
             "    last = None\n    for kw in ({} if callable(obj) else {'recurse': True}, {'byref': True}):\n        try:\n            return dill.dumps(obj, **kw)\n        except Exception as e:\n            last = e\n    raise SerializationError(\"Failed to serialize object\", last) from last\n")]),
]


# ------------------------------------------------------------------------------
# round 6: R19.14 (memo of the encoded function), R19.15 (as_dict overrides)
#
_Y_CLS   = "class PythonTask(object):\n"
_Y_TASK  = "        task = {'func'  : serialize_obj(func),\n"
_Y_DTASK = "            task = {'func'  : serialize_obj(f),\n"
_M_DEEP  = "    _deep = False\n"
_R_RO    = "        OCCUPATION: None,\n    }\n"
_R_SLOT  = "    VERSION     = 'version'  # use this to distinguish from old slot structure\n"
_T_VER   = "    def _verify(self):\n"

MUTATIONS += [
    dict(name='R19.14 seed C19-i4: serialized function cached under its code object', rules=('R19.14',), edits=[
        (_Y, _Y_CLS, _Y_CLS + "\n    _func_cache = dict()\n"),
        (_Y, _Y_TASK, "        key = getattr(func, '__code__', func)\n        if key not in cls._func_cache:\n            cls._func_cache[key] = serialize_obj(func)\n\n        task = {'func'  : cls._func_cache[key],\n")]),
    dict(name='R19.14 memo keyed by the qualified name, filled with setdefault', rules=('R19.14',), edits=[
        (_Y, _Y_CLS, _Y_CLS + "\n    _blobs = {}\n"),
        (_Y, _Y_TASK, "        task = {'func'  : cls._blobs.setdefault(func.__qualname__, serialize_obj(func)),\n")]),
    dict(name='R19.14 sibling: decorator keeps the encoded function in a module table by name', rules=('R19.14',), edits=[
        (_Y, _Y_CLS, "_ENCODED = dict()\n\n\n" + _Y_CLS),
        (_Y, _Y_DTASK, "            if f.__name__ not in _ENCODED:\n                _ENCODED[f.__name__] = serialize_obj(f)\n\n            task = {'func'  : _ENCODED[f.__name__],\n")]),
    dict(name='R19.14 memo keyed by (type, name) of the callable, read with get()', rules=('R19.14',), edits=[
        (_Y, _Y_CLS, _Y_CLS + "\n    _func_cache = dict()\n"),
        (_Y, _Y_TASK, "        key = (type(func), getattr(func, '__name__', None))\n        if PythonTask._func_cache.get(key) is None:\n            PythonTask._func_cache[key] = serialize_obj(func)\n\n        task = {'func'  : PythonTask._func_cache.get(key),\n")]),
    dict(name='R19.14 memo keyed by the code object or, without one, by the callable (two assignments)', rules=('R19.14',), edits=[
        (_Y, _Y_CLS, _Y_CLS + "\n    _func_cache = dict()\n"),
        (_Y, _Y_TASK, "        key = func\n        if hasattr(func, '__code__'):\n            key = func.__code__\n        if key not in cls._func_cache:\n            cls._func_cache[key] = serialize_obj(func)\n\n        task = {'func'  : cls._func_cache[key],\n")]),
    dict(name='R19.15 seed C19-i6: FastTypedDict.as_dict fast path looks at the direct values', rules=('R19.15',), edits=[
        (_M, _M_DEEP, _M_DEEP + "\n    def as_dict(self, _annotate=False):\n\n        # fast path: w/o nested typed dicts there is nothing to recurse into\n        data = self._data\n        if not _annotate and \\\n           not any(isinstance(v, ru.TypedDict) for v in data.values()):\n            return dict(data)\n\n        return super().as_dict(_annotate=_annotate)\n")]),
    dict(name='R19.15 TaskDescription.as_dict returns a shallow copy of the data', rules=('R19.15',), edits=[
        (_T, _T_VER, "    def as_dict(self, _annotate=False):\n\n        return dict(self._data)\n\n\n" + _T_VER)]),
    dict(name='R19.15 sibling: Slot.as_dict fast path, slow path first, all(not isinstance) and copy()', rules=('R19.15',), edits=[
        (RC, _R_SLOT, _R_SLOT + "\n    def as_dict(self, _annotate=False):\n\n        if _annotate or not all(not isinstance(v, FastTypedDict)\n                                for v in self._data.values()):\n            return super().as_dict(_annotate=_annotate)\n\n        return self._data.copy()\n")]),
    dict(name='R19.15 fast path over items() which rebuilds the dictionary value by value', rules=('R19.15',), edits=[
        (_M, _M_DEEP, _M_DEEP + "\n    def as_dict(self, _annotate=False):\n\n        if not any(isinstance(v, ru.TypedDict) for k, v in self._data.items()):\n            return {k: v for k, v in self._data.items()}\n\n        return super().as_dict(_annotate=_annotate)\n")]),
]

SILENT += [
    # R19.14
    dict(name='encoded function memoised under the callable itself', edits=[
        (_Y, _Y_CLS, _Y_CLS + "\n    _func_cache = dict()\n"),
        (_Y, _Y_TASK, "        if func not in cls._func_cache:\n            cls._func_cache[func] = serialize_obj(func)\n\n        task = {'func'  : cls._func_cache[func],\n")]),
    dict(name='encoded function memoised under (id, callable) through a local key', edits=[
        (_Y, _Y_CLS, _Y_CLS + "\n    _func_cache = dict()\n"),
        (_Y, _Y_TASK, "        key = (id(func), func)\n        if key not in cls._func_cache:\n            cls._func_cache[key] = serialize_obj(func)\n\n        task = {'func'  : cls._func_cache[key],\n")]),
    dict(name='class level store written by every call before it is read (coarse key, no memo)', edits=[
        (_Y, _Y_CLS, _Y_CLS + "\n    _last = dict()\n"),
        (_Y, _Y_TASK, "        kind = type(func)\n        cls._last[kind] = serialize_obj(func)\n\n        task = {'func'  : cls._last[kind],\n")]),
    dict(name='payload parts collected in a dictionary which lives for one call', edits=[
        (_Y, _Y_TASK, "        parts = dict()\n        parts['f'] = serialize_obj(func)\n\n        task = {'func'  : parts['f'],\n")]),
    dict(name='decorator memoises the encoded function under the function itself in a module table', edits=[
        (_Y, _Y_CLS, "_ENCODED = dict()\n\n\n" + _Y_CLS),
        (_Y, _Y_DTASK, "            if f not in _ENCODED:\n                _ENCODED[f] = serialize_obj(f)\n\n            task = {'func'  : _ENCODED[f],\n")]),
    # R19.15
    dict(name='FastTypedDict.as_dict override which delegates to the base class', edits=[
        (_M, _M_DEEP, _M_DEEP + "\n    def as_dict(self, _annotate=False):\n\n        return super().as_dict(_annotate=_annotate)\n")]),
    dict(name='FastTypedDict.as_dict override through a local', edits=[
        (_M, _M_DEEP, _M_DEEP + "\n    def as_dict(self, _annotate=False):\n\n        ret = super().as_dict(_annotate=_annotate)\n        return ret\n")]),
    dict(name='FastTypedDict.as_dict converts value by value with ru.as_dict', edits=[
        (_M, _M_DEEP, _M_DEEP + "\n    def as_dict(self, _annotate=False):\n\n        if _annotate:\n            return super().as_dict(_annotate=True)\n\n        return {k: ru.as_dict(v) for k, v in self._data.items()}\n")]),
    dict(name='RO.as_dict fast path: a resource occupation holds no typed dicts', edits=[
        (RC, _R_RO, _R_RO + "\n    def as_dict(self, _annotate=False):\n\n        if not _annotate:\n            return dict(self._data)\n\n        return super().as_dict(_annotate=_annotate)\n")]),
    dict(name='FastTypedDict.as_dict fast path for an empty description', edits=[
        (_M, _M_DEEP, _M_DEEP + "\n    def as_dict(self, _annotate=False):\n\n        data = self._data\n        if not data:\n            return dict(data)\n\n        return super().as_dict(_annotate=_annotate)\n")]),
    dict(name='seed C19-i6 fast path on RaptorConfig only (plain values, no subclasses)', edits=[
        (RC, "        RAPTOR_HB_FREQUENCY: 1000,\n    }\n", "        RAPTOR_HB_FREQUENCY: 1000,\n    }\n\n    def as_dict(self, _annotate=False):\n\n        data = self._data\n        if not _annotate and \\\n           not any(isinstance(v, FastTypedDict) for v in data.values()):\n            return dict(data)\n\n        return super().as_dict(_annotate=_annotate)\n")]),
]

# round 7: R19.16 (j4)
_S_OPENW = "        with open(fname, 'wb') as f:\n            f.write(serialize_obj(obj))\n"
_S_FNAME = "    if not fname:\n        fname = _obj_file_path\n\n    try:\n        with open(fname, 'wb') as f:\n"
_S_SFILE = "def serialize_file(obj, fname=None):\n"

MUTATIONS += [
    dict(name='R19.16 seed C19-j4: serialize_file opens the payload file for append', rules=('R19.16',), edits=[
        (_S, "        with open(fname, 'wb') as f:", "        with open(fname, 'ab') as f:")]),
    dict(name='R19.16 append mode given by keyword through a local', rules=('R19.16',), edits=[
        (_S, _S_FNAME, "    if not fname:\n        fname = _obj_file_path\n\n    flags = 'a' + 'b'\n    try:\n        with open(file=fname, mode=flags) as f:\n")]),
    dict(name='R19.16 payload file created exclusively (second payload fails)', rules=('R19.16',), edits=[
        (_S, "        with open(fname, 'wb') as f:", "        with open(fname, 'xb') as f:")]),
    dict(name='R19.16 payload file opened r+b (no file for the first payload)', rules=('R19.16',), edits=[
        (_S, "        with open(fname, 'wb') as f:", "        with open(fname, 'r+b') as f:")]),
    dict(name='R19.16 append only for the default file name (conditional expression, module constant)', rules=('R19.16',), edits=[
        (_S, "_obj_file_path = os.path.join(_obj_dir, _obj_file_name)\n", "_obj_file_path = os.path.join(_obj_dir, _obj_file_name)\n_APPEND        = 'ab'\n"),
        (_S, _S_FNAME, "    mode = 'wb' if fname else _APPEND\n    if not fname:\n        fname = _obj_file_path\n\n    try:\n        with open(fname, mode) as f:\n")]),
    dict(name='R19.16 extracted writer helper, append mode passed by the caller', rules=('R19.16',), edits=[
        (_S, _S_SFILE, "def _dump(fname, data, mode='wb'):\n    with open(fname, mode) as f:\n        f.write(data)\n\n\n" + _S_SFILE),
        (_S, _S_OPENW, "        _dump(fname, serialize_obj(obj), 'ab')\n")]),
    dict(name='R19.16 pathlib open for append', rules=('R19.16',), edits=[
        (_S, "import tempfile\n", "import tempfile\nimport pathlib\n"),
        (_S, "        with open(fname, 'wb') as f:", "        with pathlib.Path(fname).open('ab') as f:")]),
]

SILENT += [
    # R19.16
    dict(name='payload file mode in a local', edits=[
        (_S, _S_FNAME, "    if not fname:\n        fname = _obj_file_path\n\n    how = 'wb'\n    try:\n        with open(fname, how) as f:\n")]),
    dict(name='payload file opened w+b by keyword, module constant', edits=[
        (_S, "_obj_file_path = os.path.join(_obj_dir, _obj_file_name)\n", "_obj_file_path = os.path.join(_obj_dir, _obj_file_name)\n_WMODE         = 'w+b'\n"),
        (_S, "        with open(fname, 'wb') as f:", "        with open(file=fname, mode=_WMODE) as f:")]),
    dict(name='extracted writer helper with the mode as a defaulted parameter', edits=[
        (_S, _S_SFILE, "def _dump(fname, data, mode='wb'):\n    with open(fname, mode) as f:\n        f.write(data)\n\n\n" + _S_SFILE),
        (_S, _S_OPENW, "        _dump(fname, serialize_obj(obj))\n")]),
    dict(name='extracted writer helper, the caller passes the mode', edits=[
        (_S, _S_SFILE, "def _dump(fname, data, mode=None):\n    with open(fname, mode or 'wb') as f:\n        f.write(data)\n\n\n" + _S_SFILE),
        (_S, _S_OPENW, "        _dump(fname, serialize_obj(obj), mode='wb')\n")]),
    dict(name='payload written with pathlib write_bytes', edits=[
        (_S, "import tempfile\n", "import tempfile\nimport pathlib\n"),
        (_S, _S_OPENW, "        pathlib.Path(fname).write_bytes(serialize_obj(obj))\n")]),
    dict(name='payload encoded before the file is opened, handle not in a with statement', edits=[
        (_S, _S_OPENW, "        data = serialize_obj(obj)\n        out = open(fname, 'wb')\n        try:\n            out.write(data)\n        finally:\n            out.close()\n")]),
    dict(name='serialize_file appends a line to a text log next to the payload file', edits=[
        (_S, "        return fname\n    except Exception as e:\n        raise SerializationError(\"Failed to serialize object to file\"",
             "        with open(fname + '.log', 'a') as log:\n            log.write('%s\\n' % type(obj))\n        return fname\n    except Exception as e:\n        raise SerializationError(\"Failed to serialize object to file\"")]),
    dict(name='reader opens the file with an explicit mode keyword', edits=[
        (_S, "        with open(fname, 'rb') as f:", "        with open(fname, mode='rb') as f:")]),
]

SILENT += [
    # R19.2b: a tolerant read (`.get(k)`) replaces the unconditional one - the
    # obligation is decided as conditional, the rule keeps its anchors
    dict(name='proc dispatcher reads the environment with .get() or {}', edits=[
        (_W, "            env  = dict(self._task_env)\n            env.update(task['description']['environment'])",
             "            env  = dict(self._task_env)\n            env.update(task['description'].get('environment') or {})")]),
    dict(name='shell dispatcher reads the environment with .get(k, {})', edits=[
        (_W, "            env = dict(self._task_env)\n            env.update(task['description']['environment'])",
             "            env = dict(self._task_env)\n            env.update(task['description'].get('environment', {}))")]),
]
