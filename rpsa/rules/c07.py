"""C07  The executor finishes each task exactly once  (DESIGN 5 / C07)"""

import ast
import copy

from ..model import (walk, dotted, call_name, kwarg, unparse, short, UNKNOWN,
                     root_name, AnalysisError, calls_in, stores_in_target)
from ..cfg import cfg_of
from ..flow import Deps, guards, must_pass, loop_slice, Exploration
from .. import idioms as I

POPEN = ('agent/executing/popen.py', 'Popen')
NOOP  = ('agent/executing/noop.py', 'NOOP')
EBASE = ('agent/executing/base.py', 'AgentExecutingComponent')
UNSCHED = 'agent_unschedule_pubsub'


def _is_unsched_pub(prog, f, c):
    return I.is_publish(c, prog, f, UNSCHED)


def _is_hand(c):
    return I.is_handon(c)


def _thing_name(e):
    """name of the thing handed on / published: task, [task] -> 'task'"""
    if isinstance(e, ast.Name):
        return e.id
    if isinstance(e, (ast.List, ast.Tuple)) and len(e.elts) == 1 and \
            isinstance(e.elts[0], ast.Name):
        return e.elts[0].id
    return None


def _once_bound(fnode, params=()):
    """local name -> (value, Assign statement) for the names of a function
    which are bound exactly once, by a plain `name = value` (def-use: a test
    on such a name is a test on the value)"""
    stores = {}
    for n in walk(fnode):
        if isinstance(n, ast.Name) and isinstance(n.ctx, (ast.Store, ast.Del)):
            stores[n.id] = stores.get(n.id, 0) + 1
        elif isinstance(n, ast.ExceptHandler) and n.name:
            stores[n.name] = stores.get(n.name, 0) + 1
    out = {}
    for n in walk(fnode):
        if isinstance(n, ast.Assign) and len(n.targets) == 1 and \
                isinstance(n.targets[0], ast.Name):
            nm = n.targets[0].id
            if stores.get(nm) == 1 and nm not in params:
                out[nm] = (n.value, n)
    return out


def _deref(e, once, depth=4):
    """the expression a once-bound local stands for"""
    while isinstance(e, ast.Name) and e.id in once and depth:
        e = once[e.id][0]
        depth -= 1
    return e


def _flip(lab):
    return 'F' if lab == 'T' else 'T'


def _canceled_label(e, var, once, depth=4):
    """(edge label taken when self.is_canceled(var) returned True, statement
    that evaluates the call or None if the test itself does) for a test
    expression e; None if e does not consult is_canceled(var).  Understands
    the call itself, `not`, comparison with a constant, and once-bound locals
    holding any of these (hoisted check)."""
    if isinstance(e, ast.Name) and e.id in once and depth:
        val, stmt = once[e.id]
        r = _canceled_label(val, var, once, depth - 1)
        if r is None:
            return None
        return (r[0], r[1] if r[1] is not None else stmt)
    if isinstance(e, ast.Call):
        if call_name(e) == 'self.is_canceled' and e.args and \
                isinstance(e.args[0], ast.Name) and e.args[0].id == var:
            return ('T', None)
    if isinstance(e, ast.UnaryOp) and isinstance(e.op, ast.Not):
        r = _canceled_label(e.operand, var, once, depth)
        return None if r is None else (_flip(r[0]), r[1])
    if isinstance(e, ast.Compare) and len(e.ops) == 1 and \
            isinstance(e.comparators[0], ast.Constant):
        r = _canceled_label(e.left, var, once, depth)
        if r is not None:
            pos = isinstance(e.ops[0], (ast.Is, ast.Eq))
            same = bool(e.comparators[0].value) == pos
            return (r[0] if same else _flip(r[0]), r[1])
    for c in calls_in(e):
        if call_name(c) == 'self.is_canceled' and c.args and \
                isinstance(c.args[0], ast.Name) and c.args[0].id == var:
            return ('T', None)
    return None


def cancel_checks(f, g, var):
    """{test node id: (label on which the task was found canceled, id of the
    node that evaluates is_canceled(var))}"""
    once = _once_bound(f.node, f.params)
    by_stmt = {id(n.ast): n.id for n in g.stmt_nodes()}
    out = {}
    for n in g.nodes:
        if n.kind != 'test':
            continue
        r = _canceled_label(n.ast, var, once)
        if r is not None:
            out[n.id] = (r[0], by_stmt.get(id(r[1]), n.id)
                         if r[1] is not None else n.id)
    return out


def pair_states(prog, f, g, start, var, stop=None, stop_edge=None,
                count_is_canceled=True, callee_effects=None, skip=()):
    """explore from start; state = (pubs, hands, target_set) for thing `var`.
    callee_effects: {callee qualname: (pubs, hands)} applied at resolved self
    calls with var as argument (interprocedural step).  skip: edges
    (src, dst, label) that are not real paths."""
    callee_effects = callee_effects or {}
    checks = cancel_checks(f, g, var) if count_is_canceled else {}
    skip = set(skip)

    def transfer(node, edge, st):
        if skip and (edge.src, edge.dst, edge.label) in skip:
            return None
        if edge.label == 'exc':
            return st
        p, h, t = st
        if node.kind == 'stmt':
            a = node.ast
            if isinstance(a, ast.Assign):
                for tg in a.targets:
                    if isinstance(tg, ast.Subscript) and \
                            isinstance(tg.slice, ast.Constant) and \
                            tg.slice.value in ('target_state', 'exception') \
                            and root_name(tg) == var:
                        t = True
            for c in calls_in(a):
                if _is_unsched_pub(prog, f, c) and len(c.args) > 1 and \
                        _thing_name(c.args[1]) == var:
                    p = min(2, p + 1)
                elif _is_hand(c) and _thing_name(I.handon_thing(c)) == var:
                    h = min(2, h + 1)
                else:
                    cn = call_name(c)
                    if cn in callee_effects and any(
                            isinstance(x, ast.Name) and x.id == var
                            for x in list(c.args) +
                            [k.value for k in c.keywords]):
                        dp, dh = callee_effects[cn]
                        p, h = min(2, p + dp), min(2, h + dh)
        elif node.kind == 'test' and node.id in checks:
            # BaseComponent.is_canceled hands the task on as CANCELED exactly
            # when it returns True
            if edge.label == checks[node.id][0]:
                h = min(2, h + 1)
        return (p, h, t)
    return Exploration(g, start, (0, 0, False), transfer, stop=stop,
                       stop_edge=stop_edge)


# ------------------------------------------------------------------------------
# R07.1  publication / hand-on pairing per path
#
def r07_1(prog, rep, rid='R07.1', pub_only=False):
    rep.rule(rid, 'on every path of each finishing region the task is '
             'announced for unscheduling as often as it is handed on (0 or 1 '
             'times), with its outcome recorded first', minimum=7)
    popen = prog.cls(*POPEN)
    noop = prog.cls(*NOOP)

    # (a) Popen.cancel_task, one call = one task
    f = prog.find_method(popen, 'cancel_task')
    rep.saw(f)
    g = cfg_of(f)
    var = [p for p in f.params if p != 'self'][0]
    ex = pair_states(prog, f, g, g.entry.id, var)
    rep.stat('paths_enumerated', ex.states)
    cancel_summary = set()
    okall = True
    for t in ex.terminals:
        if t.node != g.exit.id:
            continue
        p, h, ts = t.state
        cancel_summary.add((p, h))
        good = (p, h) in ((0, 0), (1, 1)) and (h == 0 or ts)
        if not good:
            okall = False
            rep.bad(rid, f, 'cancel_task:pub=%d,hand=%d,outcome=%s' % (p, h, ts),
                    'Popen.cancel_task: a path ends with %d unschedule '
                    'publication(s) and %d hand-on(s) of the task%s'
                    % (p, h, '' if ts or h == 0 else ' without recording '
                       'target_state first'), f.loc(),
                    history='cancel of a running task: its cores are released '
                    'twice / never, or it is handed to output staging '
                    'without CANCELED recorded', path=ex.literals(t)[-8:])
    if okall:
        rep.ok(rid, f, 'Popen.cancel_task: every path is (0 pub, 0 hand) or '
               '(1 pub, 1 hand with target_state set)', f.loc())
    # (b) Popen._check_running: per task, then the bulk
    _bulk_region(prog, rep, rid, prog.find_method(popen, '_check_running'),
                 'Popen._check_running', need_outcome=True)
    # (c) handler of Popen.work
    _work_handler(prog, rep, rid, prog.find_method(popen, 'work'), 'Popen.work')
    # (d) NOOP._collect
    _bulk_region(prog, rep, rid, prog.find_method(noop, '_collect'),
                 'NOOP._collect', need_outcome=True)
    # (e) handler of NOOP.work + retention for the collector
    fw = prog.find_method(noop, 'work')
    _work_handler(prog, rep, rid, fw, 'NOOP.work', collector=True)
    # (f) interprocedural: the late-cancel path of _launch_task
    fl = prog.find_method(popen, '_launch_task')
    rep.saw(fl)
    gl = cfg_of(fl)
    var = [p for p in fl.params if p != 'self'][0]
    eff = {}
    if (1, 1) in cancel_summary:
        eff['self.cancel_task'] = (1, 1)
    ex = pair_states(prog, fl, gl, gl.entry.id, var, callee_effects=eff)
    worst = None
    for t in ex.terminals:
        if t.node != gl.exit.id:
            continue
        p, h, ts = t.state
        if p > 1 or (h > 1 and not pub_only):
            worst = (t, p, h)
    if worst:
        t, p, h = worst
        rep.bad(rid, fl, 'late-cancel:pub=%d,hand=%d' % (p, h),
                'Popen._launch_task: on the late-cancel path the task is '
                'handed on %d times (CANCELED inside is_canceled(), then to '
                'output staging by cancel_task)' % h, fl.loc(),
                history='a cancel request arrives between intake filtering '
                'and process spawn: the client receives CANCELED and later a '
                'second final notification from output staging',
                path=ex.literals(t)[-6:])
    else:
        rep.ok(rid, fl, 'Popen._launch_task: at most one hand-on on every path '
               '(is_canceled + cancel_task included)', fl.loc())


def _bulk_region(prog, rep, rid, f, label, need_outcome):
    """tasks collected into a list inside a loop; after the loop the list is
    published for unscheduling and handed on"""
    rep.saw(f)
    g = cfg_of(f)
    smap = I.stmt_node_map(g)
    hands = [c for c in calls_in(f.node) if _is_hand(c) and
             isinstance(I.handon_thing(c), ast.Name)]
    pubs = [c for c in calls_in(f.node) if _is_unsched_pub(prog, f, c) and
            len(c.args) > 1 and isinstance(c.args[1], ast.Name)]
    if not hands and not pubs:
        raise AnalysisError('UNRECOGNISED-IDIOM %s: bulk hand-on / unschedule '
                            'publication not found' % f.where)
    if not hands or not pubs:
        rep.bad(rid, f, '%s:%s' % (label, 'no-unschedule' if hands
                                   else 'no-hand-on'),
                '%s: finished tasks are %s' % (label, 'handed on but never '
                'published for unscheduling: their cores are never released'
                if hands else 'unscheduled but never handed on: they never '
                'reach a final state'), f.loc(),
                history='a task process exits with code 0')
        return
    lst = I.handon_thing(hands[0]).id
    okl = all(I.handon_thing(h).id == lst for h in hands) and \
        all(p.args[1].id == lst for p in pubs)
    rep.check(okl, rid, f, '%s: the list published for unscheduling is the '
              'list handed on (%s)' % (label, lst),
              construct='%s:same-list' % label,
              message='%s: the tasks published for unscheduling (%s) are not '
              'the tasks handed on (%s)' % (
                  label, sorted({p.args[1].id for p in pubs}),
                  sorted({I.handon_thing(h).id for h in hands})),
              loc=f.loc(hands[0]),
              history='a finished task is handed on but its cores are never '
              'released (or vice versa)')
    # where is the list filled?
    apps = [c for c in calls_in(f.node) if isinstance(c.func, ast.Attribute)
            and c.func.attr == 'append' and isinstance(c.func.value, ast.Name)
            and c.func.value.id == lst and c.args and
            isinstance(c.args[0], ast.Name)]
    if not apps:
        raise AnalysisError('UNRECOGNISED-IDIOM %s: %s is never appended to'
                            % (f.where, lst))
    an = smap[id(apps[0])]
    if not an.loops:
        raise AnalysisError('UNRECOGNISED-IDIOM %s: %s.append outside a loop'
                            % (f.where, lst))
    head = an.loops[-1]
    var = apps[0].args[0].id
    inside = [c for c in hands + pubs if head in smap[id(c)].loops]
    rep.check(not inside, rid, f, '%s: the list is published / handed on '
              'after the collecting loop, not inside it' % label,
              construct='%s:effects-in-loop' % label,
              message='%s: `%s` is executed inside the loop that collects the '
              'finished tasks: tasks collected earlier in the same pass are '
              'announced again with every further task'
              % (label, short(inside[0], 60) if inside else ''),
              loc=f.loc(inside[0]) if inside else f.loc(),
              history='two processes exit in the same watcher pass: the first '
              'task is unscheduled twice')
    # per iteration: appended at most once; outcome recorded when appended
    start, stop, stop_edge = loop_slice(g, head)

    def transfer(node, edge, st):
        if edge.label == 'exc':
            return st
        n, t = st
        if node.kind == 'stmt':
            a = node.ast
            if isinstance(a, ast.Assign):
                for tg in a.targets:
                    if isinstance(tg, ast.Subscript) and \
                            isinstance(tg.slice, ast.Constant) and \
                            tg.slice.value == 'target_state' and \
                            root_name(tg) == var:
                        t = True
            for c in calls_in(a):
                if c in apps:
                    n = min(2, n + 1)
        return (n, t)
    ex = Exploration(g, start, (0, False), transfer, stop=stop,
                     stop_edge=stop_edge)
    rep.stat('paths_enumerated', ex.states)
    # the outcome may also be recorded by a later loop over the whole list
    # which the hand-on has to pass
    later = False
    for n in g.nodes:
        if n.kind == 'for' and isinstance(n.ast.iter, ast.Name) and \
                n.ast.iter.id == lst and isinstance(n.ast.target, ast.Name):
            tv = n.ast.target.id
            for m in g.stmt_nodes():
                if m.kind == 'stmt' and n.id in m.loops and \
                        isinstance(m.ast, ast.Assign) and any(
                            isinstance(tg, ast.Subscript) and
                            isinstance(tg.slice, ast.Constant) and
                            tg.slice.value == 'target_state' and
                            root_name(tg) == tv for tg in m.ast.targets) and \
                        not [x for x in guards(g, m.id)
                             if g.nodes[x[0]].loops == m.loops]:
                    if all(must_pass(g, an.id, smap[id(h)].id, [n.id])
                           for h in hands):
                        later = True
    bad = None
    for t in ex.terminals:
        if t.node == g.raise_.id:
            continue
        n, ts = t.state
        if n > 1 or (n == 1 and need_outcome and not ts and not later):
            bad = (t, n, ts)
    if bad:
        t, n, ts = bad
        rep.bad(rid, f, '%s:append=%d,outcome=%s' % (label, n, ts),
                '%s: a task is collected %d time(s) for the finish%s'
                % (label, n, '' if ts else ' without target_state recorded '
                   'on that path'), f.loc(apps[0]),
                history='a process exits: the task reaches output staging '
                'without DONE/FAILED recorded (or is finished twice)',
                path=ex.literals(t)[-8:])
    else:
        rep.ok(rid, f, '%s: per task at most one collection, with the outcome '
               'recorded on every collecting path' % label, f.loc(apps[0]))
    # after the loop: one publication, one hand-on (the latter may be skipped
    # for the empty list)
    after = [e.dst for e in g.succ[head] if e.label == 'done'] or \
        [e.dst for nid in g.loop_body[head] | {head} for e in g.succ[nid]
         if e.dst not in g.loop_body[head] and e.dst != head and
         e.label != 'exc' and not e.back]
    outer = g.nodes[head].loops
    if outer:
        ostart, ostop, ostop_edge = loop_slice(g, outer[-1])
    else:
        ostop = (lambda nid: nid in (g.exit.id, g.raise_.id))
        ostop_edge = None

    def transfer2(node, edge, st):
        if edge.label == 'exc':
            return st
        p, h, empty = st
        if node.kind == 'stmt':
            for c in calls_in(node.ast):
                if c in pubs:
                    p = min(2, p + 1)
                if c in hands:
                    h = min(2, h + 1)
        if node.kind == 'test' and isinstance(node.ast, ast.Name) and \
                node.ast.id == lst and edge.label == 'F':
            empty = True
        return (p, h, empty)
    worst = None
    n_ok = 0
    for s in set(after):
        ex2 = Exploration(g, s, (0, 0, False), transfer2, stop=ostop,
                          stop_edge=ostop_edge)
        for t in ex2.terminals:
            if t.node == g.raise_.id:
                continue
            p, h, empty = t.state
            if (p, h) == (1, 1) or (empty and p <= 1 and h == 0):
                n_ok += 1
            else:
                worst = (ex2, t, p, h)
    if worst:
        ex2, t, p, h = worst
        rep.bad(rid, f, '%s:bulk:pub=%d,hand=%d' % (label, p, h),
                '%s: after collecting, the list %s is published for '
                'unscheduling %d time(s) and handed on %d time(s) on some '
                'path' % (label, lst, p, h), f.loc(hands[0]),
                history='a task finishes: its cores are released twice or '
                'never, or it is handed on twice or never',
                path=ex2.literals(t)[-6:])
    else:
        rep.ok(rid, f, '%s: after the loop %s is published once and handed on '
               'once (hand-on skipped only when empty)' % (label, lst),
               f.loc(hands[0]))


def _work_handler(prog, rep, rid, f, label, collector=False):
    rep.saw(f)
    g = cfg_of(f)
    param = [p for p in f.params if p != 'self'][0]
    loops = [n for n in g.nodes if n.kind == 'for' and
             isinstance(n.ast.iter, ast.Name) and n.ast.iter.id == param and
             isinstance(n.ast.target, ast.Name)]
    if len(loops) != 1:
        raise AnalysisError('UNRECOGNISED-IDIOM %s: per-task loop not found'
                            % f.where)
    H = loops[0]
    var = H.ast.target.id
    start, stop, stop_edge = loop_slice(g, H.id)
    ex = pair_states(prog, f, g, start, var, stop=stop, stop_edge=stop_edge)
    rep.stat('paths_enumerated', ex.states)
    # does anything retain *all* tasks of the bulk after the loop?
    bulk_ret = None
    if collector:
        for c in calls_in(f.node):
            if isinstance(c.func, ast.Attribute) and c.func.attr == 'extend' \
                    and c.args and isinstance(c.args[0], ast.Name) and \
                    c.args[0].id == param:
                bulk_ret = c
        for n in walk(f.node):
            if isinstance(n, ast.AugAssign) and isinstance(n.value, ast.Name) \
                    and n.value.id == param:
                bulk_ret = n
    seen_fail = False
    bad = None
    for t in ex.terminals:
        if t.node == g.raise_.id:
            continue
        p, h, ts = t.state
        via_handler = any(g.nodes[e.dst].kind == 'handler'
                          for e in ex.path(t))
        if via_handler:
            seen_fail = True
            if (p, h) != (1, 1) or not ts:
                bad = (t, p, h, ts, 'the error path')
            elif bulk_ret is not None:
                bad = (t, p, h, ts, 'retained')
        else:
            if (p, h) != (0, 0):
                bad = (t, p, h, ts, 'the normal path')
    if bad and bad[4] == 'retained':
        t = bad[0]
        rep.bad(rid, f, bulk_ret,
                '%s: a task whose launch failed is published for unscheduling '
                'and handed on as FAILED, and is then still handed to the '
                'collector with the whole bulk (`%s`): it is finished a '
                'second time' % (label, short(bulk_ret, 50)), f.loc(bulk_ret),
                history='_handle_task raises for task t: t is reported FAILED '
                'and unscheduled; the collector later unschedules it again '
                'and pushes it to output staging (or dies on the missing '
                "'deadline' key and no task ever finishes again)",
                path=ex.literals(t)[-6:])
    elif bad:
        t, p, h, ts, where = bad
        rep.bad(rid, f, '%s:%s:pub=%d,hand=%d' % (label, where, p, h),
                '%s: on %s of the per-task loop the task is published for '
                'unscheduling %d time(s) and handed on %d time(s)%s'
                % (label, where, p, h, '' if ts or h == 0 else
                   ' without the exception recorded'), f.loc(H.ast),
                history='launching fails for one task: its cores are never '
                'released, or it never reaches a final state',
                path=ex.literals(t)[-6:])
    else:
        rep.ok(rid, f, '%s: error path = one unschedule publication + one '
               'FAILED hand-on with the exception recorded; normal path = '
               'neither' % label, f.loc(H.ast))
    if collector and bulk_ret is None:
        # per task: FAILED hand-on xor retention for the collector
        from ..outcomes import check_one_outcome
        check_one_outcome(rep, rid, f, g, H.id, var,
                          '%s: launch or fail' % label,
                          'a task whose launch failed is reported FAILED and '
                          'also handed to the collector, which finishes it a '
                          'second time (or a launched task is never '
                          'collected)', hand_wrappers=())
    if not seen_fail:
        rep.bad(rid, f, '%s:no-handler' % label, '%s: a failure while '
                'launching one task is not handled per task' % label,
                f.loc(H.ast), history='one task without launcher takes the '
                'whole bulk down')


# ------------------------------------------------------------------------------
# R07.2  ownership arbitration
#
def _is_pop_default(e):
    return isinstance(e, ast.Call) and isinstance(e.func, ast.Attribute) and \
        e.func.attr == 'pop' and len(e.args) == 2 and not e.keywords


def _owner_test(e, once, depth=4):
    """decompose a test that decides ownership of a uid.  Returns
    (kind, leave label, container, key, statement evaluating it or None):
      kind 'member': `key [not] in cont`              (removal follows)
      kind 'atomic': `cont.pop(key, None) [is [not] None]`  (test-and-remove in
                     one step; the removed value is a task dict, never falsy)
    `leave` is the edge label taken when the uid is NOT (no longer) registered.
    Understands `not`, and once-bound locals holding the expression."""
    if isinstance(e, ast.Name) and e.id in once and depth:
        val, stmt = once[e.id]
        r = _owner_test(val, once, depth - 1)
        if r is None:
            return None
        return r[:4] + (r[4] if r[4] is not None else stmt,)
    if isinstance(e, ast.UnaryOp) and isinstance(e.op, ast.Not):
        r = _owner_test(e.operand, once, depth)
        return None if r is None else (r[0], _flip(r[1])) + r[2:]
    if isinstance(e, ast.Compare) and len(e.ops) == 1:
        op = e.ops[0]
        if isinstance(op, (ast.In, ast.NotIn)):
            return ('member', 'T' if isinstance(op, ast.NotIn) else 'F',
                    unparse(e.comparators[0]), unparse(e.left), None)
        c = e.comparators[0]
        if isinstance(op, (ast.Is, ast.IsNot, ast.Eq, ast.NotEq)):
            # cont.pop(key, D) compared with the same default / sentinel D
            left, stmt, d = e.left, None, depth
            while isinstance(left, ast.Name) and left.id in once and d:
                left, stmt = once[left.id]
                d -= 1
            if _is_pop_default(left) and _plain(left.args[1]) and \
                    unparse(left.args[1]) == unparse(c):
                gone_on = 'T' if isinstance(op, (ast.Is, ast.Eq)) else 'F'
                return ('atomic', gone_on, unparse(left.func.value),
                        unparse(left.args[0]), stmt)
        return None
    if _is_pop_default(e) and _falsy_const(e.args[1]):
        # truth of the removed value: a task dict is never empty
        return ('atomic', 'F', unparse(e.func.value), unparse(e.args[0]), None)
    return None


def _truthy_const(e):
    return isinstance(e, ast.Constant) and bool(e.value)


def _falsy_const(e):
    return e is None or (isinstance(e, ast.Constant) and not e.value)


def _disown_helper(prog, f, call):
    """`self.h(uid)` whose callee performs the locked test-and-remove and
    returns whether the caller now owns the task (truthy <=> owned):
    (with ast, locks, container) or None"""
    if not (isinstance(call, ast.Call) and
            isinstance(call.func, ast.Attribute) and
            isinstance(call.func.value, ast.Name) and
            call.func.value.id == 'self'):
        return None
    callee = prog.resolve_call(f, call)
    if callee is None or callee is f:
        return None
    cg = cfg_of(callee)
    rets = [n for n in cg.stmt_nodes()
            if n.kind == 'stmt' and isinstance(n.ast, ast.Return)]
    if not rets or any(cg.nodes[e.src] not in rets
                       for e in cg.pred[cg.exit.id]):
        return None
    once = _once_bound(callee.node, callee.params)
    by_stmt = {id(m.ast): m for m in cg.stmt_nodes()}
    # form A: `with lock: return cont.pop(key, None) is not None`
    if len(rets) == 1 and rets[0].ast.value is not None:
        r = _owner_test(rets[0].ast.value, once)
        if r is not None and r[0] == 'atomic':
            ev = by_stmt.get(id(r[4]), rets[0]) if r[4] is not None \
                else rets[0]
            if ev.withs:
                w = ev.withs[-1]
                return (w, [unparse(i.context_expr) for i in w.items], r[2],
                        r[1] == 'F')
        return None
    # form B: membership test + removal; `return False` where the arbitration
    # is lost, `return True` after the removal
    arbs = _arbitration(prog, callee, cg, helpers=False)
    if not arbs:
        return None
    w, locks, tid, leave, cont, did = arbs[0]
    stay = _flip(leave)
    quiet = _noise_exc_edges(cg)
    not_owned = cg.reachable(cg.entry.id, skip_edges=[(tid, stay)] + quiet) | \
        cg.reachable(cg.entry.id, skip_nodes={did}, skip_edges=quiet)
    not_lost = cg.reachable(cg.entry.id, skip_edges=[(tid, leave)] + quiet)
    won, lost = set(), set()
    for r in rets:
        v = r.ast.value
        t = True if _truthy_const(v) else False if _falsy_const(v) else None
        if r.id not in not_owned:
            won.add(t)
        elif r.id not in not_lost:
            lost.add(t)
        else:
            return None
    if len(won) != 1 or len(lost) != 1 or None in won | lost or won == lost:
        return None
    return (w, locks, cont, won.pop())


def _arbitration(prog, f, g, helpers=True):
    """[(with ast, lock, test node id, leave label, container, del node id)]
    test-and-remove on a container under a lock: a membership test followed
    by the removal of the same key, or the atomic `cont.pop(key, None)` whose
    result is tested (then the removal node is the node evaluating the pop).
    The test may sit in a once-bound local; what has to be under the lock is
    its evaluation and the removal."""
    out = []
    once = _once_bound(f.node, f.params)
    by_stmt = {id(m.ast): m for m in g.stmt_nodes()}
    tests = []
    for m in g.nodes:
        if m.kind != 'test':
            continue
        r = _owner_test(m.ast, once)
        if r is None:
            if helpers:
                # `if not self._disown(uid): return` - the locked
                # test-and-remove lives in a helper that reports ownership
                e, leave, stmt, d = m.ast, 'F', None, 4
                while d:
                    d -= 1
                    if isinstance(e, ast.UnaryOp) and \
                            isinstance(e.op, ast.Not):
                        e, leave = e.operand, _flip(leave)
                    elif isinstance(e, ast.Compare) and len(e.ops) == 1 and \
                            isinstance(e.comparators[0], ast.Constant) and \
                            isinstance(e.comparators[0].value, bool) and \
                            isinstance(e.ops[0], (ast.Is, ast.IsNot, ast.Eq,
                                                  ast.NotEq)):
                        same = e.comparators[0].value == isinstance(
                            e.ops[0], (ast.Is, ast.Eq))
                        e, leave = e.left, leave if same else _flip(leave)
                    elif isinstance(e, ast.Name) and e.id in once:
                        e, stmt = once[e.id]
                    else:
                        break
                h = _disown_helper(prog, f, e)
                if h is not None:
                    if not h[3]:            # helper says True when lost
                        leave = _flip(leave)
                    ev = by_stmt.get(id(stmt), m) if stmt is not None else m
                    out.append((h[0], h[1], m.id, leave, h[2], ev.id))
            continue
        kind, leave, cont, key, stmt = r
        ev = by_stmt.get(id(stmt), m) if stmt is not None else m
        tests.append((m.id, kind, leave, cont, key, ev))
    for n in g.nodes:
        if n.kind != 'with':
            continue
        locks = [unparse(i.context_expr) for i in n.ast.items]
        inner = [m for m in g.nodes if n.ast in m.withs]
        dels = []
        for m in inner:
            if m.kind == 'stmt' and isinstance(m.ast, ast.Delete):
                for t in m.ast.targets:
                    if isinstance(t, ast.Subscript):
                        dels.append((m.id, unparse(t.value), unparse(t.slice)))
            if m.kind == 'stmt':
                for c in calls_in(m.ast):
                    if isinstance(c.func, ast.Attribute) and \
                            c.func.attr == 'pop' and c.args:
                        dels.append((m.id, unparse(c.func.value),
                                     unparse(c.args[0])))
        for tid, kind, leave, cont, key, ev in tests:
            if n.ast not in ev.withs:
                continue
            if kind == 'atomic':
                out.append((n, locks, tid, leave, cont, ev.id))
                continue
            for did, dcont, dkey in dels:
                if cont == dcont and key == dkey:
                    out.append((n, locks, tid, leave, cont, did))
    return out


_NOISE = ('self._log.', 'self._prof.', 'self._rep.')


def _plain(e):
    """expression whose evaluation cannot raise: constant, name, self.attr
    chain, or a tuple / list of those"""
    if isinstance(e, (ast.Constant, ast.Name)):
        return True
    if isinstance(e, ast.Attribute):
        return _plain(e.value)
    if isinstance(e, (ast.Tuple, ast.List)):
        return all(_plain(x) for x in e.elts)
    return False


def _noise_exc_edges(g):
    """exception edges leaving statements which only log / profile with plain
    arguments: loggers and profilers are trusted not to raise, so such an edge
    (e.g. into the KeyError handler around the removal) is not a real path"""
    out = []
    for n in g.nodes:
        if n.kind != 'stmt' or not isinstance(n.ast, ast.Expr) or \
                not isinstance(n.ast.value, ast.Call):
            continue
        c = n.ast.value
        if not call_name(c).startswith(_NOISE):
            continue
        if all(_plain(a) for a in c.args) and \
                all(_plain(k.value) for k in c.keywords):
            out += [e for e in g.succ[n.id] if e.label == 'exc']
    return out


def r07_2(prog, rep, rid='R07.2'):
    rep.rule(rid, 'both contenders for a running task (cancel and watcher) '
             'finish it only after removing its uid from the shared registry '
             'under the same lock (test-and-remove)', minimum=2)
    popen = prog.cls(*POPEN)
    found = {}
    for mname in ('cancel_task', '_check_running'):
        f = prog.find_method(popen, mname)
        rep.saw(f)
        g = cfg_of(f)
        smap = I.stmt_node_map(g)
        arbs = _arbitration(prog, f, g)
        # finish effects
        effects = []
        for c in calls_in(f.node):
            if _is_unsched_pub(prog, f, c) or _is_hand(c):
                effects.append(c)
            if isinstance(c.func, ast.Attribute) and c.func.attr == 'append' \
                    and 'advance' in unparse(c.func.value):
                effects.append(c)
        if mname == '_check_running':
            # the per-task effect is the collection into the finish list
            lst = None
            for c in calls_in(f.node):
                if _is_hand(c) and isinstance(I.handon_thing(c), ast.Name):
                    lst = I.handon_thing(c).id
            effects = [c for c in calls_in(f.node)
                       if isinstance(c.func, ast.Attribute) and
                       c.func.attr == 'append' and
                       isinstance(c.func.value, ast.Name) and
                       c.func.value.id == lst]
        if not effects:
            raise AnalysisError('UNRECOGNISED-IDIOM %s: no finish effects'
                                % f.where)
        if not arbs:
            rep.bad(rid, f, '%s:no-arbitration' % mname,
                    'Popen.%s finishes a task without a locked '
                    'test-and-remove on the task registry: watcher and cancel '
                    'handler can both finish the same task' % mname, f.loc(),
                    history='the process exits while a cancel request is '
                    'handled: the task is unscheduled and handed on twice')
            continue
        w, locks, tid, leave, cont, did = arbs[0]
        found[mname] = (tuple(locks), cont)
        quiet = _noise_exc_edges(g)
        for c in effects:
            en = smap[id(c)]
            start = loop_slice(g, en.loops[-1])[0] if en.loops else g.entry.id
            stay = 'F' if leave == 'T' else 'T'
            # must take the "uid is registered" edge and pass the removal
            r1 = g.reachable(start, skip_edges=[(tid, stay)] + quiet,
                             no_back=True)
            r2 = g.reachable(start, skip_nodes={did}, skip_edges=quiet,
                             no_back=True)
            okay = en.id not in r1 and en.id not in r2
            rep.check(okay, rid, f, 'Popen.%s: `%s` is reached only after the '
                      'locked test-and-remove on %s' % (mname, short(c, 40),
                                                        cont),
                      construct=c, message='Popen.%s: the finish effect `%s` '
                      'can be reached without having removed the uid from %s '
                      'under the lock (membership test missing, wrong '
                      'polarity, or removal skipped)' % (mname, short(c, 50),
                                                         cont),
                      loc=f.loc(c),
                      history='process exit and cancel request coincide: both '
                      'threads pass and the task is finished twice')
    if len(found) == 2:
        a, b = found['cancel_task'], found['_check_running']
        rep.check(a == b, rid, popen, 'cancel_task and _check_running '
                  'arbitrate with the same lock %s and registry %s'
                  % (a[0], a[1]), construct='same-lock',
                  message='cancel_task arbitrates with %s on %s, '
                  '_check_running with %s on %s: the two contenders do not '
                  'exclude each other' % (a[0], a[1], b[0], b[1]))
    # registration happens in work() before the task can be seen by either
    fw = prog.find_method(popen, 'work')
    g = cfg_of(fw)
    smap = I.stmt_node_map(g)
    cont = found.get('cancel_task', (None, 'self._tasks'))[1]
    regs = []
    for n in g.stmt_nodes():
        if n.kind != 'stmt':
            continue
        for c in calls_in(n.ast):
            if isinstance(c.func, ast.Attribute) and c.func.attr in \
                    ('update', 'setdefault', '__setitem__') and \
                    unparse(c.func.value) == cont:
                regs.append(n.id)
        if isinstance(n.ast, ast.Assign) and any(
                isinstance(t, ast.Subscript) and unparse(t.value) == cont
                for t in n.ast.targets):
            regs.append(n.id)
    hts = [smap[id(c)] for c in calls_in(fw.node)
           if call_name(c) == 'self._handle_task']
    okr = bool(regs) and bool(hts) and all(
        must_pass(g, loop_slice(g, h.loops[-1])[0] if h.loops else g.entry.id,
                  h.id, regs) for h in hts)
    rep.check(okr, rid, fw, 'work registers the task in %s before launching '
              'it' % cont, construct='register-before-launch',
              message='Popen.work launches a task that is not registered in '
              '%s: neither the watcher nor the cancel handler will ever '
              'finish it (both skip unregistered uids)' % cont, loc=fw.loc(),
              history='a task runs to completion and is never collected: it '
              'stays in AGENT_EXECUTING forever')


# ------------------------------------------------------------------------------
# R07.3 / R07.4 / R07.5
#
def r07_3(prog, rep, rid='R07.3'):
    rep.rule(rid, 'work announces AGENT_EXECUTING once for the bulk, before '
             'the per-task loop', minimum=2)
    st = prog.const('states.py', 'AGENT_EXECUTING')
    for anchor in (POPEN, NOOP):
        K = prog.cls(*anchor)
        f = prog.find_method(K, 'work')
        g = cfg_of(f)
        smap = I.stmt_node_map(g)
        param = [p for p in f.params if p != 'self'][0]
        anns = [c for c in calls_in(f.node) if _is_hand(c) and
                I.handon_state(prog, f, c) == st]
        loops = [n for n in g.nodes if n.kind == 'for' and
                 isinstance(n.ast.iter, ast.Name) and n.ast.iter.id == param]
        okay = len(anns) == 1 and isinstance(I.handon_thing(anns[0]), ast.Name) \
            and I.handon_thing(anns[0]).id == param and \
            not smap[id(anns[0])].loops and bool(loops) and \
            must_pass(g, g.entry.id, loops[0].id, [smap[id(anns[0])].id]) and \
            I.flag(anns[0], 'publish') is True and \
            I.flag(anns[0], 'push') is False
        rep.check(okay, rid, f, '%s.work: AGENT_EXECUTING announced once '
                  '(publish, no push) for the whole bulk before the loop'
                  % K.name, construct='%s:announce' % K.name,
                  message='%s.work does not announce AGENT_EXECUTING exactly '
                  'once for the bulk before the per-task loop (found %d '
                  'announcement(s))' % (K.name, len(anns)), loc=f.loc(),
                  history='the application never sees AGENT_EXECUTING for a '
                  'task, or sees it after the task already finished')


def r07_4(prog, rep, rid='R07.4'):
    rep.rule(rid, 'the process handle is recorded before the task is given to '
             'the watcher and before the late cancel check; the late cancel '
             'check exists', minimum=3)
    popen = prog.cls(*POPEN)
    f = prog.find_method(popen, '_launch_task')
    g = cfg_of(f)
    smap = I.stmt_node_map(g)
    var = [p for p in f.params if p != 'self'][0]
    procs = [n.id for n in g.stmt_nodes() if n.kind == 'stmt' and
             isinstance(n.ast, ast.Assign) and any(
                 isinstance(t, ast.Subscript) and
                 isinstance(t.slice, ast.Constant) and t.slice.value == 'proc'
                 and root_name(t) == var for t in n.ast.targets)]
    puts = [smap[id(c)] for c in calls_in(f.node)
            if isinstance(c.func, ast.Attribute) and c.func.attr == 'put' and
            '_watch_queue' in unparse(c.func.value)]
    if not procs:
        raise AnalysisError("UNRECOGNISED-IDIOM %s: task['proc'] is never "
                            'assigned' % f.where)
    rep.check(bool(puts) and all(must_pass(g, g.entry.id, p.id, procs)
                                 for p in puts), rid, f,
              "the task is put on the watch queue only after task['proc'] is "
              'set', construct='proc-before-watch',
              message="Popen._launch_task puts the task on the watch queue "
              "%s: the watcher drops tasks without a process handle, the task "
              "is never collected" % ('before task[\'proc\'] is assigned'
                                      if puts else '- never'), loc=f.loc(),
              history='the watcher thread picks the task up between put() '
              'and spawn: it is removed from the watch list and stays in '
              'AGENT_EXECUTING forever')
    cmap = cancel_checks(f, g, var)
    checks = [g.nodes[nid] for nid in sorted(cmap)]
    okc = False
    for n in checks:
        lab = cmap[n.id][0]
        for e in g.succ[n.id]:
            if e.label == lab:
                r = g.reachable(e.dst)
                if any(call_name(c) == 'self.cancel_task'
                       for m in r for c in I.stmt_calls(g.nodes[m])):
                    okc = True
    rep.check(okc, rid, f, 'a late cancel check after the spawn leads to '
              'cancel_task', construct='late-check',
              message='Popen._launch_task has no is_canceled() check that '
              'leads to cancel_task after the process was spawned: a cancel '
              'request arriving between intake and spawn is lost',
              loc=f.loc(),
              history='cancel arrives while the launch script is written: '
              'the cancel handler finds no process, the task then runs to '
              'completion')
    rep.check(bool(checks) and all(
        must_pass(g, g.entry.id, cmap[n.id][1], procs) for n in checks),
              rid, f,
              'the late cancel check comes after the spawn',
              construct='check-after-spawn',
              message='the is_canceled() check in _launch_task is evaluated '
              'before the process is spawned: a request arriving in between '
              'is lost', loc=f.loc())


# ------------------------------------------------------------------------------
# R07.6  a spawned task is always given to the watcher
#
# Why the watcher and not cancel_task: Popen.cancel_task finishes a task only
# if its process is still alive and the arbitration is won; for a process that
# has already exited it returns ("already done") and leaves the collection to
# the watcher.  The cancel handler reaches a task through the registry and
# task['proc'], never through the watch queue, so the order of the late cancel
# check and the put does not matter - but after the spawn there must be no
# normal return on which the put was skipped.
#
def _watch_queues(prog, popen):
    """the queue(s) the watcher thread drains: self.X.get_nowait() / .get()
    inside Popen._watch"""
    fw = prog.method(POPEN[0], POPEN[1], '_watch')
    qs = set()
    for c in calls_in(fw.node):
        if isinstance(c.func, ast.Attribute) and \
                c.func.attr in ('get', 'get_nowait') and \
                dotted(c.func.value).startswith('self.'):
            qs.add(dotted(c.func.value))
    if not qs:
        raise AnalysisError('UNRECOGNISED-IDIOM %s: the watcher does not drain '
                            'a self.<queue>' % fw.where)
    return qs


def _queue_of(c, values):
    """'self.X' the put/get call `c` works on (a local that only ever holds
    self.X counts as self.X); '' if it is not a put"""
    if not (isinstance(c.func, ast.Attribute) and
            c.func.attr in ('put', 'put_nowait')):
        return ''
    v = c.func.value
    if isinstance(v, ast.Name) and values is not None:
        vals = {dotted(x) for x in values.get(v.id, [])}
        if len(vals) == 1:
            return vals.pop()
    return dotted(v)


def _is_watch_put(c, queues, var, values=None):
    return _queue_of(c, values) in queues and bool(c.args) and \
        isinstance(c.args[0], ast.Name) and c.args[0].id == var


def _callee_always_puts(prog, f, c, popen, queues, var):
    """`self.helper(.., var, ..)` whose body puts that parameter on the watch
    queue on every normal path"""
    if not (isinstance(c.func, ast.Attribute) and
            isinstance(c.func.value, ast.Name) and c.func.value.id == 'self'):
        return False
    pos = [i for i, a in enumerate(c.args)
           if isinstance(a, ast.Name) and a.id == var]
    kws = [k.arg for k in c.keywords
           if isinstance(k.value, ast.Name) and k.value.id == var]
    if not pos and not kws:
        return False
    callee = prog.resolve_call(f, c, popen)
    if callee is None or callee is f:
        return False
    params = [p for p in callee.params if p != 'self']
    if pos and pos[0] < len(params):
        pv = params[pos[0]]
    elif kws and kws[0] in params:
        pv = kws[0]
    else:
        return False
    cg = cfg_of(callee)
    cputs = [n.id for n in cg.stmt_nodes()
             if any(_is_watch_put(x, queues, pv) for x in I.stmt_calls(n))]
    return bool(cputs) and must_pass(cg, cg.entry.id, cg.exit.id, cputs)


def _local_values(fnode):
    """local name -> [value expressions assigned to it]"""
    out = {}
    for n in walk(fnode):
        if isinstance(n, ast.Assign):
            for t in n.targets:
                if isinstance(t, ast.Name):
                    out.setdefault(t.id, []).append(n.value)
        elif isinstance(n, ast.NamedExpr) and isinstance(n.target, ast.Name):
            out.setdefault(n.target.id, []).append(n.value)
    return out


def _expanded(expr, values):
    """expr and the values of the local names it reads (transitively)"""
    seen = set()
    todo = [expr]
    out = []
    while todo:
        e = todo.pop()
        out.append(e)
        for n in walk(e, nested=True):
            if isinstance(n, ast.Name) and n.id not in seen:
                seen.add(n.id)
                todo += values.get(n.id, [])
    return out


def _knows_process_fate(test, values, var, registry):
    """the test reads the process handle / its exit status, the registry of
    owned tasks, or what cancel_task returned: whether the task still needs
    the watcher on that branch cannot be decided from the shape alone"""
    for e in _expanded(test, values):
        for n in walk(e, nested=True):
            if isinstance(n, ast.Constant) and n.value == 'proc':
                return 'the process handle'
            if isinstance(n, ast.Attribute) and \
                    n.attr in ('poll', 'wait', 'returncode', 'pid'):
                return 'the process state'
            if isinstance(n, ast.Attribute) and dotted(n) == registry:
                return 'the task registry'
            if isinstance(n, ast.Call) and \
                    call_name(n) in ('self.cancel_task', 'sp.Popen',
                                     'subprocess.Popen'):
                return 'the result of %s' % call_name(n)
    return None


def r07_6(prog, rep, rid='R07.6'):
    rep.rule(rid, 'once the process is spawned, every normal return of the '
             'launch has given the task to the watcher (cancel_task does not '
             'finish a task whose process already exited)', minimum=1)
    popen = prog.cls(*POPEN)
    f = prog.method(POPEN[0], POPEN[1], '_launch_task')
    rep.saw(f)
    g = cfg_of(f)
    var = [p for p in f.params if p != 'self'][0]
    queues = _watch_queues(prog, popen)
    procs = [n.id for n in g.stmt_nodes() if n.kind == 'stmt' and
             isinstance(n.ast, ast.Assign) and any(
                 isinstance(t, ast.Subscript) and
                 isinstance(t.slice, ast.Constant) and t.slice.value == 'proc'
                 and root_name(t) == var for t in n.ast.targets)]
    if not procs:
        raise AnalysisError("UNRECOGNISED-IDIOM %s: task['proc'] is never "
                            'assigned' % f.where)
    puts = set()
    anyput = False
    values = _local_values(f.node)
    for n in g.stmt_nodes():
        for c in I.stmt_calls(n):
            if _queue_of(c, values) in queues:
                anyput = True
            if _is_watch_put(c, queues, var, values) or \
                    _callee_always_puts(prog, f, c, popen, queues, var):
                puts.add(n.id)
    if anyput and not puts:
        raise AnalysisError('UNRECOGNISED-IDIOM %s: something other than the '
                            'task parameter is put on %s'
                            % (f.where, sorted(queues)))
    # does cancel_task have a way to return without finishing the task?
    fc = prog.method(POPEN[0], POPEN[1], 'cancel_task')
    gc = cfg_of(fc)
    cvar = [p for p in fc.params if p != 'self'][0]
    exc = pair_states(prog, fc, gc, gc.entry.id, cvar)
    cancel_may_return_idle = any(
        t.node == gc.exit.id and t.state[:2] == (0, 0) for t in exc.terminals)
    arbs = _arbitration(prog, fc, gc)
    registry = arbs[0][4] if arbs else 'self._tasks'

    # paths entry -> spawn -> normal exit on which no put happens
    before = g.reachable(g.entry.id, skip_nodes=puts)
    starts = [e.dst for p in procs if p in before
              for e in g.succ[p] if e.label != 'exc']
    fwd = g.reachable(starts, skip_nodes=puts) if starts else set()
    if g.exit.id not in fwd:
        rep.ok(rid, f, 'every path from the spawn to a normal return of '
               '_launch_task puts the task on %s' % sorted(queues)[0], f.loc())
        return
    region = [n for n in fwd
              if g.exit.id in g.reachable(n, skip_nodes=puts)]
    for nid in region:
        n = g.nodes[nid]
        if n.kind == 'test':
            why = _knows_process_fate(n.ast, values, var, registry)
            if why:
                raise AnalysisError(
                    'UNRECOGNISED-IDIOM %s: a return without the watch-queue '
                    'put is guarded by `%s`, which reads %s: cannot decide '
                    'from the shape whether the task is finished on that '
                    'branch' % (f.where, short(n.ast, 50), why))
    via_cancel = [c for nid in region for c in I.stmt_calls(g.nodes[nid])
                  if call_name(c) == 'self.cancel_task']
    via_check = [c for nid in region for c in I.stmt_calls(g.nodes[nid])
                 if call_name(c) == 'self.is_canceled']
    if via_cancel and not cancel_may_return_idle:
        # a cancel_task that finishes the task on every path: the put-free
        # return after it is covered by R07.1 / R07.2, not by this rule
        others = g.reachable(starts, skip_nodes=puts | {
            nid for nid in region for c in I.stmt_calls(g.nodes[nid])
            if call_name(c) == 'self.cancel_task'})
        if g.exit.id not in others:
            rep.ok(rid, f, 'a return without the watch-queue put happens only '
                   'after cancel_task, which finishes the task on every path',
                   f.loc())
            return
        via_cancel = []
    if via_cancel:
        msg = ('Popen._launch_task can return after the spawn without putting '
               'the task on the watch queue: the path goes through `%s`, but '
               'Popen.cancel_task returns without finishing the task when the '
               'process has already exited ("already done" - it relies on the '
               'watcher). On that path nobody ever collects the task: no '
               'unschedule publication, no hand-on, the uid stays in %s'
               % (short(via_cancel[0], 40), registry))
        hist = ('a cancel request for the uid arrives after the intake filter '
                'but before task[\'proc\'] exists (control_cb -> cancel_task: '
                '"not started"); the process is spawned and exits at once '
                '(short task / failing launch script) before the late '
                'is_canceled() check; is_canceled() returns True and consumes '
                'the request, cancel_task() sees poll() is not None and '
                'returns; _launch_task returns without the watch-queue put: '
                'the task stays in AGENT_EXECUTING, its slots are never '
                'released')
    else:
        msg = ('Popen._launch_task can return after the spawn without putting '
               'the task on the watch queue%s: the watcher never learns about '
               'the process, so the task is never collected - no unschedule '
               'publication, no hand-on, the uid stays in %s'
               % (' (on a branch of the late is_canceled() check)'
                  if via_check else '', registry))
        hist = ('a task taking that branch is spawned and runs to completion; '
                '_check_running never sees it: it stays in AGENT_EXECUTING and '
                'its slots are never released')
    loc_node = via_cancel[0] if via_cancel else (
        via_check[0] if via_check else None)
    rep.bad(rid, f, 'spawned-but-not-watched', msg,
            f.loc(loc_node) if loc_node is not None else f.loc(), history=hist)


# ------------------------------------------------------------------------------
# R07.7  whoever takes a task out of the registry finishes it
#
# The registry decides who finishes a running task: the contender that removes
# the uid under the lock owns the task, the other one skips it ("not in
# self._tasks: nothing to do").  A return without finishing is fine before
# the removal (not started / already exited / arbitration lost) - after it
# nobody else will ever touch the task.
#
def _finish_list(f):
    """name of the list the watcher collects finished tasks in (the thing it
    hands on) and the calls appending to it"""
    lst = None
    for c in calls_in(f.node):
        if _is_hand(c) and isinstance(I.handon_thing(c), ast.Name):
            lst = I.handon_thing(c).id
    apps = [c for c in calls_in(f.node)
            if isinstance(c.func, ast.Attribute) and c.func.attr == 'append'
            and isinstance(c.func.value, ast.Name) and c.func.value.id == lst]
    return lst, apps


def _lost_edges(g, arbs):
    """the edges on which the arbitration is lost (uid not registered): with
    the atomic pop form the removal precedes its test, so these have to be
    cut explicitly"""
    return {(e.src, e.dst, e.label) for a in arbs for e in g.succ[a[2]]
            if e.label == a[3]}


def r07_7(prog, rep, rid='R07.7'):
    rep.rule(rid, 'after a contender has removed the uid from the registry '
             'under the lock (ownership taken), every normal way out finishes '
             'the task: cancel_task publishes + hands on, the watcher collects '
             'it for the bulk finish', minimum=2)
    popen = prog.cls(*POPEN)
    # (a) cancel_task
    f = prog.method(POPEN[0], POPEN[1], 'cancel_task')
    rep.saw(f)
    g = cfg_of(f)
    var = [p for p in f.params if p != 'self'][0]
    arbs = _arbitration(prog, f, g)
    if not arbs:
        raise AnalysisError('UNRECOGNISED-IDIOM %s: no locked test-and-remove '
                            'on the task registry (see R07.2)' % f.where)
    quiet = {(e.src, e.dst, e.label) for e in _noise_exc_edges(g)}
    quiet |= _lost_edges(g, arbs)
    cont = arbs[0][4]
    bad = None
    for did in sorted({a[5] for a in arbs}):
        ex = pair_states(prog, f, g, did, var, count_is_canceled=False,
                         skip=quiet)
        rep.stat('paths_enumerated', ex.states)
        for t in ex.terminals:
            if t.node != g.exit.id:
                continue
            p, h, ts = t.state
            if p == 0 or h == 0:
                bad = (ex, t, p, h)
    if bad:
        ex, t, p, h = bad
        lits = ex.literals(t)
        rep.bad(rid, f, 'cancel_task:owned-but-not-finished',
                'Popen.cancel_task can return after it has removed the uid '
                'from %s under the lock with %d unschedule publication(s) and '
                '%d hand-on(s)%s: it has won the arbitration, so the watcher '
                'skips the task ("not in %s: canceled before, nothing to '
                'do") - nobody ever finishes it, its cores are never released'
                % (cont, p, h, ' (path: %s)' % '; '.join(lits[-3:])
                   if lits else '', cont), f.loc(),
                history='cancel request (or run-time limit) for a running '
                'task: the first poll() says "alive", cancel_task takes the '
                'uid out of the registry; the process exits / the kill fails '
                'in that window and cancel_task returns early; _check_running '
                'sees the exit code but skips the uid: no unschedule '
                'publication, no hand-on, the task stays in AGENT_EXECUTING',
                path=lits[-6:])
    else:
        rep.ok(rid, f, 'Popen.cancel_task: every normal return after the '
               'removal from %s has published the unschedule request and '
               'handed the task on' % cont, f.loc())
    # (b) the watcher, per task
    f = prog.method(POPEN[0], POPEN[1], '_check_running')
    rep.saw(f)
    g = cfg_of(f)
    smap = I.stmt_node_map(g)
    arbs = _arbitration(prog, f, g)
    if not arbs:
        raise AnalysisError('UNRECOGNISED-IDIOM %s: no locked test-and-remove '
                            'on the task registry (see R07.2)' % f.where)
    lst, apps = _finish_list(f)
    if not apps:
        raise AnalysisError('UNRECOGNISED-IDIOM %s: finished tasks are not '
                            'collected into the list handed on' % f.where)
    appn = {smap[id(c)].id for c in apps}
    quiet = {(e.src, e.dst, e.label) for e in _noise_exc_edges(g)}
    quiet |= _lost_edges(g, arbs)
    cont = arbs[0][4]
    bad = None
    for did in sorted({a[5] for a in arbs}):
        dn = g.nodes[did]
        if not dn.loops:
            raise AnalysisError('UNRECOGNISED-IDIOM %s: the removal from %s '
                                'is not inside the per-task loop'
                                % (f.where, cont))
        start, stop, stop_edge = loop_slice(g, dn.loops[-1])

        def transfer(node, edge, st):
            if (edge.src, edge.dst, edge.label) in quiet:
                return None
            if edge.label != 'exc' and node.id in appn:
                return True
            return st
        ex = Exploration(g, did, False, transfer, stop=stop,
                         stop_edge=stop_edge)
        rep.stat('paths_enumerated', ex.states)
        for t in ex.terminals:
            if t.node == g.raise_.id:
                continue
            if not t.state:
                bad = (ex, t)
    if bad:
        ex, t = bad
        lits = ex.literals(t)
        rep.bad(rid, f, '_check_running:owned-but-not-collected',
                'Popen._check_running can leave the iteration for a task '
                'after it has removed the uid from %s under the lock without '
                'appending the task to %s%s: the watcher owns the task (cancel '
                'and timeout now skip it) but never publishes the unschedule '
                'request nor hands it on' % (
                    cont, lst, ' (path: %s)' % '; '.join(lits[-3:])
                    if lits else ''), f.loc(),
                history='a process exits: the watcher reaps it, drops it from '
                'its watch list and from the registry, and then skips it: the '
                'task stays in AGENT_EXECUTING and keeps its slots forever',
                path=lits[-6:])
    else:
        rep.ok(rid, f, 'Popen._check_running: every way out of the iteration '
               'after the removal from %s has collected the task in %s'
               % (cont, lst), f.loc())


def r07_5(prog, rep, rid='R07.5'):
    rep.rule(rid, 'the timeout watcher finishes tasks only through '
             'cancel_task (same arbitration)', minimum=1)
    base = prog.cls(*EBASE)
    f = prog.find_method(base, '_to_watcher')
    rep.saw(f)
    direct = [c for c in calls_in(f.node, nested=True)
              if _is_hand(c) or _is_unsched_pub(prog, f, c)]
    viac = [c for c in calls_in(f.node, nested=True)
            if call_name(c) == 'self.cancel_task']
    rep.check(not direct and bool(viac), rid, f, '_to_watcher only calls '
              'self.cancel_task', construct='timeout-via-cancel',
              message='the timeout watcher %s' % (
                  'finishes tasks itself (`%s`) instead of going through '
                  'cancel_task and its arbitration' % short(direct[0], 50)
                  if direct else 'never calls cancel_task: a run-time limit '
                  'has no effect'), loc=f.loc(),
              history='a task hits its timeout exactly when its process '
              'exits: it is finished by both the watcher and the timeout '
              'thread')


# ------------------------------------------------------------------------------
# R07.8  a thread that drains a shared list reads and resets it in ONE critical
#        section of the lock the other threads add under
#
# `_to_watcher` (run-time limits) and `NOOP._collect` (tasks to finish) run as
# threads of their own and take over what the intake thread / the control
# handler have added to a list on self: read all entries, then re-bind the
# attribute (to a fresh list / to what remains).  Whatever is added between the
# read and the reset is wiped unread - that task's run-time limit is never
# enforced resp. the task is never collected: it is left behind.  Necessary:
# the writers add under a lock L, the reset lies inside a `with L` region and
# on every path from the entry of that region to the reset the list was read
# (or the reset statement itself reads it: swap / filter form).
#
LMBASE = ('agent/launch_method/base.py', 'LaunchMethod')

_RESET_CALLS = ('clear',)


def _self_attr(e):
    """'X' for the expression `self.X`"""
    if isinstance(e, ast.Attribute) and isinstance(e.value, ast.Name) and \
            e.value.id == 'self':
        return e.attr
    return None


def _is_full_slice(e):
    return isinstance(e, ast.Subscript) and isinstance(e.slice, ast.Slice) \
        and e.slice.lower is None and e.slice.upper is None


def _thread_methods(K):
    """methods of class K which are started as a thread of their own:
    Thread(target=self.M) anywhere in K"""
    out = []
    for m in K.methods.values():
        for c in calls_in(m.node, nested=True):
            if call_name(c).split('.')[-1] not in ('Thread', 'Timer'):
                continue
            t = kwarg(c, 'target', pos=1)
            if call_name(c).split('.')[-1] == 'Timer':
                t = kwarg(c, 'function', pos=1)
            a = _self_attr(t) if t is not None else None
            if a and a in K.methods and a not in out:
                out.append(a)
    return out


def _own_closure(K, name):
    """names of the methods of K reached from K.name through self.<m>()"""
    seen, todo = [], [name]
    while todo:
        n = todo.pop()
        if n in seen:
            continue
        seen.append(n)
        for c in calls_in(K.methods[n].node, nested=True):
            a = _self_attr(c.func)
            if a and a in K.methods:
                todo.append(a)
    return seen


def _container_writes(f):
    """[(attr X, 'reset' | 'add', ast node of the write, statement reads X)]
    for the writes to a `self.X` in f: re-binding / clearing is a reset (a
    re-binding whose value reads self.X is both: `self.X = self.X + [t]`),
    in-place mutation an add"""
    out = []
    for kind, tgt, node in I.stores(f.node):
        x = _self_attr(tgt)
        if kind == 'assign' and x:
            reads = any(_self_attr(n) == x and isinstance(n.ctx, ast.Load)
                        for n in walk(node.value))
            out.append((x, 'reset', node, reads))
        elif kind == 'assign' and _is_full_slice(tgt) and \
                _self_attr(tgt.value):
            x = _self_attr(tgt.value)
            reads = any(_self_attr(n) == x and isinstance(n.ctx, ast.Load)
                        for n in walk(node.value))
            out.append((x, 'reset', node, reads))
        elif kind == 'del' and _is_full_slice(tgt) and _self_attr(tgt.value):
            out.append((_self_attr(tgt.value), 'reset', node, False))
        elif kind == 'mutate' and x and node.func.attr in _RESET_CALLS:
            out.append((x, 'reset', node, False))
        elif kind == 'mutate' and x:
            out.append((x, 'add', node, False))
        elif kind == 'aug' and x:
            out.append((x, 'add', node, False))
        elif kind in ('assign', 'aug', 'del') and \
                isinstance(tgt, ast.Subscript) and _self_attr(tgt.value):
            out.append((_self_attr(tgt.value), 'add', node, False))
    return out


def _locks_at(f, g, smap, node):
    """[(with ast, 'self.L')] for the `with self.L` regions of f around the
    ast node (innermost last); a local that only ever holds self.L counts"""
    n = smap.get(id(node))
    if n is None:
        return None
    once = _once_bound(f.node, f.params)
    out = []
    for w in n.withs:
        for i in w.items:
            e = _deref(i.context_expr, once)
            if _self_attr(e):
                out.append((w, 'self.' + _self_attr(e)))
    return out


def _caller_locks(K, prog, fname):
    """the locks every call `self.fname(..)` in K and its subclasses is made
    under (None: no call site, or one without any lock)"""
    common = None
    for cls in [K] + list(prog.subclasses(K)):
        for m in cls.methods.values():
            calls = [c for c in calls_in(m.node, nested=True)
                     if _self_attr(c.func) == fname]
            if not calls:
                continue
            g = cfg_of(m)
            smap = I.stmt_node_map(g)
            for c in calls:
                ls = _locks_at(m, g, smap, c)
                if not ls:
                    return None
                here = {l for w, l in ls}
                common = here if common is None else common & here
    return common or None


def _drain_sites(prog, K):
    """[(thread method, X, [(f, reset node, reads)], [(f, add node)])] for the
    lists on self which a thread method of K resets while other methods of K
    add to them"""
    out = []
    threads = _thread_methods(K)
    if not threads:
        raise AnalysisError('UNRECOGNISED-IDIOM %s: no method is started as '
                            'Thread(target=self.<m>)' % K.where)
    for tname in threads:
        clo = _own_closure(K, tname)
        resets, adds = {}, {}
        for name, f in K.methods.items():
            for x, kind, node, reads in _container_writes(f):
                if name in clo and kind == 'reset':
                    resets.setdefault(x, []).append((f, node, reads))
                elif name not in clo and (kind == 'add' or reads):
                    adds.setdefault(x, []).append((f, node))
        for x in sorted(resets):
            if x in adds:
                out.append((K.methods[tname], x, resets[x], adds[x]))
    return out


def r07_8(prog, rep, rid='R07.8', classes=(EBASE, NOOP)):
    rep.rule(rid, 'a list on self which a thread of the executor drains (read, '
             'then reset) while other threads add to it: the adds are made '
             'under one lock, and read and reset lie in one critical section '
             'of that lock', minimum=4)
    for anchor in classes:
        K = prog.cls(*anchor)
        sites = _drain_sites(prog, K)
        if not sites:
            raise AnalysisError('UNRECOGNISED-IDIOM %s: no list on self is '
                                'reset by a thread method and added to by '
                                'another method' % K.where)
        for tm, x, resets, adds in sites:
            cont = 'self.' + x
            # (a) the writers: every add under a lock, all the same one
            locks = {}
            for f, node in adds:
                rep.saw(f)
                g = cfg_of(f)
                ls = _locks_at(f, g, I.stmt_node_map(g), node)
                if ls is None:
                    raise AnalysisError('UNRECOGNISED-IDIOM %s: cannot place '
                                        '`%s`' % (f.where, short(node, 40)))
                held = {l for w, l in ls}
                if not held:
                    held = _caller_locks(K, prog, f.name) or set()
                locks[(f.qual, id(node))] = held
                rep.check(bool(held), rid, f, '%s: `%s` is executed under a '
                          'lock (%s)' % (f.qual, short(node, 40),
                                         ', '.join(sorted(held))),
                          construct='%s:add-unlocked' % cont,
                          message='%s: `%s` adds to %s without holding a lock, '
                          'while the thread %s reads and then resets that list '
                          'under its lock: an entry added between the read and '
                          'the reset is wiped unread' % (
                              f.qual, short(node, 50), cont, tm.qual),
                          loc=f.loc(node),
                          history='%s runs while %s is between its loop over '
                          '%s and the reset: the entry (run-time limit / task '
                          'to collect) is lost, the task is left behind'
                          % (f.qual, tm.qual, cont))
            common = None
            for held in locks.values():
                if held:
                    common = set(held) if common is None else common & held
            if common is None:
                continue            # reported above: no add holds any lock
            if not common:
                f, node = adds[0]
                rep.bad(rid, K, '%s:add-locks-differ' % cont,
                        '%s: the methods adding to %s do not hold a common '
                        'lock (%s): no lock the draining thread %s could take '
                        'excludes all of them' % (
                            K.name, cont, sorted(sorted(h) for h in
                                                 locks.values()), tm.qual),
                        f.loc(node),
                        history='an add under the other lock runs between '
                        'read and reset of %s: the entry is wiped unread'
                        % tm.qual)
                continue
            # (b) the drain: reset inside `with L`, read before it in there
            for f, node, selfread in resets:
                rep.saw(f)
                g = cfg_of(f)
                smap = I.stmt_node_map(g)
                wn = smap.get(id(node))
                ls = _locks_at(f, g, smap, node)
                if wn is None or ls is None:
                    raise AnalysisError('UNRECOGNISED-IDIOM %s: cannot place '
                                        '`%s`' % (f.where, short(node, 40)))
                mine = [w for w, l in ls if l in common]
                if not mine and f is not tm:
                    raise AnalysisError(
                        'UNRECOGNISED-IDIOM %s: %s is reset in a helper of the '
                        'thread method %s outside of any `with %s`: whether '
                        'the caller holds the lock and has read the list is '
                        'not decided here' % (f.where, cont, tm.qual,
                                              sorted(common)[0]))
                lock = sorted(common)[0]
                if not mine:
                    other = sorted({l for w, l in ls})
                    rep.bad(rid, f, '%s:reset-outside-lock' % cont,
                            '%s: `%s` is executed %s, but %s add(s) to %s '
                            'under %s: what is added after this thread has '
                            'read the list (and released the lock) and before '
                            'the reset is wiped without ever having been read'
                            % (f.qual, short(node, 50),
                               'under %s' % other[0] if other else
                               'outside of any critical section',
                               ', '.join(sorted({a.qual for a, n in adds})),
                               cont, lock), f.loc(node),
                            history='%s leaves `with %s` after its loop over '
                            '%s -> %s appends an entry -> the reset discards '
                            'it: the run-time limit of that task is never '
                            'enforced / the task is never collected, it is '
                            'never handed on and its slots are never released'
                            % (tm.qual, lock, cont, adds[0][0].qual))
                    continue
                w = mine[-1]
                wnode = [n for n in g.nodes if n.kind == 'with' and
                         n.ast is w][0]
                reads = set()
                for a in walk(f.node):
                    if _self_attr(a) == x and isinstance(a.ctx, ast.Load):
                        rn = smap.get(id(a))
                        if rn is not None and rn.id != wn.id and \
                                w in rn.withs:
                            reads.add(rn.id)
                okay = selfread or (bool(reads) and
                                    must_pass(g, wnode.id, wn.id, reads))
                rep.check(okay, rid, f, '%s: `%s` under %s is preceded by a '
                          'read of %s in the same critical section on every '
                          'path' % (f.qual, short(node, 40), lock, cont),
                          construct='%s:reset-without-read' % cont,
                          message='%s: `%s` is reached inside `with %s` '
                          'without %s having been read in that critical '
                          'section (the read happens outside of it or in '
                          'another one): entries added by %s since the read '
                          'are wiped unread' % (
                              f.qual, short(node, 50), lock, cont,
                              ', '.join(sorted({a.qual for a, n in adds}))),
                          loc=f.loc(node),
                          history='%s reads %s, releases %s; %s appends an '
                          'entry; %s takes the lock again and resets the '
                          'list: the task behind that entry is left behind'
                          % (tm.qual, cont, lock, adds[0][0].qual, tm.qual))


# ------------------------------------------------------------------------------
# R07.9  the launcher's cancel escalates to the signal that cannot be ignored
#
# Popen.cancel_task first takes the task out of the registry (the watcher will
# not finish it any more), asks the launcher to kill the process and then
# waits for the process WITHOUT a time limit before it publishes / hands on.
# A process that blocks or ignores the catchable signals therefore has to
# receive SIGKILL, or cancel_task never returns: the task is left behind and
# the calling thread (control handler, timeout watcher, intake) is stuck.
#
_SIGNUM = {9: 'SIGKILL', 15: 'SIGTERM', 2: 'SIGINT', 1: 'SIGHUP',
           3: 'SIGQUIT', 0: '0'}
_SEND = {'os.killpg': 1, 'os.kill': 1}


def _signal_name(e, once):
    e = _deref(e, once)
    if isinstance(e, ast.Attribute) and e.attr.startswith('SIG') and \
            dotted(e.value).split('.')[-1] in ('signal', 'Signals'):
        return e.attr
    if isinstance(e, ast.Name) and e.id.startswith('SIG') and e.id.isupper():
        return e.id
    if isinstance(e, ast.Constant) and type(e.value) is int:
        return _SIGNUM.get(e.value, str(e.value))
    return None


_NORMAL = {'next', 'T', 'F', 'iter', 'done'}


def _loop_signals(f, g, node, e, once):
    """the signals `for v in (<signal>, ...)` sends through a kill(.., v) in
    its body, provided every normal iteration passes that kill and the loop
    is left on normal paths only when it is exhausted (an OSError of the kill
    - process gone - may leave it); None if e is not such a loop variable"""
    if not isinstance(e, ast.Name):
        return None
    nstores = sum(1 for n in walk(f.node) if isinstance(n, ast.Name) and
                  n.id == e.id and isinstance(n.ctx, (ast.Store, ast.Del)))
    for hid in reversed(node.loops):
        h = g.nodes[hid]
        if h.kind != 'for' or not isinstance(h.ast.target, ast.Name) or \
                h.ast.target.id != e.id or nstores != 1 or \
                not isinstance(h.ast.iter, (ast.Tuple, ast.List)):
            continue
        names = [_signal_name(x, once) for x in h.ast.iter.elts]
        if not names or None in names:
            return None
        first = [x.dst for x in g.succ[hid] if x.label == 'iter']
        if hid in g.reachable(first, skip_nodes={node.id}, labels=_NORMAL):
            return None         # an iteration that does not send
        body = g.loop_body[hid] | {hid}
        if g.reachable(first, skip_nodes={hid}, labels=_NORMAL) - body:
            return None         # the loop is left early on a normal path
        return names
    return None


def _untimed_waits(f):
    return [c for c in calls_in(f.node)
            if isinstance(c.func, ast.Attribute) and c.func.attr == 'wait'
            and not c.args and kwarg(c, 'timeout') is None]


def _launcher_cancel_sites(prog):
    """(Popen.cancel_task, its cfg, statement map, the calls of the launcher's
    cancel_task(task, pid) in it, the untimed waits that follow them, the
    implementations of cancel_task(task, pid) in the launch methods)"""
    fc = prog.method(POPEN[0], POPEN[1], 'cancel_task')
    gc = cfg_of(fc)
    smap = I.stmt_node_map(gc)
    lcalls = [c for c in calls_in(fc.node)
              if isinstance(c.func, ast.Attribute) and
              c.func.attr == 'cancel_task' and _self_attr(c.func) is None
              and len(c.args) + len(c.keywords) == 2]
    if not lcalls:
        raise AnalysisError('UNRECOGNISED-IDIOM %s: no call of the '
                            'launcher\'s cancel_task(task, pid)' % fc.where)
    waits = [c for c in _untimed_waits(fc)
             if any(smap[id(c)].id in gc.reachable(smap[id(l)].id)
                    for l in lcalls)]
    lm = prog.cls(*LMBASE)
    impls = []
    for cls in [lm] + list(prog.subclasses(lm)):
        f = cls.methods.get('cancel_task')
        if f is not None and len([p for p in f.params if p != 'self']) == 2 \
                and f not in impls:
            impls.append(f)
    if not impls:
        raise AnalysisError('UNRECOGNISED-IDIOM %s: no cancel_task(task, pid)'
                            % lm.where)
    return fc, gc, smap, lcalls, waits, impls


def r07_9(prog, rep, rid='R07.9'):
    rep.rule(rid, 'cancel_task waits for the process without time limit after '
             'the launcher\'s cancel: every launcher cancel_task(task, pid) '
             'which signals the process ends, on every normal path, with the '
             'signal that cannot be caught or ignored (SIGKILL)', minimum=2)
    fc, gc, smap, lcalls, waits, impls = _launcher_cancel_sites(prog)
    rep.saw(fc)
    if not waits:
        raise AnalysisError('UNRECOGNISED-IDIOM %s: no wait() without time '
                            'limit follows the launcher\'s cancel_task: '
                            'whether the cancel path can block is not decided'
                            % fc.where)
    for f in impls:
        rep.saw(f)
        g = cfg_of(f)
        once = _once_bound(f.node, f.params)
        sends = []
        for n in g.nodes:
            # (a finally body exists once per way of entering it: every copy
            # of the statement is a send)
            if n.ast is None or n.kind in ('while', 'dispatch', 'handler'):
                continue
            for c in I.stmt_calls(n):
                if call_name(c) not in _SEND:
                    continue
                s = kwarg(c, 'sig', pos=_SEND[call_name(c)]) or \
                    kwarg(c, 'signal')
                name = _signal_name(s, once) if s is not None else None
                if name is None and s is not None:
                    names = _loop_signals(f, g, n, s, once)
                    if names is not None:
                        name = 'SIGKILL' if 'SIGKILL' in names else names[-1]
                if name is None:
                    raise AnalysisError(
                        'UNRECOGNISED-IDIOM %s: which signal `%s` sends is '
                        'not a constant here' % (f.where, short(c, 50)))
                sends.append((n.id, name, c))
        sends.sort(key=lambda t: (t[2].lineno, t[2].col_offset, t[0]))
        if not sends:
            raise AnalysisError('UNRECOGNISED-IDIOM %s: no os.kill / '
                                'os.killpg' % f.where)
        kills = {nid for nid, name, c in sends if name == 'SIGKILL'}
        weak = [(nid, name, c) for nid, name, c in sends
                if name not in ('SIGKILL', '0')]
        bad = None
        for nid, name, c in weak:
            if nid in kills:
                continue
            # normal continuations only: an OSError of kill / killpg means
            # the process (group) is gone already
            if not must_pass(g, nid, g.exit.id, kills, skip_exc=True):
                bad = (name, c)
        label = '%s.%s' % (f.cls.name if f.cls else '', f.name)
        if bad:
            name, c = bad
            rep.bad(rid, f, 'no-sigkill-after:%s' % name,
                    '%s: after `%s` a normal return is reached without '
                    'SIGKILL being sent (signals sent: %s). %s can be caught, '
                    'blocked or ignored by the task; Popen.cancel_task has '
                    'removed the uid from the registry before and then blocks '
                    'in `%s` until the process ends: it never publishes the '
                    'unschedule request nor hands the task on'
                    % (label, short(c, 50),
                       ', '.join(n for i, n, x in sends), name,
                       short(waits[0], 30)), f.loc(c),
                    history="cancel request or run-time limit for a task "
                    "whose process ignores %s (sh -c 'trap \"\" TERM; ...'): "
                    "the process survives, cancel_task never returns - no "
                    "hand-on, no release, the calling thread is stuck" % name)
        else:
            rep.ok(rid, f, '%s: every normal path after a catchable signal '
                   'sends SIGKILL (%s)' % (label, ', '.join(
                       n for i, n, x in sends)), f.loc())


# ------------------------------------------------------------------------------
# R07.10  a finishing hand-on really hands the task on
#
# `advance(things, state, publish, push)` announces the state when `publish`
# is set and puts the things on the output queue of that state only when
# `push` is set (default: False).  For FAILED / CANCELED the component base
# class forces publish=True, push=False (the client takes over).  For every
# other state a finishing region hands a task on with, the push is the
# hand-on: announced but not pushed, the task is in nobody's hands - the
# executor has dropped it from its registry, output staging never sees it.
#
_HAND_POS = {'things': 0, 'tasks': 0, 'state': 1, 'publish': 2, 'push': 3}


def _param_default(callee, name):
    a = callee.node.args
    pos = list(a.posonlyargs) + list(a.args)
    dfl = [None] * (len(pos) - len(a.defaults)) + list(a.defaults)
    for p, d in zip(pos, dfl):
        if p.arg == name:
            return d
    for p, d in zip(a.kwonlyargs, a.kw_defaults):
        if p.arg == name:
            return d
    return None


def _bound(prog, f, call, name, cls=None):
    """the expression the parameter `name` of the hand-on `call` receives: by
    keyword, by position (parameter list of the resolved callee) or from the
    callee's default; None if nothing is bound to it"""
    if any(isinstance(a, ast.Starred) for a in call.args) or \
            any(k.arg is None for k in call.keywords):
        raise AnalysisError('UNRECOGNISED-IDIOM %s: `%s` passes its arguments '
                            'through * / **' % (f.where, short(call, 50)))
    for k in call.keywords:
        if k.arg == name:
            return k.value
    callee = prog.resolve_call(f, call, cls)
    if callee is not None and name in callee.params:
        a = callee.node.args
        pos = [x.arg for x in list(a.posonlyargs) + list(a.args)]
        if pos and pos[0] in ('self', 'cls'):
            pos = pos[1:]
        if name in pos and pos.index(name) < len(call.args):
            return call.args[pos.index(name)]
        return _param_default(callee, name)
    if name in _HAND_POS and _HAND_POS[name] < len(call.args):
        return call.args[_HAND_POS[name]]
    if name == 'push' and call_name(call) == 'self.advance':
        return ast.Constant(value=False)
    return None


def _flag_value(e, once):
    e = _deref(e, once)
    if isinstance(e, ast.Constant) and isinstance(e.value, bool):
        return e.value
    return UNKNOWN


_FINISH_SITES = ((POPEN, 'cancel_task', True), (POPEN, '_check_running', True),
                 (POPEN, 'work', False), (NOOP, '_collect', True),
                 (NOOP, 'work', False))


def r07_10(prog, rep, rid='R07.10'):
    rep.rule(rid, 'every hand-on of a finishing region to a state other than '
             'FAILED / CANCELED pushes the task (push=True reaches advance): '
             'announcing the state without the push leaves the task with '
             'nobody; the executors\' wrapper advance_tasks forwards its state '
             'and its push request', minimum=6)
    own = prog.const('states.py', 'AGENT_EXECUTING')
    forced = (prog.const('states.py', 'FAILED'),
              prog.const('states.py', 'CANCELED'))
    for anchor, mname, needed in _FINISH_SITES:
        K = prog.cls(*anchor)
        f = prog.find_method(K, mname)
        rep.saw(f)
        once = _once_bound(f.node, f.params)
        label = '%s.%s' % (K.name, mname)
        seen = 0
        for c in calls_in(f.node):
            if not _is_hand(c):
                continue
            se = _bound(prog, f, c, 'state', K)
            sv = prog.fold(f.module, _deref(se, once), f.cls) \
                if se is not None else None
            if not isinstance(sv, str):
                raise AnalysisError('UNRECOGNISED-IDIOM %s: the state `%s` '
                                    'hands on to is not a constant'
                                    % (f.where, short(c, 50)))
            if sv == own or sv in forced:
                continue
            seen += 1
            pe = _bound(prog, f, c, 'push', K)
            pv = _flag_value(pe, once) if pe is not None else UNKNOWN
            if pv is UNKNOWN:
                raise AnalysisError('UNRECOGNISED-IDIOM %s: the push flag of '
                                    '`%s` is not a constant'
                                    % (f.where, short(c, 50)))
            rep.check(pv is True, rid, f, '%s: the hand-on to %s pushes the '
                      'task(s)' % (label, sv),
                      construct='%s:%s:not-pushed' % (label, sv),
                      message='%s: `%s` announces %s but does not push (push=%s '
                      'reaches advance%s): the task has left the executor - '
                      'its uid is out of the registry, its resources are '
                      'released - but it is never put on the queue of the '
                      'next component, so it never reaches a final state'
                      % (label, short(c, 70), sv, pv,
                         ', the default' if kwarg(c, 'push') is None and
                         len(c.args) < 4 else ''), loc=f.loc(c),
                      history='%s: the task is announced as %s and then sits '
                      'nowhere: output staging never sees it, the client '
                      'waits forever' % (
                          'cancel request, run-time limit or late cancel for '
                          'a running task' if mname == 'cancel_task' else
                          'a task process exits' if K.name == 'Popen' else
                          'a NOOP task reaches its deadline', sv))
        if needed and not seen:
            raise AnalysisError('UNRECOGNISED-IDIOM %s: no hand-on to a '
                                'non-final state in this finishing region'
                                % f.where)
    # the wrapper: what the executors ask for is what reaches advance
    base = prog.cls(*EBASE)
    f = prog.find_method(base, 'advance_tasks')
    rep.saw(f)
    once = _once_bound(f.node, f.params)
    if 'state' not in f.params or 'push' not in f.params:
        raise AnalysisError('UNRECOGNISED-IDIOM %s: no state / push parameter'
                            % f.where)
    rebound = {n.id for n in walk(f.node) if isinstance(n, ast.Name) and
               isinstance(n.ctx, (ast.Store, ast.Del))}
    if rebound & {'state', 'push'}:
        raise AnalysisError('UNRECOGNISED-IDIOM %s: state / push re-bound'
                            % f.where)
    hands = [c for c in calls_in(f.node) if _is_hand(c)]
    if not hands:
        raise AnalysisError('UNRECOGNISED-IDIOM %s: no hand-on' % f.where)
    forwards = 0
    for c in hands:
        se = _bound(prog, f, c, 'state', base)
        se = _deref(se, once) if se is not None else None
        pe = _bound(prog, f, c, 'push', base)
        pe = _deref(pe, once) if pe is not None else None
        st_ok = isinstance(se, ast.Name) and se.id == 'state'
        fw = isinstance(pe, ast.Name) and pe.id == 'push'
        off = isinstance(pe, ast.Constant) and pe.value is False
        forwards += 1 if fw else 0
        rep.check(st_ok and (fw or off), rid, f, 'advance_tasks: `%s` forwards '
                  'the requested state, and the push request or no push'
                  % short(c, 40),
                  construct='advance_tasks:%s' % (
                      'state-not-forwarded' if not st_ok else
                      'push-not-forwarded'),
                  message='AgentExecutingComponent.advance_tasks: `%s` passes '
                  '%s to advance: %s' % (
                      short(c, 70),
                      'state=%s' % (unparse(se) if se is not None else 'None')
                      if not st_ok else
                      'push=%s' % (unparse(pe) if pe is not None else 'None'),
                      'the tasks of that bucket are not advanced to the state '
                      'the executor asked for' if not st_ok else
                      'the tasks of that bucket are pushed although the '
                      'executor did not ask for it (AGENT_EXECUTING is '
                      'announced with push=False): they are handed on while '
                      'they run, and again when they finish'),
                  loc=f.loc(c),
                  history='a task of that origin is started / finishes in the '
                  'NOOP or Popen executor')
    rep.check(forwards > 0, rid, f, 'advance_tasks: the push request reaches '
              'advance for at least one bucket',
              construct='advance_tasks:push-dropped',
              message='AgentExecutingComponent.advance_tasks: no hand-on '
              'forwards the `push` parameter: a finishing hand-on through the '
              'wrapper (NOOP._collect) announces the tasks but never pushes '
              'them to output staging', loc=f.loc(),
              history='a NOOP task reaches its deadline: announced as '
              'AGENT_STAGING_OUTPUT_PENDING, never pushed')


# ------------------------------------------------------------------------------
# R07.11  every round of the watcher polls the running tasks
#
# A spawned task is finished by the watcher thread only: `_watch` moves what
# arrived on the watch queue into its list and `_check_running` polls every
# process on that list.  Nothing wakes the watcher when a process exits, so a
# round that skips the poll (no new task arrived, "nothing to do") is a round
# in which an exited process is not collected - and when no further task
# arrives, it never is.
#
def _collecting_nodes(prog, f, g, target, cls, depth=2):
    """cfg nodes of f with a self call that resolves to `target`, or to a
    method on whose every path to a normal return such a call lies"""
    out = set()
    for n in g.nodes:
        if n.ast is None:
            continue
        for c in I.stmt_calls(n):
            if _self_attr(c.func) is None:
                continue
            callee = prog.resolve_call(f, c, cls)
            if callee is None or callee is f:
                continue
            if callee is target:
                out.add(n.id)
            elif depth:
                cg = cfg_of(callee)
                inner = _collecting_nodes(prog, callee, cg, target, cls,
                                          depth - 1)
                if inner and must_pass(cg, cg.entry.id, cg.exit.id, inner):
                    out.add(n.id)
    return out


def _reads_self(prog, cls, e, once):
    """e reads an attribute of the component (`self._term...`), not merely
    the result of one of its own methods"""
    for x in _expanded_once(e, once):
        for n in walk(x, nested=True):
            a = _self_attr(n)
            if a and prog.find_method(cls, a) is None:
                return True
    return False


def _expanded_once(e, once):
    """e and the values of the once-bound locals it reads (transitively)"""
    out, todo, seen = [], [e], set()
    while todo:
        x = todo.pop()
        out.append(x)
        for n in walk(x, nested=True):
            if isinstance(n, ast.Name) and n.id in once and n.id not in seen:
                seen.add(n.id)
                todo.append(once[n.id][0])
    return out


def r07_11(prog, rep, rid='R07.11'):
    rep.rule(rid, 'the watcher thread polls the running tasks in every round: '
             'each iteration of its loop passes the call of _check_running, '
             'with a list that survives the round, and the loop is left only '
             'on a condition of the component (termination flag)', minimum=3)
    popen = prog.cls(*POPEN)
    f = prog.method(POPEN[0], POPEN[1], '_watch')
    target = prog.method(POPEN[0], POPEN[1], '_check_running')
    rep.saw(f)
    g = cfg_of(f)
    smap = I.stmt_node_map(g)
    once = _once_bound(f.node, f.params)
    coll = _collecting_nodes(prog, f, g, target, popen)
    hist = ('a task process is still running in the round in which the '
            'watcher takes the task from the watch queue, and no further task '
            'is launched afterwards: the exit of the process is never seen, '
            'the task stays in AGENT_EXECUTING and keeps its slots')
    if not coll:
        rep.bad(rid, f, '_watch:never-polls', 'Popen._watch never calls '
                '_check_running: no spawned task is ever collected', f.loc(),
                history=hist)
        return
    looped = [g.nodes[n] for n in coll if g.nodes[n].loops]
    if not looped:
        rep.bad(rid, f, '_watch:polls-once', 'Popen._watch calls '
                '_check_running outside of its loop: the running tasks are '
                'polled once, a process that exits later is never collected',
                f.loc(), history=hist)
        return
    head = looped[0].loops[0]
    body = g.loop_body[head]
    start, stop, stop_edge = loop_slice(g, head)
    # (a) must-pass per iteration (handler continuations included; what
    # leaves the loop through an exception ends the thread and is not an
    # iteration)
    free = g.reachable(start, skip_nodes=coll)
    skipped = head in free
    witness = ''
    if skipped:
        # a test of the round one side of which avoids the poll while the
        # other still reaches it
        def avoids(e):
            return e.dst == head or (e.dst not in coll and head in
                                     g.reachable(e.dst, skip_nodes=coll))
        for n in g.nodes:
            if n.kind != 'test' or n.id not in free or n.id not in body:
                continue
            br = [e for e in g.succ[n.id] if e.label in ('T', 'F')]
            av = [e for e in br if avoids(e)]
            if len(br) == 2 and len(av) == 1:
                witness = ' (when `%s` is %s)' % (
                    short(n.ast, 40),
                    'true' if av[0].label == 'T' else 'false')
    rep.check(not skipped, rid, f, 'every iteration of the watcher loop passes '
              '`%s`' % short(looped[0].ast, 40),
              construct='_watch:round-without-poll',
              message='Popen._watch: an iteration of the watcher loop can go '
              'back to the loop head without calling _check_running%s: in '
              'such a round no process is polled. Nothing but this loop ever '
              'looks at the running processes, so a task whose process exits '
              'after the last round that did poll is never collected - no '
              'unschedule publication, no hand-on' % witness,
              loc=f.loc(looped[0].ast), history=hist)
    # (b) the loop is left on a condition of the component only
    bad = None
    n_exits = 0
    for nid in sorted(body | {head}):
        for e in g.succ[nid]:
            if e.label == 'exc' or e.dst in body or e.dst == head:
                continue
            n_exits += 1
            tests = [(g.nodes[t].ast, lab) for t, lab in
                     guards(g, nid, start=start, within=body)]
            if g.nodes[nid].kind == 'test':
                tests.append((g.nodes[nid].ast, e.label))
            if not any(_reads_self(prog, popen, t, once) for t, lab in tests):
                bad = (g.nodes[nid], [
                    short(t, 40) if lab == 'T' else 'not (%s)' % short(t, 40)
                    for t, lab in tests])
    rep.check(bad is None, rid, f, 'the watcher loop is left only where a '
              'test on the component (termination flag) says so (%d exit(s))'
              % n_exits, construct='_watch:loop-left',
              message='Popen._watch leaves its loop %s: the watcher thread '
              'ends while tasks are still running (and while the component '
              'keeps launching tasks); none of them is ever collected'
              % ('when `%s`, a condition on what this round happened to find'
                 % bad[1][-1] if bad and bad[1] else
                 'unconditionally after the first round'),
              loc=f.loc(bad[0].ast) if bad and bad[0].ast is not None
              else f.loc(), history=hist)
    # (c) the list handed to the poll survives the round
    reb = None
    for n in looped:
        for c in I.stmt_calls(n):
            for a in list(c.args) + [k.value for k in c.keywords]:
                if not isinstance(a, ast.Name):
                    continue
                for m in g.stmt_nodes():
                    if m.id in body and m.kind == 'stmt' and \
                            isinstance(m.ast, ast.Assign) and any(
                                isinstance(t, ast.Name) and t.id == a.id
                                for t in m.ast.targets) and not any(
                                isinstance(x, ast.Name) and x.id == a.id
                                for x in walk(m.ast.value)):
                        reb = (a.id, m)
    rep.check(reb is None, rid, f, 'the list of watched tasks is not '
              're-created inside the watcher loop',
              construct='_watch:list-rebound',
              message='Popen._watch binds `%s` anew in every round (`%s`): '
              'the tasks taken from the watch queue in earlier rounds are '
              'forgotten; a task whose process outlives the round in which it '
              'was picked up is never polled again'
              % (reb[0] if reb else '', short(reb[1].ast, 50) if reb else ''),
              loc=f.loc(reb[1].ast) if reb else f.loc(), history=hist)


# ------------------------------------------------------------------------------
# R07.12  advance_tasks hands each task on once per addressee
#
# advance_tasks sorts the bulk into one bucket per addressee (client, raptor
# master, agent) and advances every bucket.  A task that is in a bucket twice,
# or a bucket that is advanced twice, is a second hand-on of the same task:
# two FAILED notifications, two result callbacks in the raptor master.  The
# function is evaluated for ONE task of the bulk over the finite domain
# (origin) x (tests on the task: free, but consistent) x (state constants it
# compares with).
#
def _empty_list(e):
    return (isinstance(e, ast.List) and not e.elts) or (
        isinstance(e, ast.Call) and isinstance(e.func, ast.Name) and
        e.func.id == 'list' and not e.args and not e.keywords)


class _Rename(ast.NodeTransformer):
    def __init__(self, names):
        self.names = names

    def visit_Name(self, n):
        if n.id in self.names:
            return ast.copy_location(ast.Name(id='_T_', ctx=n.ctx), n)
        return n


def _routing_model(prog, f, g):
    """(name of the bucket table, its keys, {loop head id: loop variable} for
    the loops over the bulk)"""
    once = _once_bound(f.node, f.params)
    params = [p for p in f.params if p != 'self']
    if not params:
        raise AnalysisError('UNRECOGNISED-IDIOM %s: no bulk parameter'
                            % f.where)
    bulk = params[0]
    table = keys = None
    for nm, (val, stmt) in sorted(once.items()):
        if isinstance(val, ast.Dict) and val.keys and all(
                isinstance(k, ast.Constant) and isinstance(k.value, str)
                for k in val.keys) and all(_empty_list(v) for v in val.values):
            if table is not None:
                raise AnalysisError('UNRECOGNISED-IDIOM %s: two bucket tables'
                                    % f.where)
            table, keys = nm, [k.value for k in val.keys]
    if table is None:
        raise AnalysisError('UNRECOGNISED-IDIOM %s: no table of per-addressee '
                            'buckets (literal dict of empty lists)' % f.where)

    def is_bulk(e, d=3):
        e = _deref(e, once)
        if isinstance(e, ast.Name):
            return e.id == bulk
        if isinstance(e, ast.Call) and len(e.args) == 1 and not e.keywords \
                and d:
            return is_bulk(e.args[0], d - 1)
        return False
    loops = {}
    for n in g.nodes:
        if n.kind == 'while':
            raise AnalysisError('UNRECOGNISED-IDIOM %s: while loop' % f.where)
        if n.kind != 'for':
            continue
        if not (is_bulk(n.ast.iter) and isinstance(n.ast.target, ast.Name)):
            raise AnalysisError('UNRECOGNISED-IDIOM %s: `for %s in %s` is not '
                                'a loop over the bulk' % (
                                    f.where, unparse(n.ast.target),
                                    short(n.ast.iter, 30)))
        loops[n.id] = n.ast.target.id
    if not loops:
        raise AnalysisError('UNRECOGNISED-IDIOM %s: no loop over the bulk'
                            % f.where)
    return once, bulk, table, keys, loops, is_bulk


def _is_state(e):
    return isinstance(e, ast.Name) and e.id == 'state'


def _routing_eval(prog, rep, f, g):
    """abstract evaluation of advance_tasks for ONE task of the bulk:
    (keys, idx, ofield, sconsts, run_one); run_one(origin, sval, strict) ->
    [(cnt per bucket, hands per bucket + whole bulk, true free tests)] for
    every consistent path to the exit.  strict: a test on the state parameter
    that cannot be decided is an AnalysisError instead of a free choice."""
    once, bulk, table, keys, loops, is_bulk = _routing_model(prog, f, g)
    idx = {k: i for i, k in enumerate(keys)}
    ALL = len(keys)                      # hand-on of the whole bulk
    ofield = []

    def var_at(node):
        for h in reversed(node.loops):
            if h in loops:
                return loops[h]
        return None

    def is_field(e, node):
        """'origin' for `<loop var>['origin']`"""
        e = _deref(e, once)
        v = var_at(node)
        if isinstance(e, ast.Subscript) and isinstance(e.value, ast.Name) \
                and e.value.id == v and v is not None and \
                isinstance(e.slice, ast.Constant) and \
                isinstance(e.slice.value, str):
            return e.slice.value
        return None

    def bkey(e, node):
        """index of the bucket `e` denotes for the task under evaluation
        ('O': the one of its origin); None if e is not a bucket"""
        e = _deref(e, once)
        if not (isinstance(e, ast.Subscript) and
                isinstance(e.value, ast.Name) and e.value.id == table):
            return None
        k = _deref(e.slice, once)
        if isinstance(k, ast.Constant) and k.value in idx:
            return idx[k.value]
        fld = is_field(k, node)
        if fld is not None:
            if fld not in ofield:
                ofield.append(fld)
            if len(ofield) > 1:
                raise AnalysisError('UNRECOGNISED-IDIOM %s: buckets selected '
                                    'by two task fields %s' % (f.where, ofield))
            return 'O'
        raise AnalysisError('UNRECOGNISED-IDIOM %s: bucket key `%s`'
                            % (f.where, short(e.slice, 30)))

    # the state constants the function compares its state parameter with
    sconsts = []
    for n in g.nodes:
        t = _deref(n.ast, once) if n.kind == 'test' else None
        if isinstance(t, ast.Compare) and len(t.ops) == 1:
            l, r = _deref(t.left, once), t.comparators[0]
            if isinstance(t.ops[0], (ast.Eq, ast.NotEq)) and \
                    _is_state(_deref(r, once)) and not _is_state(l):
                l, r = _deref(r, once), t.left
            if _is_state(l):
                v = prog.fold(f.module, r, f.cls)
                for x in (v if isinstance(v, (list, tuple)) else [v]):
                    if isinstance(x, str) and x not in sconsts:
                        sconsts.append(x)

    def run_one(origin, sval, strict=False):
        o = idx[origin]

        def K(k):
            return o if k == 'O' else k

        def decide(node):
            """True / False / None (free) / ('memo', text)"""
            e = _deref(node.ast, once)
            v = var_at(node)
            if isinstance(e, ast.Compare) and len(e.ops) == 1:
                op, l, r = e.ops[0], _deref(e.left, once), e.comparators[0]
                if isinstance(op, (ast.In, ast.NotIn)):
                    b = bkey(r, node)
                    if b is not None:
                        if not (isinstance(l, ast.Name) and l.id == v
                                and v is not None):
                            raise AnalysisError(
                                'UNRECOGNISED-IDIOM %s: membership of `%s` in '
                                'a bucket' % (f.where, short(l, 30)))
                        return ('in', K(b), isinstance(op, ast.In))
                if isinstance(op, (ast.Eq, ast.NotEq)) and \
                        _is_state(_deref(r, once)) and not _is_state(l):
                    l, r = _deref(r, once), e.left     # `CONST != state`
                if isinstance(op, (ast.Eq, ast.NotEq, ast.In, ast.NotIn)):
                    val = None
                    fld = is_field(l, node)
                    if fld is not None and ofield and fld == ofield[0]:
                        val = origin
                    elif _is_state(l):
                        val = sval
                    if val is not None:
                        c = prog.fold(f.module, r, f.cls)
                        if isinstance(op, (ast.Eq, ast.NotEq)) and \
                                isinstance(c, str):
                            return (val == c) == isinstance(op, ast.Eq)
                        if isinstance(op, (ast.In, ast.NotIn)) and \
                                isinstance(c, (list, tuple)) and \
                                all(isinstance(x, str) for x in c):
                            return (val in c) == isinstance(op, ast.In)
            b = bkey(e, node) if isinstance(e, ast.Subscript) or \
                isinstance(e, ast.Name) else None
            if b is not None:
                return ('truth', K(b))
            if strict and any(isinstance(x, ast.Name) and x.id == 'state'
                              for x in walk(e)):
                raise AnalysisError(
                    'UNRECOGNISED-IDIOM %s: the test `%s` on the state is not '
                    'a comparison with state constants' % (f.where,
                                                           short(e, 40)))
            txt = unparse(_Rename(set(loops.values())).visit(
                copy.deepcopy(e)))
            return ('memo', txt)

        def transfer(node, edge, st):
            cnt, hands, seen, memo = st
            if node.kind == 'for' and node.id in loops:
                if edge.label == 'iter':
                    if node.id in seen:
                        return None
                    return (cnt, hands, seen | {node.id}, memo)
                if edge.label == 'done' and node.id not in seen:
                    return None
                return st
            if edge.label == 'exc':
                return st
            if node.kind == 'test' and edge.label in ('T', 'F'):
                d = decide(node)
                want = edge.label == 'T'
                if d is True or d is False:
                    return st if d == want else None
                if d[0] == 'in':
                    present = cnt[d[1]] > 0
                    return st if (present == d[2]) == want else None
                if d[0] == 'truth':
                    if cnt[d[1]] > 0 and not want:
                        return None
                    return st
                if (d[1], not want) in memo:
                    return None
                return (cnt, hands, seen, memo | {(d[1], want)})
            if node.kind != 'stmt':
                return st
            a = node.ast
            v = var_at(node)
            cnt, hands = list(cnt), list(hands)
            if isinstance(a, (ast.Assign, ast.AugAssign, ast.Delete)):
                tgts = a.targets if not isinstance(a, ast.AugAssign) \
                    else [a.target]
                for t in tgts:
                    b = bkey(t, node) if isinstance(t, ast.Subscript) else None
                    if b is None:
                        continue
                    if isinstance(a, ast.AugAssign) and \
                            isinstance(a.op, ast.Add) and \
                            isinstance(a.value, ast.List) and all(
                                isinstance(x, ast.Name) for x in a.value.elts):
                        for x in a.value.elts:
                            if x.id == v and v is not None:
                                cnt[K(b)] = min(2, cnt[K(b)] + 1)
                    else:
                        raise AnalysisError(
                            'UNRECOGNISED-IDIOM %s: `%s` re-binds a bucket'
                            % (f.where, short(a, 40)))
            for c in calls_in(a):
                if isinstance(c.func, ast.Attribute) and \
                        c.func.attr in I.MUTATING:
                    b = bkey(c.func.value, node)
                    if b is not None:
                        if c.func.attr == 'append' and len(c.args) == 1 and \
                                isinstance(c.args[0], ast.Name) and \
                                c.args[0].id == v and v is not None:
                            cnt[K(b)] = min(2, cnt[K(b)] + 1)
                        else:
                            raise AnalysisError(
                                'UNRECOGNISED-IDIOM %s: `%s` changes a bucket'
                                % (f.where, short(c, 40)))
                if _is_hand(c):
                    th = I.handon_thing(c)
                    b = bkey(th, node) if th is not None else None
                    if b is not None:
                        hands[K(b)] = min(2, hands[K(b)] + cnt[K(b)])
                    elif th is not None and (is_bulk(th) or (
                            v is not None and _thing_name(th) == v)):
                        hands[ALL] = min(2, hands[ALL] + 1)
                    else:
                        raise AnalysisError(
                            'UNRECOGNISED-IDIOM %s: `%s` hands on something '
                            'that is neither a bucket nor the bulk'
                            % (f.where, short(c, 40)))
            return (tuple(cnt), tuple(hands), seen, memo)

        init = ((0,) * len(keys), (0,) * (len(keys) + 1), frozenset(),
                frozenset())
        ex = Exploration(g, g.entry.id, init, transfer)
        rep.stat('paths_enumerated', ex.states)
        out = []
        for t in ex.terminals:
            if t.node != g.exit.id:
                continue
            cnt, hands, seen, memo = t.state
            lits = [x for x, val in sorted(memo) if val]
            out.append((cnt, hands, lits))
        return out

    # a first pass fixes the field that selects the bucket (ofield)
    for n in g.nodes:
        if n.ast is None or n.kind in ('while', 'dispatch', 'handler', 'for',
                                       'with'):
            continue
        for x in walk(n.ast):
            if isinstance(x, ast.Subscript) and isinstance(x.value, ast.Name) \
                    and x.value.id == table:
                bkey(x, n)
    return keys, idx, ofield, sconsts, run_one


def r07_12(prog, rep, rid='R07.12'):
    rep.rule(rid, 'advance_tasks, evaluated for one task of the bulk over '
             'every origin and state: the task is put into each addressee\'s '
             'bucket at most once, each bucket is handed on at most once, and '
             'the bucket of the task\'s own origin is handed on', minimum=3)
    base = prog.cls(*EBASE)
    f = prog.find_method(base, 'advance_tasks')
    rep.saw(f)
    g = cfg_of(f)
    keys, idx, ofield, sconsts, run_one = _routing_eval(prog, rep, f, g)
    ALL = len(keys)
    for origin in keys:
        found = []
        o = idx[origin]
        for sval in sconsts + ['<any other state>']:
            for cnt, hands, lits in run_one(origin, sval):
                for k, i in idx.items():
                    if cnt[i] > 1:
                        found.append(('twice-in-bucket', k, lits, sval))
                    elif hands[i] > 1:
                        found.append(('bucket-handed-on-twice', k, lits, sval))
                if hands[o] + hands[ALL] == 0:
                    found.append(('own-bucket-not-handed-on', origin, lits,
                                  sval))
        if not found:
            rep.ok(rid, f, 'advance_tasks: a task of origin %r is in each '
                   'bucket at most once, each bucket is advanced at most once, '
                   'its own bucket is advanced' % origin, f.loc())
            continue
        kind, k, lits, sval = found[0]
        what = {'twice-in-bucket': 'puts the task into the bucket %r twice: '
                'advance() and the messages built from that bucket report the '
                'task twice' % k,
                'bucket-handed-on-twice': 'advances the bucket %r twice' % k,
                'own-bucket-not-handed-on': 'never advances the bucket %r the '
                'task was sorted into: the task is not handed on at all' % k,
                }[kind]
        rep.bad(rid, f, 'advance_tasks:%s' % kind,
                'AgentExecutingComponent.advance_tasks %s (task with %s == %r%s'
                ', state %s). The executors finish a task with ONE call of '
                'advance_tasks; what that call does per addressee is what the '
                'task\'s owner sees' % (
                    what, ofield[0] if ofield else 'origin', origin,
                    ''.join(' and `%s`' % x.replace('_T_', 'task')
                            for x in lits), sval), f.loc(),
                history='a task with %s=%r%s fails to launch in the Popen '
                'executor (or runs in the NOOP executor): advance_tasks(task, '
                'FAILED) %s' % (
                    ofield[0] if ofield else 'origin', origin,
                    ''.join(', ' + x.replace('_T_', 'task') for x in lits),
                    'announces FAILED twice for it - the raptor master\'s '
                    'result callback fires twice' if kind !=
                    'own-bucket-not-handed-on' else 'announces nothing'))


# ------------------------------------------------------------------------------
# R07.14  the start announcement reaches one addressee only
#
# work() announces the start of the bulk with ONE call of advance_tasks(tasks,
# AGENT_EXECUTING).  For the states that finish a task advance_tasks copies a
# task that is bound to a raptor master into the raptor bucket as well (the
# master wants the result); for the start announcement that copy is a second
# advance(AGENT_EXECUTING) of the same task: the start is announced twice.
# Necessary: evaluated for the state work() announces the start with, every
# consistent path of advance_tasks hands the task on through exactly one
# bucket, whatever its origin and whatever the free tests on the task say.
#
def _start_announcers(prog, st):
    """the calls of the executors' work() that announce the start state
    through advance_tasks"""
    out = []
    for anchor in (POPEN, NOOP):
        K = prog.cls(*anchor)
        f = prog.find_method(K, 'work')
        once = _once_bound(f.node, f.params)
        for c in calls_in(f.node):
            if call_name(c) != 'self.advance_tasks':
                continue
            se = _bound(prog, f, c, 'state', K)
            if se is None:
                continue
            if prog.fold(f.module, _deref(se, once), f.cls) == st:
                out.append((K, f, c))
    return out


def r07_14(prog, rep, rid='R07.14'):
    rep.rule(rid, 'advance_tasks, evaluated for the state work() announces the '
             'start with: a task of any origin is handed on through exactly '
             'one bucket (no copy for a second addressee)', minimum=3)
    st = prog.const('states.py', 'AGENT_EXECUTING')
    base = prog.cls(*EBASE)
    f = prog.find_method(base, 'advance_tasks')
    rep.saw(f)
    g = cfg_of(f)
    users = _start_announcers(prog, st)
    keys, idx, ofield, sconsts, run_one = _routing_eval(prog, rep, f, g)
    if not users:
        for origin in keys:
            rep.ok(rid, f, 'advance_tasks is not used for the start '
                   'announcement (origin %r)' % origin, f.loc())
        return
    who = ' / '.join('%s.work' % K.name for K, _, _ in users)
    for origin in keys:
        worst = None
        for cnt, hands, lits in run_one(origin, st, strict=True):
            n = sum(hands)
            if n > 1 and (worst is None or len(lits) < len(worst[1])):
                worst = (n, lits, [k for k, i in idx.items() if hands[i]])
        if worst is None:
            rep.ok(rid, f, 'advance_tasks(.., %s): a task of origin %r is '
                   'handed on through one bucket only' % (st, origin), f.loc())
            continue
        n, lits, through = worst
        cond = ''.join(' and `%s`' % x.replace('_T_', 'task') for x in lits)
        rep.bad(rid, f, 'advance_tasks:start-announced-twice',
                'AgentExecutingComponent.advance_tasks, called with state %s '
                '(the start announcement of %s), hands a task with %s == %r%s '
                'on %d times, through the buckets %s: advance(%s) runs twice '
                'for the same task - execution start is announced twice. Only '
                'the states that finish a task may copy it into a second '
                'addressee\'s bucket' % (
                    st, who, ofield[0] if ofield else 'origin', origin, cond,
                    n, through, st), f.loc(),
                history='a task with %s=%r%s is accepted by the Popen or NOOP '
                'executor: work() calls advance_tasks(tasks, %s) once, which '
                'calls advance() for %s: two %s notifications for the task'
                % (ofield[0] if ofield else 'origin', origin,
                   ''.join(', ' + x.replace('_T_', 'task') for x in lits), st,
                   ' and '.join('the %s bucket' % k for k in through), st))


# ------------------------------------------------------------------------------
# R07.13  an error of the kill does not escape once ownership was taken
#
# Popen.cancel_task removes the uid from the registry (the watcher will skip
# the task from now on) and then asks the launcher to signal the process
# group.  os.kill / os.killpg raise OSError: ESRCH when the group is gone
# already (ProcessLookupError), but also EPERM (PermissionError: a setuid
# launcher wrapper, a group that holds another user's process; on BSD / macOS
# a group of zombies).  An OSError that leaves the launcher's cancel_task
# leaves Popen.cancel_task between the removal and the finish: no unschedule
# publication, no hand-on, and nobody else will ever touch the task.
# Necessary: every signal sent after the removal lies in a `try` whose
# handlers catch OSError as a whole (or more) and do not raise again - in the
# launcher, or around the launcher call in Popen.cancel_task (where R07.7
# decides what the handler does next).
#
_OSERROR_UP = {'OSError', 'EnvironmentError', 'IOError', 'WindowsError',
               'Exception', 'BaseException', 'os.error', 'socket.error',
               'select.error'}


def _handler_types(f, h):
    if h.type is None:
        return [None]
    elts = h.type.elts if isinstance(h.type, ast.Tuple) else [h.type]
    out = []
    for e in elts:
        d = dotted(e)
        if not d:
            raise AnalysisError('UNRECOGNISED-IDIOM %s: handler type `%s`'
                                % (f.where, short(e, 30)))
        out.append(d)
    return out


def _catches_oserror(f, t):
    """(handler of the try statement `t` that takes an arbitrary OSError,
    whether it may raise again) or None.  Handlers are tried in order; a
    narrower one in front (ProcessLookupError) does not take EPERM"""
    for h in t.handlers:
        types = _handler_types(f, h)
        if any(x is None or x in _OSERROR_UP for x in types):
            again = any(isinstance(n, ast.Raise)
                        for s in h.body for n in walk(s))
            return h, again
    return None


def _oserror_escapes(f, node):
    """None if an OSError raised at cfg node `node` is caught inside f and
    not raised again; otherwise a description of the narrowest handler it
    passes"""
    seen = []
    for t in reversed(node.tries):
        r = _catches_oserror(f, t)
        if r is None:
            seen += ['except %s' % ', '.join(_handler_types(f, h)[:3])
                     for h in t.handlers if h.type is not None]
            continue
        h, again = r
        if not again:
            return None
        seen.append('except %s: ... raise' % ', '.join(
            str(x) for x in _handler_types(f, h)[:3]))
    return seen or ['no handler']


def r07_13(prog, rep, rid='R07.13'):
    rep.rule(rid, 'after cancel_task has taken the task out of the registry, '
             'an OSError of the launcher\'s kill (EPERM as well as ESRCH) '
             'cannot leave cancel_task before the task is finished: every '
             'os.kill / os.killpg of a launcher cancel_task(task, pid) is '
             'inside a handler for OSError as a whole', minimum=2)
    fc, gc, smap, lcalls, waits, impls = _launcher_cancel_sites(prog)
    rep.saw(fc)
    arbs = _arbitration(prog, fc, gc)
    if not arbs:
        raise AnalysisError('UNRECOGNISED-IDIOM %s: no locked test-and-remove '
                            'on the task registry (see R07.2)' % fc.where)
    cont = arbs[0][4]
    lost = _lost_edges(gc, arbs)
    owned = gc.reachable(sorted({a[5] for a in arbs}), skip_edges=lost)
    after = [c for c in lcalls if smap[id(c)].id in owned]
    guarded = all(_oserror_escapes(fc, smap[id(c)]) is None for c in after)
    for f in impls:
        rep.saw(f)
        g = cfg_of(f)
        label = '%s.%s' % (f.cls.name if f.cls else '', f.name)
        bad = None
        n_sends = 0
        for n in g.nodes:
            if n.ast is None or n.kind in ('while', 'dispatch', 'handler'):
                continue
            for c in I.stmt_calls(n):
                if call_name(c) not in _SEND:
                    continue
                n_sends += 1
                esc = _oserror_escapes(f, n)
                if esc is not None and bad is None:
                    bad = (c, esc)
        if not n_sends:
            raise AnalysisError('UNRECOGNISED-IDIOM %s: no os.kill / '
                                'os.killpg' % f.where)
        if not after or guarded or bad is None:
            rep.ok(rid, f, '%s: %s' % (label, 'the launcher is called before '
                   'the removal from %s: an error leaves the task to the '
                   'watcher' % cont if not after else 'Popen.cancel_task '
                   'catches OSError around the launcher call' if guarded and
                   bad is not None else 'every kill (%d) is inside a handler '
                   'that takes any OSError and does not raise again'
                   % n_sends), f.loc())
            continue
        c, esc = bad
        rep.bad(rid, f, 'kill-error-escapes',
                '%s: an OSError of `%s` other than what `%s` takes leaves '
                'this method (PermissionError / EPERM: the process group '
                'holds a process of another user - setuid launcher wrapper - '
                'or, on BSD / macOS, only zombies). Popen.cancel_task calls '
                'it after it has removed the uid from %s under the lock and '
                'does not catch the error: it is left between the removal '
                'and the finish - no unschedule publication, no hand-on - '
                'and the watcher skips the task ("not in %s: canceled '
                'before")' % (label, short(c, 50), '; '.join(esc), cont,
                              cont), f.loc(c),
                history='cancel request or run-time limit for a running task '
                'whose process group cannot be signalled: killpg raises '
                'PermissionError(EPERM); the exception propagates out of '
                'Popen.cancel_task into the control handler / timeout '
                'thread; the task stays in AGENT_EXECUTING, its slots are '
                'never released')


# ------------------------------------------------------------------------------
#
def run(prog, rep, tier):
    rep.decided = ('on every path of cancel_task, of one watcher iteration + '
        'bulk finish, of the per-task error handlers of Popen.work and '
        'NOOP.work, of NOOP._collect and of the late-cancel path of '
        '_launch_task: unschedule publications = hand-ons in {0, 1}, outcome '
        'recorded first; both contenders finish a task only after a locked '
        'test-and-remove on the same registry with the same lock; '
        'registration precedes launch; AGENT_EXECUTING announced once per '
        'bulk; process handle before watch queue and before the late cancel '
        'check; every normal return after the spawn has put the task on the '
        'queue the watcher drains; after the removal from the registry '
        'every normal way out of cancel_task / of the watcher iteration '
        'finishes / collects the task; the timeout watcher goes through '
        'cancel_task; the lists the timeout watcher and the NOOP collector '
        'drain are added to under one lock and read + reset in one critical '
        'section of it; every launcher cancel_task(task, pid) escalates to '
        'SIGKILL before cancel_task waits for the process; every finishing '
        'hand-on to a state other than FAILED / CANCELED pushes, and '
        'advance_tasks forwards state and push; every round of the watcher '
        'loop polls the running tasks; advance_tasks, evaluated per origin '
        'and state, puts a task into each bucket at most once and advances '
        'each bucket at most once, and for the start announcement hands it '
        'on through one bucket only; an OSError of the launcher\'s kill '
        'cannot leave cancel_task after the removal from the registry.')
    rep.undecided = ('real thread schedules (the argument is lock discipline '
        'plus single removal); Flux and Dragon executors are out of scope.')
    rep.assumptions = [
        'effect calls are atomic; _handle_task either raises or hands the '
        'task to the watcher',
        'BaseComponent.is_canceled hands on CANCELED exactly when it returns '
        'True',
        'AgentComponent.advance forces publish=True, push=False for FAILED '
        'and CANCELED (the client takes over); for every other state the '
        'push flag decides whether the task reaches the next component',
        'os.kill / os.killpg raise nothing but OSError (ESRCH, EPERM)',
    ]
    rep.attempt(r07_1, prog, rep)
    rep.attempt(r07_2, prog, rep)
    rep.attempt(r07_3, prog, rep)
    rep.attempt(r07_4, prog, rep)
    rep.attempt(r07_5, prog, rep)
    rep.attempt(r07_6, prog, rep)
    rep.attempt(r07_7, prog, rep)
    rep.attempt(r07_8, prog, rep)
    rep.attempt(r07_9, prog, rep)
    rep.attempt(r07_10, prog, rep)
    rep.attempt(r07_11, prog, rep)
    rep.attempt(r07_12, prog, rep)
    rep.attempt(r07_13, prog, rep)
    rep.attempt(r07_14, prog, rep)


# ------------------------------------------------------------------------------
_P = 'agent/executing/popen.py'
_N = 'agent/executing/noop.py'
_E = 'agent/executing/base.py'

_TAIL = "        self.handle_timeout(task)\n\n        # watch task for completion\n        self._watch_queue.put(task)\n\n        # now that the task cancellation cb would succeed, let's make sure that\n        # no cancellation request sneaked in before the task got started\n        if self.is_canceled(task) is True:\n            self.cancel_task(task)\n"

_KILL = "        launcher = self._rm.get_launcher(task['launcher_name'])\n        launcher.cancel_task(task, proc.pid)\n"
_LOCKC = '        with self._check_lock:\n            if tid not in self._tasks:\n                return\n'
_APP = "                tasks_to_advance.append(task)\n\n                self._prof.prof('unschedule_start', uid=tid)\n"

_L = 'agent/launch_method/base.py'
_S = 'agent/launch_method/srun.py'
_TOLOOP = "                for task, cancel_time, has_started in self._to_tasks:\n                    self._log.debug('to_watcher: %s, cancel_time=%s, has_started=%s',\n                                    task['uid'], cancel_time, has_started)\n                    tid = task['uid']\n                    if has_started or tid not in to_tasks:\n                        to_tasks[task['uid']] = [task, cancel_time]\n"
_TORESET = "                self._to_tasks = list()\n"
_TOADD = "            with self._to_lock:\n                cancel_time = time.time() + (startup_to or exec_to)\n                has_started = not bool(startup_to)\n                self._to_tasks.append([task, cancel_time, has_started])\n"
_TOADD2 = "                with self._to_lock:\n                    self._to_tasks.append([task, cancel_time, True])\n"
_NLOOP = "                for task in self._tasks:\n                    if task['deadline'] <= now: to_finish.append(task)\n                    else                      : to_continue.append(task)\n"
_NRESET = "                self._tasks = to_continue\n"
_NADD = "        with self._tasks_lock:\n            self._tasks.extend(to_collect)\n"
_KILL2 = "            try:\n                time.sleep(0.1)\n                os.killpg(pid, signal.SIGKILL)\n            except OSError:\n                pass\n"
_LMBODY = "        try:\n            self._log.debug('killing task %s (%d)', task['uid'], pid)\n            os.killpg(pid, signal.SIGTERM)\n\n            # also send a SIGKILL to drive the message home.\n            # NOTE: the `sleep` will limit the cancel throughput!\n            try:\n                time.sleep(0.1)\n                os.killpg(pid, signal.SIGKILL)\n            except OSError:\n                pass\n\n        except OSError:\n            # lost race: task is already gone, we ignore this\n            self._log.debug('task already gone: %s', task['uid'])\n"

_CADV = "        self.advance([task], rps.AGENT_STAGING_OUTPUT_PENDING,\n                             publish=True, push=True)\n"
_WADV = "            self.advance(tasks_to_advance, rps.AGENT_STAGING_OUTPUT_PENDING,\n                                           publish=True, push=True)\n"
_NADV = "            self.advance_tasks(to_finish, rps.AGENT_STAGING_OUTPUT_PENDING,\n                                          publish=True, push=True)\n"
_BCL = "            self.advance(buckets['client'], state=state,\n                                            publish=publish, push=push, ts=ts)\n"
_BRA = "            self.advance(buckets['raptor'], state=state,\n                                            publish=publish, push=False, ts=ts)\n"
_BAG = "            self.advance(buckets['agent'], state=state,\n                                            publish=publish, push=False, ts=ts)\n"
_WPOLL = "                # check on the known tasks.\n                self._check_running(to_watch)\n"
_WSLEEP = "                if not count:\n                    # no new tasks, no new state -- sleep a bit\n                    time.sleep(0.05)\n"
_WTAIL = _WPOLL + "\n" + _WSLEEP
_WCOUNT = "                MAX_QUEUE_BULKSIZE = 100\n                count = 0\n"
_WEMPTY = "                except queue.Empty:\n                    pass\n"
_WHEAD = "        try:\n            while not self._term.is_set():\n"
_FIRST = "        for task in ru.as_list(tasks):\n            buckets[task['origin']].append(task)\n"
_DEDUP = "                if task['description'].get('raptor_id'):\n                    if task not in buckets['raptor']:\n                        buckets['raptor'].append(task)\n"
_SECOND = "        if state != rps.AGENT_EXECUTING:\n            for task in ru.as_list(tasks):\n" + _DEDUP
_RSU = "            self.publish(rpc.STATE_PUBSUB, {'cmd': 'raptor_state_update',\n                                            'arg': buckets['raptor']})\n"
_PWERR = "                self.publish(rpc.AGENT_UNSCHEDULE_PUBSUB, task)\n\n                self.advance_tasks(task, rps.FAILED, publish=True, push=False)\n"
_WARB = "                with self._check_lock:\n                    if tid not in self._tasks:\n                        # task was canceled before, nothing to do\n                        continue\n                    try:\n                        del self._tasks[tid]\n                    except KeyError:\n                        pass\n"
_CARB = "        with self._check_lock:\n            if tid not in self._tasks:\n                return\n            try:\n                del self._tasks[tid]\n            except KeyError:\n                pass\n"
_NCOLL = "            with self._tasks_lock:\n\n                for task in self._tasks:\n                    if task['deadline'] <= now: to_finish.append(task)\n                    else                      : to_continue.append(task)\n\n                self._tasks = to_continue\n"
_GUARD = "        if state != rps.AGENT_EXECUTING:\n"
_LOOP2 = "        for task in ru.as_list(tasks):\n            if task['description'].get('raptor_id'):\n                if task not in buckets['raptor']:\n                    buckets['raptor'].append(task)\n"
_LMOUT = "        except OSError:\n            # lost race: task is already gone, we ignore this\n            self._log.debug('task already gone: %s', task['uid'])\n"
_GONE = "            self._log.debug('task already gone: %s', task['uid'])\n"

MUTATIONS = [
    dict(name='R07.1 cancel_task does not unschedule', rules=('R07.1',), edits=[
        (_P, "        self._prof.prof('unschedule_start', uid=tid)\n        self.publish(rpc.AGENT_UNSCHEDULE_PUBSUB, task)\n\n        self.advance([task]", "        self._prof.prof('unschedule_start', uid=tid)\n\n        self.advance([task]")]),
    dict(name='R07.1 cancel_task does not hand the task on', rules=('R07.1',), edits=[
        (_P, "        self.advance([task], rps.AGENT_STAGING_OUTPUT_PENDING,\n                             publish=True, push=True)\n", "")]),
    dict(name='R07.1 cancel_task forgets target_state', rules=('R07.1',), edits=[
        (_P, "        task['exit_code']    = None\n        task['target_state'] = rps.CANCELED\n", "        task['exit_code']    = None\n")]),
    dict(name='R07.1 already-exited process also unscheduled by cancel', rules=('R07.1',), edits=[
        (_P, "            self._log.debug('task %s is already done', tid)\n            return\n", "            self._log.debug('task %s is already done', tid)\n            self.publish(rpc.AGENT_UNSCHEDULE_PUBSUB, task)\n            return\n")]),
    dict(name='R07.1 watcher publishes unschedule per task and per bulk', rules=('R07.1',), edits=[
        (_P, "                tasks_to_advance.append(task)\n\n                self._prof.prof('unschedule_start', uid=tid)\n", "                tasks_to_advance.append(task)\n\n                self._prof.prof('unschedule_start', uid=tid)\n                self.publish(rpc.AGENT_UNSCHEDULE_PUBSUB, tasks_to_advance)\n")]),
    dict(name='R07.1 watcher: failed exit code without target_state', rules=('R07.1',), edits=[
        (_P, "                    task['exception_detail'] = 'exit code: %s' % exit_code\n                    task['target_state']     = rps.FAILED\n", "                    task['exception_detail'] = 'exit code: %s' % exit_code\n")]),
    dict(name='R07.1 watcher: bulk never unscheduled', rules=('R07.1',), edits=[
        (_P, "        self.publish(rpc.AGENT_UNSCHEDULE_PUBSUB, tasks_to_advance)\n\n        if tasks_to_advance:", "        if tasks_to_advance:")]),
    dict(name='R07.1 watcher: unschedules what it was given, not what finished', rules=('R07.1',), edits=[
        (_P, "        self.publish(rpc.AGENT_UNSCHEDULE_PUBSUB, tasks_to_advance)\n", "        self.publish(rpc.AGENT_UNSCHEDULE_PUBSUB, to_watch)\n")]),
    dict(name='R07.1 Popen.work error path does not unschedule', rules=('R07.1',), edits=[
        (_P, "                self._prof.prof('unschedule_start', uid=task['uid'])\n                self.publish(rpc.AGENT_UNSCHEDULE_PUBSUB, task)\n\n                self.advance_tasks(task, rps.FAILED", "                self._prof.prof('unschedule_start', uid=task['uid'])\n\n                self.advance_tasks(task, rps.FAILED")]),
    dict(name='R07.1 Popen.work error path only logs', rules=('R07.1',), edits=[
        (_P, "                self.advance_tasks(task, rps.FAILED, publish=True, push=False)\n", "")]),
    dict(name='R07.1 NOOP collects failed tasks again (F14 reverted)', rules=('R07.1',), edits=[
        (_N, "            self._tasks.extend(to_collect)", "            self._tasks.extend(tasks)")]),
    dict(name='R07.1 NOOP registers for collection before launching', rules=('R07.1',), edits=[
        (_N, "                self._handle_task(task)\n                to_collect.append(task)\n", "                to_collect.append(task)\n                self._handle_task(task)\n")]),
    dict(name='R07.1 NOOP collector hands on twice', rules=('R07.1',), edits=[
        (_N, "            self.publish(rpc.AGENT_UNSCHEDULE_PUBSUB, to_finish)\n", "            self.publish(rpc.AGENT_UNSCHEDULE_PUBSUB, to_finish)\n            self.publish(rpc.AGENT_UNSCHEDULE_PUBSUB, to_finish)\n")]),
    dict(name='R07.2 cancel_task without membership test', rules=('R07.2',), edits=[
        (_P, "        with self._check_lock:\n            if tid not in self._tasks:\n                return\n            try:\n                del self._tasks[tid]", "        with self._check_lock:\n            try:\n                del self._tasks[tid]")]),
    dict(name='R07.2 watcher membership polarity flipped', rules=('R07.2',), edits=[
        (_P, "                    if tid not in self._tasks:\n                        # task was canceled before, nothing to do\n                        continue\n", "                    if tid in self._tasks:\n                        continue\n")]),
    dict(name='R07.2 watcher does not remove the uid', rules=('R07.2',), edits=[
        (_P, "                        continue\n                    try:\n                        del self._tasks[tid]\n                    except KeyError:\n                        pass\n", "                        continue\n")]),
    dict(name='R07.2 watcher arbitrates without the lock', rules=('R07.2',), edits=[
        (_P, "                with self._check_lock:\n                    if tid not in self._tasks:\n                        # task was canceled", "                if True:\n                    if tid not in self._tasks:\n                        # task was canceled")]),
    dict(name='R07.2 cancel uses a different lock', rules=('R07.2',), edits=[
        (_P, "        with self._check_lock:\n            if tid not in self._tasks:\n                return\n", "        with self._to_lock:\n            if tid not in self._tasks:\n                return\n")]),
    dict(name='R07.2 watcher collects before arbitration', rules=('R07.2',), edits=[
        (_P, "                tasks_to_advance.append(task)\n\n                self._prof.prof('unschedule_start', uid=tid)\n", "                self._prof.prof('unschedule_start', uid=tid)\n"),
        (_P, "                with self._check_lock:\n                    if tid not in self._tasks:\n                        # task was canceled", "                tasks_to_advance.append(task)\n                with self._check_lock:\n                    if tid not in self._tasks:\n                        # task was canceled")]),
    dict(name='R07.2 task launched without registration', rules=('R07.2',), edits=[
        (_P, "                self._tasks.update({task['uid']: task})\n", "")]),
    dict(name='R07.3 AGENT_EXECUTING announced per task', rules=('R07.3',), edits=[
        (_P, "        self.advance_tasks(tasks, rps.AGENT_EXECUTING, publish=True, push=False)\n\n        for task in tasks:\n\n            try:\n                self._prof.prof('task_start', uid=task['uid'])\n                self._tasks.update", "        for task in tasks:\n\n            try:\n                self.advance_tasks(tasks, rps.AGENT_EXECUTING, publish=True, push=False)\n                self._prof.prof('task_start', uid=task['uid'])\n                self._tasks.update")]),
    dict(name='R07.3 NOOP never announces execution', rules=('R07.3',), edits=[
        (_N, "        self.advance_tasks(tasks, rps.AGENT_EXECUTING, publish=True, push=False)\n", "")]),
    dict(name='R07.4 task watched before it is spawned', rules=('R07.4',), edits=[
        (_P, "        self.handle_timeout(task)\n\n        # watch task for completion\n        self._watch_queue.put(task)\n", "        self.handle_timeout(task)\n"),
        (_P, "        self._prof.prof('task_run_start', uid=tid)\n", "        self._prof.prof('task_run_start', uid=tid)\n        self._watch_queue.put(task)\n")]),
    dict(name='R07.4 late cancel check removed', rules=('R07.4',), edits=[
        (_P, "        if self.is_canceled(task) is True:\n            self.cancel_task(task)\n", "")]),
    dict(name='R07.4 cancel check before the spawn', rules=('R07.4',), edits=[
        (_P, "        if self.is_canceled(task) is True:\n            self.cancel_task(task)\n", ""),
        (_P, "        self._prof.prof('task_run_start', uid=tid)\n", "        if self.is_canceled(task) is True:\n            self.cancel_task(task)\n        self._prof.prof('task_run_start', uid=tid)\n")]),
    dict(name='R07.6 late cancel check returns before the task is watched (C07-c)', rules=('R07.6',), edits=[
        (_P, _TAIL, "        if self.is_canceled(task) is True:\n            self.cancel_task(task)\n            return\n\n        self.handle_timeout(task)\n        self._watch_queue.put(task)\n")]),
    dict(name='R07.6 canceled tasks are not watched (if/else form)', rules=('R07.6',), edits=[
        (_P, _TAIL, "        if self.is_canceled(task) is True:\n            self.cancel_task(task)\n        else:\n            self.handle_timeout(task)\n            self._watch_queue.put(task)\n")]),
    dict(name='R07.6 return cancel_task(...) in front of the put', rules=('R07.6',), edits=[
        (_P, _TAIL, "        if self.is_canceled(task):\n            return self.cancel_task(task)\n        self._watch_queue.put(task)\n        self.handle_timeout(task)\n")]),
    dict(name='R07.6 only tasks with a run-time limit are watched', rules=('R07.6',), edits=[
        (_P, _TAIL, "        self.handle_timeout(task)\n\n        if task['description'].get('timeout'):\n            self._watch_queue.put(task)\n\n        if self.is_canceled(task) is True:\n            self.cancel_task(task)\n")]),
    dict(name='R07.6 extracted helper watches only when not canceled', rules=('R07.6',), edits=[
        (_P, _TAIL, "        self._watch_unless_canceled(task)\n\n    def _watch_unless_canceled(self, task):\n        if self.is_canceled(task) is True:\n            self.cancel_task(task)\n            return\n        self.handle_timeout(task)\n        self._watch_queue.put(task)\n")]),
    dict(name='R07.7 cancel_task re-polls after the removal and walks away (C03-f)', rules=('R07.7',), edits=[
        (_P, _KILL, "        if proc.poll() is not None:\n            self._log.debug('task %s completed before cancel', tid)\n            return\n\n" + _KILL)]),
    dict(name='R07.7 cancel_task gives up when the kill fails', rules=('R07.7',), edits=[
        (_P, _KILL, "        launcher = self._rm.get_launcher(task['launcher_name'])\n        try:\n            launcher.cancel_task(task, proc.pid)\n        except Exception:\n            self._log.exception('cancel failed')\n            return\n")]),
    dict(name='R07.7 cancel_task: no launcher, nothing to kill, return', rules=('R07.7',), edits=[
        (_P, _KILL, "        launcher = self._rm.get_launcher(task['launcher_name'])\n        if not launcher:\n            return\n        launcher.cancel_task(task, proc.pid)\n")]),
    dict(name='R07.7 watcher skips a task after taking it out of the registry', rules=('R07.7',), edits=[
        (_P, _APP, "                if task.get('target_state'):\n                    # outcome already decided elsewhere\n                    continue\n\n" + _APP)]),
    dict(name='R07.7 watcher collects only clean exits', rules=('R07.7',), edits=[
        (_P, _APP, "                if exit_code == 0:\n                    tasks_to_advance.append(task)\n\n                self._prof.prof('unschedule_start', uid=tid)\n")]),
    dict(name='R07.2 atomic pop form with flipped polarity in the watcher', rules=('R07.2',), edits=[
        (_P, "                with self._check_lock:\n                    if tid not in self._tasks:\n                        # task was canceled before, nothing to do\n                        continue\n                    try:\n                        del self._tasks[tid]\n                    except KeyError:\n                        pass\n", "                with self._check_lock:\n                    if self._tasks.pop(tid, None) is not None:\n                        continue\n")]),
    dict(name='R07.7 atomic pop form, cancel_task re-polls after it', rules=('R07.7',), edits=[
        (_P, "        with self._check_lock:\n            if tid not in self._tasks:\n                return\n            try:\n                del self._tasks[tid]\n            except KeyError:\n                pass\n", "        with self._check_lock:\n            if self._tasks.pop(tid, None) is None:\n                return\n        if proc.poll() is not None:\n            return\n")]),
    dict(name='R07.2 _disown() helper used with the wrong polarity by the watcher', rules=('R07.2',), edits=[
        (_P, "    def cancel_task(self, task):\n", "    def _disown(self, tid):\n        with self._check_lock:\n            return self._tasks.pop(tid, None) is not None\n\n    def cancel_task(self, task):\n"),
        (_P, "        with self._check_lock:\n            if tid not in self._tasks:\n                return\n            try:\n                del self._tasks[tid]\n            except KeyError:\n                pass\n", "        if not self._disown(tid):\n            return\n"),
        (_P, "                with self._check_lock:\n                    if tid not in self._tasks:\n                        # task was canceled before, nothing to do\n                        continue\n                    try:\n                        del self._tasks[tid]\n                    except KeyError:\n                        pass\n", "                if self._disown(tid):\n                    continue\n")]),
    dict(name='R07.7 _disown() helper, then cancel_task walks away', rules=('R07.7',), edits=[
        (_P, "    def cancel_task(self, task):\n", "    def _disown(self, tid):\n        with self._check_lock:\n            return self._tasks.pop(tid, None) is not None\n\n    def cancel_task(self, task):\n"),
        (_P, "        with self._check_lock:\n            if tid not in self._tasks:\n                return\n            try:\n                del self._tasks[tid]\n            except KeyError:\n                pass\n", "        if not self._disown(tid):\n            return\n        if proc.poll() is not None:\n            return\n"),
        (_P, "                with self._check_lock:\n                    if tid not in self._tasks:\n                        # task was canceled before, nothing to do\n                        continue\n                    try:\n                        del self._tasks[tid]\n                    except KeyError:\n                        pass\n", "                if not self._disown(tid):\n                    continue\n")]),
    dict(name='R07.2 _is_gone() helper used as if it meant "mine"', rules=('R07.2',), edits=[
        (_P, "    def cancel_task(self, task):\n", "    def _is_gone(self, tid):\n        with self._check_lock:\n            if tid in self._tasks:\n                self._tasks.pop(tid)\n                return False\n        return True\n\n    def cancel_task(self, task):\n"),
        (_P, "        with self._check_lock:\n            if tid not in self._tasks:\n                return\n            try:\n                del self._tasks[tid]\n            except KeyError:\n                pass\n", "        if self._is_gone(tid):\n            return\n"),
        (_P, "                with self._check_lock:\n                    if tid not in self._tasks:\n                        # task was canceled before, nothing to do\n                        continue\n                    try:\n                        del self._tasks[tid]\n                    except KeyError:\n                        pass\n", "                if not self._is_gone(tid):\n                    continue\n")]),
    dict(name='R07.2 helper removes the uid without the lock', rules=('R07.2',), edits=[
        (_P, "    def cancel_task(self, task):\n", "    def _disown_task(self, tid):\n        if True:\n            if tid not in self._tasks:\n                return False\n            try:\n                self._log.debug('disown %s', tid)\n                del self._tasks[tid]\n            except KeyError:\n                pass\n            return True\n\n    def cancel_task(self, task):\n"),
        (_P, "        with self._check_lock:\n            if tid not in self._tasks:\n                return\n            try:\n                del self._tasks[tid]\n            except KeyError:\n                pass\n", "        if not self._disown_task(tid):\n            return\n"),
        (_P, "                with self._check_lock:\n                    if tid not in self._tasks:\n                        # task was canceled before, nothing to do\n                        continue\n                    try:\n                        del self._tasks[tid]\n                    except KeyError:\n                        pass\n", "                if not self._disown_task(tid):\n                    continue\n")]),
    dict(name='R07.8 timeout registrations reset outside of the lock (C07-g4)', rules=('R07.8',), edits=[
        (_E, _TORESET, "            self._to_tasks = list()\n")]),
    dict(name='R07.8 NOOP collector re-binds its task list outside of the lock (C03-g6)', rules=('R07.8',), edits=[
        (_N, _NRESET, "            self._tasks = to_continue\n")]),
    dict(name='R07.8 timeout registrations read in one critical section, reset in a second one', rules=('R07.8',), edits=[
        (_E, _TORESET, "            with self._to_lock:\n                self._to_tasks = list()\n")]),
    dict(name='R07.8 timeout registrations cleared in place after the lock is released', rules=('R07.8',), edits=[
        (_E, _TORESET, "            del self._to_tasks[:]\n")]),
    dict(name='R07.8 timeout registrations read before the lock is taken', rules=('R07.8',), edits=[
        (_E, "            with self._to_lock:\n\n" + _TOLOOP + "\n" + _TORESET, "            if True:\n\n" + _TOLOOP + "\n            with self._to_lock:\n                self._to_tasks = list()\n")]),
    dict(name='R07.8 handle_timeout registers without the lock', rules=('R07.8',), edits=[
        (_E, _TOADD, "            if True:\n                cancel_time = time.time() + (startup_to or exec_to)\n                has_started = not bool(startup_to)\n                self._to_tasks.append([task, cancel_time, has_started])\n")]),
    dict(name='R07.8 NOOP.work hands the bulk to the collector without the lock', rules=('R07.8',), edits=[
        (_N, _NADD, "        self._tasks.extend(to_collect)\n")]),
    dict(name='R07.8 NOOP collector: snapshot under the lock, list re-bound later under the lock again', rules=('R07.8',), edits=[
        (_N, "            with self._tasks_lock:\n\n" + _NLOOP + "\n" + _NRESET, "            with self._tasks_lock:\n                current = list(self._tasks)\n\n            for task in current:\n                if task['deadline'] <= now: to_finish.append(task)\n                else                      : to_continue.append(task)\n\n            with self._tasks_lock:\n                self._tasks = to_continue\n")]),
    dict(name='R07.9 the launcher never sends SIGKILL (C07-g6)', rules=('R07.9',), edits=[
        (_L, "                os.killpg(pid, signal.SIGKILL)\n", "                os.killpg(pid, signal.SIGTERM)\n")]),
    dict(name='R07.9 srun launcher: third signal is SIGINT again', rules=('R07.9',), edits=[
        (_S, "                os.killpg(pid, signal.SIGKILL)\n", "                os.killpg(pid, signal.SIGINT)\n")]),
    dict(name='R07.9 escalation removed: SIGTERM only', rules=('R07.9',), edits=[
        (_L, _KILL2, "")]),
    dict(name='R07.9 SIGKILL only when SIGTERM could not be delivered', rules=('R07.9',), edits=[
        (_L, _LMBODY, "        try:\n            self._log.debug('killing task %s (%d)', task['uid'], pid)\n            os.killpg(pid, signal.SIGTERM)\n\n        except OSError:\n            try:\n                time.sleep(0.1)\n                os.killpg(pid, signal.SIGKILL)\n            except OSError:\n                pass\n")]),
    dict(name='R07.5 timeout watcher finishes the task itself', rules=('R07.5',), edits=[
        (_E, "                        self.cancel_task(task=task)\n", "                        self.publish(rpc.AGENT_UNSCHEDULE_PUBSUB, task)\n                        self.advance(task, rps.CANCELED, publish=True, push=False)\n")]),
    dict(name='R07.10 cancel_task: push=True dropped from the final advance (C07-h5)', rules=('R07.10',), edits=[
        (_P, _CADV, "        self.advance([task], rps.AGENT_STAGING_OUTPUT_PENDING, publish=True)\n")]),
    dict(name='R07.10 watcher announces the finished bulk with push=False', rules=('R07.10',), edits=[
        (_P, _WADV, "            self.advance(tasks_to_advance, rps.AGENT_STAGING_OUTPUT_PENDING,\n                                           publish=True, push=False)\n")]),
    dict(name='R07.10 NOOP collector: positional flags, the push one False', rules=('R07.10',), edits=[
        (_N, _NADV, "            self.advance_tasks(to_finish, rps.AGENT_STAGING_OUTPUT_PENDING,\n                               True, False)\n")]),
    dict(name='R07.10 advance_tasks: client bucket advanced without push=push', rules=('R07.10',), edits=[
        (_E, _BCL, "            self.advance(buckets['client'], state=state,\n                                            publish=publish, ts=ts)\n")]),
    dict(name='R07.10 advance_tasks: publish and push swapped positionally', rules=('R07.10',), edits=[
        (_E, _BCL, "            self.advance(buckets['client'], state, push, publish, ts=ts)\n")]),
    dict(name='R07.10 advance_tasks: agent bucket advanced without the state', rules=('R07.10',), edits=[
        (_E, _BAG, "            self.advance(buckets['agent'], publish=publish, push=False, ts=ts)\n")]),
    dict(name='R07.10 advance_tasks: raptor bucket always pushed', rules=('R07.10',), edits=[
        (_E, _BRA, "            self.advance(buckets['raptor'], state=state,\n                                            publish=publish, push=True, ts=ts)\n")]),
    dict(name='R07.11 nothing new -> sleep and continue before the poll (C07-h4)', rules=('R07.11',), edits=[
        (_P, _WTAIL, "                if not count:\n                    # no new tasks, no new state -- sleep a bit\n                    time.sleep(0.05)\n                    continue\n\n" + _WPOLL)]),
    dict(name='R07.11 running tasks polled only when a new task arrived (guard form)', rules=('R07.11',), edits=[
        (_P, _WPOLL, "                if count:\n                    self._check_running(to_watch)\n")]),
    dict(name='R07.11 watcher thread ends when nothing new arrived', rules=('R07.11',), edits=[
        (_P, _WSLEEP, "                if not count:\n                    break\n")]),
    dict(name='R07.11 watch list re-created in every round', rules=('R07.11',), edits=[
        (_P, _WCOUNT, _WCOUNT + "                to_watch = list()\n")]),
    dict(name='R07.11 empty queue: sleep and continue from the handler', rules=('R07.11',), edits=[
        (_P, _WEMPTY, "                except queue.Empty:\n                    if not count:\n                        time.sleep(0.05)\n                        continue\n")]),
    dict(name='R07.12 dedupe test looks into the client bucket (C07-h2)', rules=('R07.12',), edits=[
        (_E, _DEDUP, "                if task['description'].get('raptor_id'):\n                    if task not in buckets['client']:\n                        buckets['raptor'].append(task)\n")]),
    dict(name='R07.12 dedupe test removed', rules=('R07.12',), edits=[
        (_E, _DEDUP, "                if task['description'].get('raptor_id'):\n                    buckets['raptor'].append(task)\n")]),
    dict(name='R07.12 dedupe test with flipped polarity', rules=('R07.12',), edits=[
        (_E, _DEDUP, "                if task['description'].get('raptor_id'):\n                    if task in buckets['raptor']:\n                        buckets['raptor'].append(task)\n")]),
    dict(name='R07.12 agent branch copied from the client branch, bucket not adapted', rules=('R07.12',), edits=[
        (_E, _BAG, "            self.advance(buckets['client'], state=state,\n                                            publish=publish, push=False, ts=ts)\n")]),
    dict(name='R07.12 every task is also sorted into the client bucket', rules=('R07.12',), edits=[
        (_E, _FIRST, _FIRST + "            buckets['client'].append(task)\n")]),
    dict(name='R07.12 dedupe by origin, wrong origin', rules=('R07.12',), edits=[
        (_E, _DEDUP, "                if task['description'].get('raptor_id'):\n                    if task['origin'] != 'client':\n                        buckets['raptor'].append(task)\n")]),
    dict(name='R07.13 launcher: except OSError narrowed to ProcessLookupError (C07-h1)', rules=('R07.13',), edits=[
        (_L, _LMOUT, _LMOUT.replace('except OSError:', 'except ProcessLookupError:'))]),
    dict(name='R07.13 srun launcher: handler narrowed to ProcessLookupError', rules=('R07.13',), edits=[
        (_S, _LMOUT, _LMOUT.replace('except OSError:', 'except ProcessLookupError:'))]),
    dict(name='R07.13 launcher: tuple of narrow types', rules=('R07.13',), edits=[
        (_L, _LMOUT, _LMOUT.replace('except OSError:', 'except (ProcessLookupError, ChildProcessError):'))]),
    dict(name='R07.13 launcher: everything but ESRCH is raised again', rules=('R07.13',), edits=[
        (_L, _LMOUT, "        except OSError as e:\n            if e.errno != 3:\n                raise\n" + _GONE)]),
    dict(name='R07.1 Popen.work: FAILED advance gets the bulk instead of the task (C07-i1)', rules=('R07.1',), edits=[
        (_P, _PWERR, _PWERR.replace("advance_tasks(task,", "advance_tasks(tasks,"))]),
    dict(name='R07.1 NOOP.work: FAILED advance gets the bulk instead of the task', rules=('R07.1',), edits=[
        (_N, _PWERR, _PWERR.replace("advance_tasks(task,", "advance_tasks(tasks,"))]),
    dict(name='R07.1 Popen.work: a launch error unschedules the bulk instead of the task', rules=('R07.1',), edits=[
        (_P, _PWERR, _PWERR.replace("PUBSUB, task)", "PUBSUB, tasks)"))]),
    dict(name='R07.1 NOOP.work: a launch error unschedules the bulk instead of the task', rules=('R07.1',), edits=[
        (_N, _PWERR, _PWERR.replace("PUBSUB, task)", "PUBSUB, tasks)"))]),
    dict(name='R07.2 watcher: ownership test replaced by pop(tid, None), continue lost (C07-i4)', rules=('R07.2',), edits=[
        (_P, _WARB, "                with self._check_lock:\n                    # might have been canceled before\n                    self._tasks.pop(tid, None)\n")]),
    dict(name='R07.2 cancel_task: ownership test replaced by pop(tid, None), return lost', rules=('R07.2',), edits=[
        (_P, _CARB, "        with self._check_lock:\n            self._tasks.pop(tid, None)\n")]),
    dict(name='R07.2 watcher: result of the atomic pop is looked at but nothing follows from it', rules=('R07.2',), edits=[
        (_P, _WARB, "                with self._check_lock:\n                    gone = self._tasks.pop(tid, None)\n                if gone is None:\n                    pass\n")]),
    dict(name='R07.14 start guard of the raptor copy dropped, loop dedented (C07-i3)', rules=('R07.14',), edits=[
        (_E, _SECOND, _LOOP2)]),
    dict(name='R07.14 start guard with flipped polarity', rules=('R07.14',), edits=[
        (_E, _GUARD, "        if state == rps.AGENT_EXECUTING:\n")]),
    dict(name='R07.14 start guard compares with the wrong state constant', rules=('R07.14',), edits=[
        (_E, _GUARD, "        if state != rps.AGENT_EXECUTING_PENDING:\n")]),
    dict(name='R07.14 start guard weakened by `or publish`', rules=('R07.14',), edits=[
        (_E, _GUARD, "        if state != rps.AGENT_EXECUTING or publish:\n")]),
    dict(name='R07.14 start guard covers the dedupe test only', rules=('R07.14',), edits=[
        (_E, _SECOND, "        for task in ru.as_list(tasks):\n            if task['description'].get('raptor_id'):\n                if state != rps.AGENT_EXECUTING and task in buckets['raptor']:\n                    continue\n                if task['origin'] != 'raptor':\n                    buckets['raptor'].append(task)\n")]),
    dict(name='R07.14 raptor copy made in the sorting loop, which has no start guard', rules=('R07.14',), edits=[
        (_E, _FIRST + "\n        # we want any task which has a `raptor_id` set to show up in raptor's\n        # result callbacks\n" + _SECOND, _FIRST + "            if task['origin'] != 'raptor' and \\\n                    task['description'].get('raptor_id'):\n                buckets['raptor'].append(task)\n")]),
    dict(name='R07.14 start guard moved to the raptor_state_update message only', rules=('R07.14',), edits=[
        (_E, _SECOND, _LOOP2),
        (_E, _RSU, "            if state != rps.AGENT_EXECUTING:\n" + _RSU.replace('\n    ', '\n        ').replace('            self.publish', '                self.publish', 1))]),
]

SILENT = [
    dict(name='cancel_task arbitration with pop()', edits=[
        (_P, "            if tid not in self._tasks:\n                return\n            try:\n                del self._tasks[tid]\n            except KeyError:\n                pass\n\n        # task is still running", "            if tid not in self._tasks:\n                return\n            self._tasks.pop(tid)\n\n        # task is still running")]),
    dict(name='watcher membership test in positive form', edits=[
        (_P, "                    if tid not in self._tasks:\n                        # task was canceled before, nothing to do\n                        continue\n", "                    if tid in self._tasks:\n                        pass\n                    else:\n                        continue\n")]),
    dict(name='hand-on before unschedule in cancel_task', edits=[
        (_P, "        self.publish(rpc.AGENT_UNSCHEDULE_PUBSUB, task)\n\n        self.advance([task], rps.AGENT_STAGING_OUTPUT_PENDING,\n                             publish=True, push=True)\n", "        self.advance([task], rps.AGENT_STAGING_OUTPUT_PENDING,\n                             publish=True, push=True)\n        self.publish(rpc.AGENT_UNSCHEDULE_PUBSUB, task)\n")]),
    dict(name='watcher publishes only non-empty bulks', edits=[
        (_P, "        self.publish(rpc.AGENT_UNSCHEDULE_PUBSUB, tasks_to_advance)\n\n        if tasks_to_advance:\n", "        if tasks_to_advance:\n            self.publish(rpc.AGENT_UNSCHEDULE_PUBSUB, tasks_to_advance)\n")]),
    dict(name='exit code recorded once before the branch', edits=[
        (_P, "                    task['exit_code']    = exit_code\n                    task['target_state'] = rps.DONE\n", "                    task['target_state'] = rps.DONE\n"),
        (_P, "                    task['exit_code']        = exit_code\n                    task['exception']        = 'RuntimeError", "                    task['exception']        = 'RuntimeError"),
        (_P, "                self._prof.prof('unschedule_start', uid=tid)\n\n                if exit_code == 0:", "                self._prof.prof('unschedule_start', uid=tid)\n                task['exit_code'] = exit_code\n\n                if exit_code == 0:")]),
    dict(name='late cancel check without `is True`', edits=[
        (_P, "        if self.is_canceled(task) is True:\n            self.cancel_task(task)\n", "        if self.is_canceled(task):\n            self.cancel_task(task)\n")]),
    dict(name='late cancel check before the watch-queue put, falling through', edits=[
        (_P, _TAIL, "        if self.is_canceled(task) is True:\n            self.cancel_task(task)\n\n        self.handle_timeout(task)\n        self._watch_queue.put(task)\n")]),
    dict(name='late cancel check in early-return form after the put', edits=[
        (_P, _TAIL, "        self.handle_timeout(task)\n        self._watch_queue.put(task)\n\n        if self.is_canceled(task) is not True:\n            return\n        self.cancel_task(task)\n")]),
    dict(name='watch-queue put before the timeout registration', edits=[
        (_P, _TAIL, "        self._watch_queue.put(task)\n        self.handle_timeout(task)\n\n        if self.is_canceled(task) is True:\n            self.cancel_task(task)\n")]),
    dict(name='canceled branch watches, cancels and returns; put in both branches', edits=[
        (_P, _TAIL, "        if self.is_canceled(task) is True:\n            self._watch_queue.put(task)\n            self.cancel_task(task)\n            return\n\n        self.handle_timeout(task)\n        self._watch_queue.put(task)\n")]),
    dict(name='timeout registration and put extracted into a helper', edits=[
        (_P, _TAIL, "        self._start_watching(task)\n\n        if self.is_canceled(task) is True:\n            self.cancel_task(task)\n\n    def _start_watching(self, task):\n        self.handle_timeout(task)\n        self._watch_queue.put(task)\n")]),
    dict(name='watch queue cached in a local', edits=[
        (_P, _TAIL, "        wq = self._watch_queue\n        self.handle_timeout(task)\n        wq.put(task)\n\n        if self.is_canceled(task) is True:\n            self.cancel_task(task)\n")]),
    dict(name='log / profile lines inside both lock regions and around the removal', edits=[
        (_P, "        with self._check_lock:\n            if tid not in self._tasks:\n                return\n            try:\n                del self._tasks[tid]\n            except KeyError:\n                pass\n", "        with self._check_lock:\n            self._log.debug('cancel: arbitrate %s', tid)\n            if tid not in self._tasks:\n                self._log.debug('cancel: lost')\n                return\n            try:\n                self._prof.prof('cancel_disown', uid=tid)\n                del self._tasks[tid]\n            except KeyError:\n                self._log.debug('cancel: gone')\n                pass\n            self._log.debug('cancel: owns %s', tid)\n"),
        (_P, "                with self._check_lock:\n                    if tid not in self._tasks:\n                        # task was canceled before, nothing to do\n                        continue\n                    try:\n                        del self._tasks[tid]\n                    except KeyError:\n                        pass\n", "                with self._check_lock:\n                    self._log.debug('watch: arbitrate %s', tid)\n                    if tid not in self._tasks:\n                        self._log.debug('watch: lost')\n                        continue\n                    try:\n                        self._log.debug('watch: disown')\n                        del self._tasks[tid]\n                    except KeyError:\n                        self._prof.prof('watch_gone', uid=tid)\n                        pass\n                    self._log.debug('watch: owns %s', tid)\n")]),
    dict(name='second poll under the lock, before the removal', edits=[
        (_P, _LOCKC, "        with self._check_lock:\n            if proc.poll() is not None:\n                self._log.debug('task %s completed before cancel', tid)\n                return\n            if tid not in self._tasks:\n                return\n")]),
    dict(name='outcome recorded before the kill; watcher collects after recording the outcome', edits=[
        (_P, _KILL, "        task['exit_code']    = None\n        task['target_state'] = rps.CANCELED\n" + _KILL),
        (_P, "        task['exit_code']    = None\n        task['target_state'] = rps.CANCELED\n\n        self._prof.prof('task_run_cancel_stop', uid=tid)\n", "        self._prof.prof('task_run_cancel_stop', uid=tid)\n"),
        (_P, _APP, "                self._prof.prof('unschedule_start', uid=tid)\n"),
        (_P, "                    task['target_state']     = rps.FAILED\n", "                    task['target_state']     = rps.FAILED\n\n                tasks_to_advance.append(task)\n")]),
    dict(name='log lines after the removal, kill wrapped in try/finally', edits=[
        (_P, _KILL, "        self._log.debug('owning %s', tid)\n        launcher = self._rm.get_launcher(task['launcher_name'])\n        try:\n            launcher.cancel_task(task, proc.pid)\n        finally:\n            self._log.debug('kill sent to %s', tid)\n"),
        (_P, _APP, "                self._log.debug('collect %s', tid)\n" + _APP)]),
    dict(name='membership test hoisted into a local under the lock', edits=[
        (_P, _LOCKC, "        with self._check_lock:\n            gone = tid not in self._tasks\n            if gone:\n                return\n")]),
    dict(name='late cancel check hoisted into a local (bare call)', edits=[
        (_P, "        if self.is_canceled(task) is True:\n            self.cancel_task(task)\n", "        canceled = self.is_canceled(task)\n        if canceled is True:\n            self.cancel_task(task)\n")]),
    dict(name='late cancel check hoisted and negated, early return', edits=[
        (_P, "        if self.is_canceled(task) is True:\n            self.cancel_task(task)\n", "        canceled = self.is_canceled(task)\n        if not canceled:\n            return\n        self.cancel_task(task)\n")]),
    dict(name='atomic test-and-remove: pop(tid, None) under the lock in both contenders', edits=[
        (_P, "        with self._check_lock:\n            if tid not in self._tasks:\n                return\n            try:\n                del self._tasks[tid]\n            except KeyError:\n                pass\n", "        with self._check_lock:\n            if self._tasks.pop(tid, None) is None:\n                return\n"),
        (_P, "                with self._check_lock:\n                    if tid not in self._tasks:\n                        # task was canceled before, nothing to do\n                        continue\n                    try:\n                        del self._tasks[tid]\n                    except KeyError:\n                        pass\n", "                with self._check_lock:\n                    owned = self._tasks.pop(tid, None)\n                if not owned:\n                    continue\n")]),
    dict(name='ownership hand-over in a _disown() helper returning a bool', edits=[
        (_P, "    def cancel_task(self, task):\n", "    def _disown(self, tid):\n        with self._check_lock:\n            return self._tasks.pop(tid, None) is not None\n\n    def cancel_task(self, task):\n"),
        (_P, "        with self._check_lock:\n            if tid not in self._tasks:\n                return\n            try:\n                del self._tasks[tid]\n            except KeyError:\n                pass\n", "        if not self._disown(tid):\n            return\n"),
        (_P, "                with self._check_lock:\n                    if tid not in self._tasks:\n                        # task was canceled before, nothing to do\n                        continue\n                    try:\n                        del self._tasks[tid]\n                    except KeyError:\n                        pass\n", "                owned = self._disown(tid)\n                if not owned:\n                    continue\n")]),
    dict(name='helper with membership test + try/del, result in a local and compared with False', edits=[
        (_P, "    def cancel_task(self, task):\n", "    def _disown_task(self, tid):\n        with self._check_lock:\n            if tid not in self._tasks:\n                return False\n            try:\n                self._log.debug('disown %s', tid)\n                del self._tasks[tid]\n            except KeyError:\n                pass\n            return True\n\n    def cancel_task(self, task):\n"),
        (_P, "        with self._check_lock:\n            if tid not in self._tasks:\n                return\n            try:\n                del self._tasks[tid]\n            except KeyError:\n                pass\n", "        won = self._disown_task(tid)\n        if won is False:\n            return\n"),
        (_P, "                with self._check_lock:\n                    if tid not in self._tasks:\n                        # task was canceled before, nothing to do\n                        continue\n                    try:\n                        del self._tasks[tid]\n                    except KeyError:\n                        pass\n", "                if not self._disown_task(tid):\n                    continue\n")]),
    dict(name='helper that answers True when the arbitration is lost', edits=[
        (_P, "    def cancel_task(self, task):\n", "    def _is_gone(self, tid):\n        with self._check_lock:\n            if tid in self._tasks:\n                self._tasks.pop(tid)\n                return False\n        return True\n\n    def cancel_task(self, task):\n"),
        (_P, "        with self._check_lock:\n            if tid not in self._tasks:\n                return\n            try:\n                del self._tasks[tid]\n            except KeyError:\n                pass\n", "        if self._is_gone(tid):\n            return\n"),
        (_P, "                with self._check_lock:\n                    if tid not in self._tasks:\n                        # task was canceled before, nothing to do\n                        continue\n                    try:\n                        del self._tasks[tid]\n                    except KeyError:\n                        pass\n", "                gone = self._is_gone(tid)\n                if gone:\n                    continue\n")]),
    dict(name='timeout registrations swapped out under the lock, walked outside of it', edits=[
        (_E, "            with self._to_lock:\n\n" + _TOLOOP + "\n" + _TORESET, "            with self._to_lock:\n                pending = self._to_tasks\n                self._to_tasks = list()\n\n            if True:\n" + _TOLOOP.replace('in self._to_tasks:', 'in pending:'))]),
    dict(name='timeout registrations: tuple swap under the lock', edits=[
        (_E, "            with self._to_lock:\n\n" + _TOLOOP + "\n" + _TORESET, "            with self._to_lock:\n                pending, self._to_tasks = self._to_tasks, list()\n\n            if True:\n" + _TOLOOP.replace('in self._to_tasks:', 'in pending:'))]),
    dict(name='timeout registrations: copy then clear in place, lock held in a local', edits=[
        (_E, "            with self._to_lock:\n\n" + _TOLOOP + "\n" + _TORESET, "            lock = self._to_lock\n            with lock:\n                new = list(self._to_tasks)\n                self._log.debug('to_watcher: %d new', len(new))\n                del self._to_tasks[:]\n\n            if True:\n" + _TOLOOP.replace('in self._to_tasks:', 'in new:'))]),
    dict(name='timeout registration in a helper that takes the lock itself', edits=[
        (_E, _TOADD, "            cancel_time = time.time() + (startup_to or exec_to)\n            has_started = not bool(startup_to)\n            self._watch_timeout(task, cancel_time, has_started)\n\n    def _watch_timeout(self, task, cancel_time, has_started):\n        with self._to_lock:\n            self._to_tasks.append([task, cancel_time, has_started])\n"),
        (_E, _TOADD2, "                self._watch_timeout(task, cancel_time, True)\n")]),
    dict(name='timeout registration in a helper called with the lock held', edits=[
        (_E, _TOADD, "            with self._to_lock:\n                cancel_time = time.time() + (startup_to or exec_to)\n                has_started = not bool(startup_to)\n                self._watch_timeout([task, cancel_time, has_started])\n\n    def _watch_timeout(self, entry):\n        # caller holds self._to_lock\n        self._to_tasks.append(entry)\n"),
        (_E, _TOADD2, "                with self._to_lock:\n                    self._watch_timeout([task, cancel_time, True])\n")]),
    dict(name='timeout watcher: the drain in a method of its own', edits=[
        (_E, "            with self._to_lock:\n\n" + _TOLOOP + "\n" + _TORESET, "            self._take_registrations(to_tasks)\n"),
        (_E, "    def handle_timeout(self, task):\n", "    def _take_registrations(self, to_tasks):\n        with self._to_lock:\n            for task, cancel_time, has_started in self._to_tasks:\n                tid = task['uid']\n                if has_started or tid not in to_tasks:\n                    to_tasks[tid] = [task, cancel_time]\n            self._to_tasks = list()\n\n    def handle_timeout(self, task):\n")]),
    dict(name='NOOP collector: what remains is filtered in one statement under the lock', edits=[
        (_N, "            with self._tasks_lock:\n\n" + _NLOOP + "\n" + _NRESET, "            with self._tasks_lock:\n                for task in self._tasks:\n                    if task['deadline'] <= now:\n                        to_finish.append(task)\n                self._tasks = [t for t in self._tasks if t['deadline'] > now]\n")]),
    dict(name='NOOP collector: list re-bound first, the old one sorted afterwards, still under the lock', edits=[
        (_N, "            with self._tasks_lock:\n\n" + _NLOOP + "\n" + _NRESET, "            with self._tasks_lock:\n                current     = self._tasks\n                self._tasks = to_continue\n                for task in current:\n                    if task['deadline'] <= now: to_finish.append(task)\n                    else                      : to_continue.append(task)\n")]),
    dict(name='launcher: SIGTERM attempt returns when the group is gone, SIGKILL afterwards (C07-r4)', edits=[
        (_L, _LMBODY, "        try:\n            self._log.debug('killing task %s (%d)', task['uid'], pid)\n            os.killpg(pid, signal.SIGTERM)\n\n        except OSError:\n            self._log.debug('task already gone: %s', task['uid'])\n            return\n\n        try:\n            time.sleep(0.1)\n            os.killpg(pid, signal.SIGKILL)\n        except OSError:\n            pass\n")]),
    dict(name='launcher: the signals held in locals', edits=[
        (_L, _LMBODY, "        soft = signal.SIGTERM\n        hard = signal.SIGKILL\n        try:\n            self._log.debug('killing task %s (%d)', task['uid'], pid)\n            os.killpg(pid, soft)\n            time.sleep(0.1)\n            os.killpg(pid, hard)\n\n        except OSError:\n            self._log.debug('task already gone: %s', task['uid'])\n")]),
    dict(name='launcher: SIGKILL in a finally clause', edits=[
        (_L, _LMBODY, "        try:\n            try:\n                self._log.debug('killing task %s (%d)', task['uid'], pid)\n                os.killpg(pid, signal.SIGTERM)\n                time.sleep(0.1)\n            finally:\n                os.killpg(pid, signal.SIGKILL)\n\n        except OSError:\n            self._log.debug('task already gone: %s', task['uid'])\n")]),
    dict(name='launcher: one loop over the signals to send', edits=[
        (_L, _LMBODY, "        self._log.debug('killing task %s (%d)', task['uid'], pid)\n        for sig in (signal.SIGTERM, signal.SIGKILL):\n            try:\n                os.killpg(pid, sig)\n                time.sleep(0.1)\n            except OSError:\n                self._log.debug('task already gone: %s', task['uid'])\n                break\n")]),
    dict(name='atomic pop with a sentinel default', edits=[
        (_P, "        with self._check_lock:\n            if tid not in self._tasks:\n                return\n            try:\n                del self._tasks[tid]\n            except KeyError:\n                pass\n", "        with self._check_lock:\n            if self._tasks.pop(tid, _pids) is _pids:\n                return\n"),
        (_P, "                with self._check_lock:\n                    if tid not in self._tasks:\n                        # task was canceled before, nothing to do\n                        continue\n                    try:\n                        del self._tasks[tid]\n                    except KeyError:\n                        pass\n", "                with self._check_lock:\n                    mine = self._tasks.pop(tid, _pids)\n                    if mine is _pids:\n                        continue\n")]),
    dict(name='cancel_task hand-on with positional flags', edits=[
        (_P, _CADV, "        self.advance([task], rps.AGENT_STAGING_OUTPUT_PENDING, True, True)\n")]),
    dict(name='cancel_task: push flag and state in locals, keywords reordered', edits=[
        (_P, _CADV, "        do_push = True\n        pending = rps.AGENT_STAGING_OUTPUT_PENDING\n        self.advance(things=[task], push=do_push, publish=True, state=pending)\n")]),
    dict(name='watcher: early return for the empty bulk, keywords reordered', edits=[
        (_P, "        if tasks_to_advance:\n" + _WADV, "        if not tasks_to_advance:\n            return\n\n        self.advance(tasks_to_advance, push=True, publish=True,\n                     state=rps.AGENT_STAGING_OUTPUT_PENDING)\n")]),
    dict(name='advance_tasks forwards state / publish / push positionally', edits=[
        (_E, _BCL, "            self.advance(buckets['client'], state, publish, push, ts=ts)\n"),
        (_E, _BRA, "            self.advance(buckets['raptor'], state, publish, False, ts=ts)\n")]),
    dict(name='watcher loop: sleep in front of the poll, no continue', edits=[
        (_P, _WTAIL, _WSLEEP + "\n" + _WPOLL)]),
    dict(name='watcher loop: early-continue form after the poll', edits=[
        (_P, _WSLEEP, "                if count:\n                    continue\n\n                # no new tasks, no new state -- sleep a bit\n                time.sleep(0.05)\n")]),
    dict(name='watcher loop: while True with a break on the termination flag', edits=[
        (_P, _WHEAD, "        try:\n            while True:\n\n                if self._term.is_set():\n                    break\n")]),
    dict(name='watcher loop: termination flag cached in a local', edits=[
        (_P, _WHEAD, "        term = self._term\n        try:\n            while not term.is_set():\n")]),
    dict(name='watcher loop: poll and sleep of one round in a helper method', edits=[
        (_P, _WTAIL, "                self._poll(to_watch, count)\n"),
        (_P, "    def _check_running(self, to_watch):\n", "    def _poll(self, to_watch, idle):\n        # check on the known tasks.\n        self._check_running(to_watch)\n        if not idle:\n            time.sleep(0.05)\n\n    def _check_running(self, to_watch):\n")]),
    dict(name='advance_tasks: dedupe in early-continue form', edits=[
        (_E, _DEDUP, "                if not task['description'].get('raptor_id'):\n                    continue\n                if task in buckets['raptor']:\n                    continue\n                buckets['raptor'].append(task)\n")]),
    dict(name='advance_tasks: raptor bucket in a local, merged condition', edits=[
        (_E, _SECOND, "        to_raptor = buckets['raptor']\n        if state != rps.AGENT_EXECUTING:\n            for task in ru.as_list(tasks):\n                if task['description'].get('raptor_id') and \\\n                        task not in to_raptor:\n                    to_raptor.append(task)\n")]),
    dict(name='advance_tasks: dedupe decided by the origin instead of by membership', edits=[
        (_E, _DEDUP, "                if task['description'].get('raptor_id'):\n                    if task['origin'] != 'raptor':\n                        buckets['raptor'].append(task)\n")]),
    dict(name='advance_tasks: one loop over the bulk, bulk listed once', edits=[
        (_E, _FIRST + "\n        # we want any task which has a `raptor_id` set to show up in raptor's\n        # result callbacks\n" + _SECOND, "        bulk = ru.as_list(tasks)\n        for t in bulk:\n            buckets[t['origin']].append(t)\n\n        for t in bulk:\n            if state == rps.AGENT_EXECUTING:\n                break\n            if t['description'].get('raptor_id') and \\\n                    t not in buckets['raptor']:\n                buckets['raptor'] += [t]\n")]),
    dict(name='launcher: ESRCH and the other OSErrors in two handlers', edits=[
        (_L, _LMOUT, "        except ProcessLookupError:\n            # lost race: task is already gone, we ignore this\n" + _GONE + "        except OSError as e:\n            self._log.debug('could not kill %s: %s', task['uid'], e)\n")]),
    dict(name='launcher: except (ProcessLookupError, EnvironmentError)', edits=[
        (_L, _LMOUT, _LMOUT.replace('except OSError:', 'except (ProcessLookupError, EnvironmentError):'))]),
    dict(name='srun launcher: except Exception', edits=[
        (_S, _LMOUT, _LMOUT.replace('except OSError:', 'except Exception:'))]),
    dict(name='launcher lets EPERM through, Popen.cancel_task catches OSError around the kill', edits=[
        (_L, _LMOUT, _LMOUT.replace('except OSError:', 'except ProcessLookupError:')),
        (_P, _KILL, "        launcher = self._rm.get_launcher(task['launcher_name'])\n        try:\n            launcher.cancel_task(task, proc.pid)\n        except OSError as e:\n            self._log.warn('kill of %s failed: %s', tid, e)\n")]),
    dict(name='advance_tasks: start guard hoisted into a local', edits=[
        (_E, _GUARD, "        finishing = state != rps.AGENT_EXECUTING\n        if finishing:\n")]),
    dict(name='advance_tasks: start guard with the constant on the left', edits=[
        (_E, _GUARD, "        if rps.AGENT_EXECUTING != state:\n")]),
    dict(name='advance_tasks: start guard as membership in a tuple', edits=[
        (_E, _GUARD, "        if state not in (rps.AGENT_EXECUTING,):\n")]),
    dict(name='advance_tasks: start guard merged into the per-task condition', edits=[
        (_E, _SECOND, "        for task in ru.as_list(tasks):\n            if state != rps.AGENT_EXECUTING and \\\n                    task['description'].get('raptor_id'):\n                if task not in buckets['raptor']:\n                    buckets['raptor'].append(task)\n")]),
    dict(name='advance_tasks: start guard in positive form with else', edits=[
        (_E, _SECOND, "        if state == rps.AGENT_EXECUTING:\n            pass\n        else:\n" + _LOOP2.replace('\n    ', '\n        ').replace('        for', '            for', 1))]),
    dict(name='advance_tasks: start guard per task as early continue', edits=[
        (_E, _SECOND, "        started = state == rps.AGENT_EXECUTING\n        for t in ru.as_list(tasks):\n            if started:\n                continue\n            if not t['description'].get('raptor_id'):\n                continue\n            if t not in buckets['raptor']:\n                buckets['raptor'].append(t)\n")]),
    dict(name='NOOP collector: list swapped out under the lock, scanned unlocked, rest merged back under the lock', edits=[
        (_N, _NCOLL, "            with self._tasks_lock:\n                tasks, self._tasks = self._tasks, list()\n\n            for task in tasks:\n                if task['deadline'] <= now: to_finish.append(task)\n                else                      : to_continue.append(task)\n\n            with self._tasks_lock:\n                self._tasks.extend(to_continue)\n")]),
]
