"""C07  The executor finishes each task exactly once  (DESIGN 5 / C07)"""

import ast

from ..model import (walk, dotted, call_name, kwarg, unparse, short, UNKNOWN,
                     root_name, AnalysisError, calls_in, stores_in_target)
from ..cfg import cfg_of
from ..flow import Deps, guards, must_pass, loop_slice, Exploration
from .. import idioms as I

POPEN = ('agent/executing/popen.py', 'Popen')
NOOP  = ('agent/executing/noop.py', 'NOOP')
EBASE = ('agent/executing/base.py', 'AgentExecutingComponent')
UNSCHED = 'agent_unschedule_pubsub'


def _is_unsched_pub(prog, f, c):
    return I.is_publish(c, prog, f, UNSCHED)


def _is_hand(c):
    return I.is_handon(c)


def _thing_name(e):
    """name of the thing handed on / published: task, [task] -> 'task'"""
    if isinstance(e, ast.Name):
        return e.id
    if isinstance(e, (ast.List, ast.Tuple)) and len(e.elts) == 1 and \
            isinstance(e.elts[0], ast.Name):
        return e.elts[0].id
    return None


def pair_states(prog, f, g, start, var, stop=None, stop_edge=None,
                count_is_canceled=True, callee_effects=None):
    """explore from start; state = (pubs, hands, target_set) for thing `var`.
    callee_effects: {callee qualname: (pubs, hands)} applied at resolved self
    calls with var as argument (interprocedural step)."""
    callee_effects = callee_effects or {}

    def transfer(node, edge, st):
        if edge.label == 'exc':
            return st
        p, h, t = st
        if node.kind == 'stmt':
            a = node.ast
            if isinstance(a, ast.Assign):
                for tg in a.targets:
                    if isinstance(tg, ast.Subscript) and \
                            isinstance(tg.slice, ast.Constant) and \
                            tg.slice.value in ('target_state', 'exception') \
                            and root_name(tg) == var:
                        t = True
            for c in calls_in(a):
                if _is_unsched_pub(prog, f, c) and len(c.args) > 1 and \
                        _thing_name(c.args[1]) == var:
                    p = min(2, p + 1)
                elif _is_hand(c) and _thing_name(I.handon_thing(c)) == var:
                    h = min(2, h + 1)
                else:
                    cn = call_name(c)
                    if cn in callee_effects and any(
                            isinstance(x, ast.Name) and x.id == var
                            for x in list(c.args) +
                            [k.value for k in c.keywords]):
                        dp, dh = callee_effects[cn]
                        p, h = min(2, p + dp), min(2, h + dh)
        elif node.kind == 'test' and count_is_canceled:
            a = node.ast
            for c in calls_in(a):
                if call_name(c) == 'self.is_canceled' and c.args and \
                        isinstance(c.args[0], ast.Name) and \
                        c.args[0].id == var:
                    truth = True
                    if isinstance(a, ast.Compare) and len(a.ops) == 1 and \
                            isinstance(a.comparators[0], ast.Constant):
                        pos = isinstance(a.ops[0], (ast.Is, ast.Eq))
                        truth = bool(a.comparators[0].value) == pos
                    if (edge.label == 'T') == truth:
                        h = min(2, h + 1)
        return (p, h, t)
    return Exploration(g, start, (0, 0, False), transfer, stop=stop,
                       stop_edge=stop_edge)


# ------------------------------------------------------------------------------
# R07.1  publication / hand-on pairing per path
#
def r07_1(prog, rep, rid='R07.1', pub_only=False):
    rep.rule(rid, 'on every path of each finishing region the task is '
             'announced for unscheduling as often as it is handed on (0 or 1 '
             'times), with its outcome recorded first', minimum=7)
    popen = prog.cls(*POPEN)
    noop = prog.cls(*NOOP)

    # (a) Popen.cancel_task, one call = one task
    f = prog.find_method(popen, 'cancel_task')
    rep.saw(f)
    g = cfg_of(f)
    var = [p for p in f.params if p != 'self'][0]
    ex = pair_states(prog, f, g, g.entry.id, var)
    rep.stat('paths_enumerated', ex.states)
    cancel_summary = set()
    okall = True
    for t in ex.terminals:
        if t.node != g.exit.id:
            continue
        p, h, ts = t.state
        cancel_summary.add((p, h))
        good = (p, h) in ((0, 0), (1, 1)) and (h == 0 or ts)
        if not good:
            okall = False
            rep.bad(rid, f, 'cancel_task:pub=%d,hand=%d,outcome=%s' % (p, h, ts),
                    'Popen.cancel_task: a path ends with %d unschedule '
                    'publication(s) and %d hand-on(s) of the task%s'
                    % (p, h, '' if ts or h == 0 else ' without recording '
                       'target_state first'), f.loc(),
                    history='cancel of a running task: its cores are released '
                    'twice / never, or it is handed to output staging '
                    'without CANCELED recorded', path=ex.literals(t)[-8:])
    if okall:
        rep.ok(rid, f, 'Popen.cancel_task: every path is (0 pub, 0 hand) or '
               '(1 pub, 1 hand with target_state set)', f.loc())
    # (b) Popen._check_running: per task, then the bulk
    _bulk_region(prog, rep, rid, prog.find_method(popen, '_check_running'),
                 'Popen._check_running', need_outcome=True)
    # (c) handler of Popen.work
    _work_handler(prog, rep, rid, prog.find_method(popen, 'work'), 'Popen.work')
    # (d) NOOP._collect
    _bulk_region(prog, rep, rid, prog.find_method(noop, '_collect'),
                 'NOOP._collect', need_outcome=True)
    # (e) handler of NOOP.work + retention for the collector
    fw = prog.find_method(noop, 'work')
    _work_handler(prog, rep, rid, fw, 'NOOP.work', collector=True)
    # (f) interprocedural: the late-cancel path of _launch_task
    fl = prog.find_method(popen, '_launch_task')
    rep.saw(fl)
    gl = cfg_of(fl)
    var = [p for p in fl.params if p != 'self'][0]
    eff = {}
    if (1, 1) in cancel_summary:
        eff['self.cancel_task'] = (1, 1)
    ex = pair_states(prog, fl, gl, gl.entry.id, var, callee_effects=eff)
    worst = None
    for t in ex.terminals:
        if t.node != gl.exit.id:
            continue
        p, h, ts = t.state
        if p > 1 or (h > 1 and not pub_only):
            worst = (t, p, h)
    if worst:
        t, p, h = worst
        rep.bad(rid, fl, 'late-cancel:pub=%d,hand=%d' % (p, h),
                'Popen._launch_task: on the late-cancel path the task is '
                'handed on %d times (CANCELED inside is_canceled(), then to '
                'output staging by cancel_task)' % h, fl.loc(),
                history='a cancel request arrives between intake filtering '
                'and process spawn: the client receives CANCELED and later a '
                'second final notification from output staging',
                path=ex.literals(t)[-6:])
    else:
        rep.ok(rid, fl, 'Popen._launch_task: at most one hand-on on every path '
               '(is_canceled + cancel_task included)', fl.loc())


def _bulk_region(prog, rep, rid, f, label, need_outcome):
    """tasks collected into a list inside a loop; after the loop the list is
    published for unscheduling and handed on"""
    rep.saw(f)
    g = cfg_of(f)
    smap = I.stmt_node_map(g)
    hands = [c for c in calls_in(f.node) if _is_hand(c) and
             isinstance(I.handon_thing(c), ast.Name)]
    pubs = [c for c in calls_in(f.node) if _is_unsched_pub(prog, f, c) and
            len(c.args) > 1 and isinstance(c.args[1], ast.Name)]
    if not hands and not pubs:
        raise AnalysisError('UNRECOGNISED-IDIOM %s: bulk hand-on / unschedule '
                            'publication not found' % f.where)
    if not hands or not pubs:
        rep.bad(rid, f, '%s:%s' % (label, 'no-unschedule' if hands
                                   else 'no-hand-on'),
                '%s: finished tasks are %s' % (label, 'handed on but never '
                'published for unscheduling: their cores are never released'
                if hands else 'unscheduled but never handed on: they never '
                'reach a final state'), f.loc(),
                history='a task process exits with code 0')
        return
    lst = I.handon_thing(hands[0]).id
    okl = all(I.handon_thing(h).id == lst for h in hands) and \
        all(p.args[1].id == lst for p in pubs)
    rep.check(okl, rid, f, '%s: the list published for unscheduling is the '
              'list handed on (%s)' % (label, lst),
              construct='%s:same-list' % label,
              message='%s: the tasks published for unscheduling (%s) are not '
              'the tasks handed on (%s)' % (
                  label, sorted({p.args[1].id for p in pubs}),
                  sorted({I.handon_thing(h).id for h in hands})),
              loc=f.loc(hands[0]),
              history='a finished task is handed on but its cores are never '
              'released (or vice versa)')
    # where is the list filled?
    apps = [c for c in calls_in(f.node) if isinstance(c.func, ast.Attribute)
            and c.func.attr == 'append' and isinstance(c.func.value, ast.Name)
            and c.func.value.id == lst and c.args and
            isinstance(c.args[0], ast.Name)]
    if not apps:
        raise AnalysisError('UNRECOGNISED-IDIOM %s: %s is never appended to'
                            % (f.where, lst))
    an = smap[id(apps[0])]
    if not an.loops:
        raise AnalysisError('UNRECOGNISED-IDIOM %s: %s.append outside a loop'
                            % (f.where, lst))
    head = an.loops[-1]
    var = apps[0].args[0].id
    inside = [c for c in hands + pubs if head in smap[id(c)].loops]
    rep.check(not inside, rid, f, '%s: the list is published / handed on '
              'after the collecting loop, not inside it' % label,
              construct='%s:effects-in-loop' % label,
              message='%s: `%s` is executed inside the loop that collects the '
              'finished tasks: tasks collected earlier in the same pass are '
              'announced again with every further task'
              % (label, short(inside[0], 60) if inside else ''),
              loc=f.loc(inside[0]) if inside else f.loc(),
              history='two processes exit in the same watcher pass: the first '
              'task is unscheduled twice')
    # per iteration: appended at most once; outcome recorded when appended
    start, stop, stop_edge = loop_slice(g, head)

    def transfer(node, edge, st):
        if edge.label == 'exc':
            return st
        n, t = st
        if node.kind == 'stmt':
            a = node.ast
            if isinstance(a, ast.Assign):
                for tg in a.targets:
                    if isinstance(tg, ast.Subscript) and \
                            isinstance(tg.slice, ast.Constant) and \
                            tg.slice.value == 'target_state' and \
                            root_name(tg) == var:
                        t = True
            for c in calls_in(a):
                if c in apps:
                    n = min(2, n + 1)
        return (n, t)
    ex = Exploration(g, start, (0, False), transfer, stop=stop,
                     stop_edge=stop_edge)
    rep.stat('paths_enumerated', ex.states)
    # the outcome may also be recorded by a later loop over the whole list
    # which the hand-on has to pass
    later = False
    for n in g.nodes:
        if n.kind == 'for' and isinstance(n.ast.iter, ast.Name) and \
                n.ast.iter.id == lst and isinstance(n.ast.target, ast.Name):
            tv = n.ast.target.id
            for m in g.stmt_nodes():
                if m.kind == 'stmt' and n.id in m.loops and \
                        isinstance(m.ast, ast.Assign) and any(
                            isinstance(tg, ast.Subscript) and
                            isinstance(tg.slice, ast.Constant) and
                            tg.slice.value == 'target_state' and
                            root_name(tg) == tv for tg in m.ast.targets) and \
                        not [x for x in guards(g, m.id)
                             if g.nodes[x[0]].loops == m.loops]:
                    if all(must_pass(g, an.id, smap[id(h)].id, [n.id])
                           for h in hands):
                        later = True
    bad = None
    for t in ex.terminals:
        if t.node == g.raise_.id:
            continue
        n, ts = t.state
        if n > 1 or (n == 1 and need_outcome and not ts and not later):
            bad = (t, n, ts)
    if bad:
        t, n, ts = bad
        rep.bad(rid, f, '%s:append=%d,outcome=%s' % (label, n, ts),
                '%s: a task is collected %d time(s) for the finish%s'
                % (label, n, '' if ts else ' without target_state recorded '
                   'on that path'), f.loc(apps[0]),
                history='a process exits: the task reaches output staging '
                'without DONE/FAILED recorded (or is finished twice)',
                path=ex.literals(t)[-8:])
    else:
        rep.ok(rid, f, '%s: per task at most one collection, with the outcome '
               'recorded on every collecting path' % label, f.loc(apps[0]))
    # after the loop: one publication, one hand-on (the latter may be skipped
    # for the empty list)
    after = [e.dst for e in g.succ[head] if e.label == 'done'] or \
        [e.dst for nid in g.loop_body[head] | {head} for e in g.succ[nid]
         if e.dst not in g.loop_body[head] and e.dst != head and
         e.label != 'exc' and not e.back]
    outer = g.nodes[head].loops
    if outer:
        ostart, ostop, ostop_edge = loop_slice(g, outer[-1])
    else:
        ostop = (lambda nid: nid in (g.exit.id, g.raise_.id))
        ostop_edge = None

    def transfer2(node, edge, st):
        if edge.label == 'exc':
            return st
        p, h, empty = st
        if node.kind == 'stmt':
            for c in calls_in(node.ast):
                if c in pubs:
                    p = min(2, p + 1)
                if c in hands:
                    h = min(2, h + 1)
        if node.kind == 'test' and isinstance(node.ast, ast.Name) and \
                node.ast.id == lst and edge.label == 'F':
            empty = True
        return (p, h, empty)
    worst = None
    n_ok = 0
    for s in set(after):
        ex2 = Exploration(g, s, (0, 0, False), transfer2, stop=ostop,
                          stop_edge=ostop_edge)
        for t in ex2.terminals:
            if t.node == g.raise_.id:
                continue
            p, h, empty = t.state
            if (p, h) == (1, 1) or (empty and p <= 1 and h == 0):
                n_ok += 1
            else:
                worst = (ex2, t, p, h)
    if worst:
        ex2, t, p, h = worst
        rep.bad(rid, f, '%s:bulk:pub=%d,hand=%d' % (label, p, h),
                '%s: after collecting, the list %s is published for '
                'unscheduling %d time(s) and handed on %d time(s) on some '
                'path' % (label, lst, p, h), f.loc(hands[0]),
                history='a task finishes: its cores are released twice or '
                'never, or it is handed on twice or never',
                path=ex2.literals(t)[-6:])
    else:
        rep.ok(rid, f, '%s: after the loop %s is published once and handed on '
               'once (hand-on skipped only when empty)' % (label, lst),
               f.loc(hands[0]))


def _work_handler(prog, rep, rid, f, label, collector=False):
    rep.saw(f)
    g = cfg_of(f)
    param = [p for p in f.params if p != 'self'][0]
    loops = [n for n in g.nodes if n.kind == 'for' and
             isinstance(n.ast.iter, ast.Name) and n.ast.iter.id == param and
             isinstance(n.ast.target, ast.Name)]
    if len(loops) != 1:
        raise AnalysisError('UNRECOGNISED-IDIOM %s: per-task loop not found'
                            % f.where)
    H = loops[0]
    var = H.ast.target.id
    start, stop, stop_edge = loop_slice(g, H.id)
    ex = pair_states(prog, f, g, start, var, stop=stop, stop_edge=stop_edge)
    rep.stat('paths_enumerated', ex.states)
    # does anything retain *all* tasks of the bulk after the loop?
    bulk_ret = None
    if collector:
        for c in calls_in(f.node):
            if isinstance(c.func, ast.Attribute) and c.func.attr == 'extend' \
                    and c.args and isinstance(c.args[0], ast.Name) and \
                    c.args[0].id == param:
                bulk_ret = c
        for n in walk(f.node):
            if isinstance(n, ast.AugAssign) and isinstance(n.value, ast.Name) \
                    and n.value.id == param:
                bulk_ret = n
    seen_fail = False
    bad = None
    for t in ex.terminals:
        if t.node == g.raise_.id:
            continue
        p, h, ts = t.state
        via_handler = any(g.nodes[e.dst].kind == 'handler'
                          for e in ex.path(t))
        if via_handler:
            seen_fail = True
            if (p, h) != (1, 1) or not ts:
                bad = (t, p, h, ts, 'the error path')
            elif bulk_ret is not None:
                bad = (t, p, h, ts, 'retained')
        else:
            if (p, h) != (0, 0):
                bad = (t, p, h, ts, 'the normal path')
    if bad and bad[4] == 'retained':
        t = bad[0]
        rep.bad(rid, f, bulk_ret,
                '%s: a task whose launch failed is published for unscheduling '
                'and handed on as FAILED, and is then still handed to the '
                'collector with the whole bulk (`%s`): it is finished a '
                'second time' % (label, short(bulk_ret, 50)), f.loc(bulk_ret),
                history='_handle_task raises for task t: t is reported FAILED '
                'and unscheduled; the collector later unschedules it again '
                'and pushes it to output staging (or dies on the missing '
                "'deadline' key and no task ever finishes again)",
                path=ex.literals(t)[-6:])
    elif bad:
        t, p, h, ts, where = bad
        rep.bad(rid, f, '%s:%s:pub=%d,hand=%d' % (label, where, p, h),
                '%s: on %s of the per-task loop the task is published for '
                'unscheduling %d time(s) and handed on %d time(s)%s'
                % (label, where, p, h, '' if ts or h == 0 else
                   ' without the exception recorded'), f.loc(H.ast),
                history='launching fails for one task: its cores are never '
                'released, or it never reaches a final state',
                path=ex.literals(t)[-6:])
    else:
        rep.ok(rid, f, '%s: error path = one unschedule publication + one '
               'FAILED hand-on with the exception recorded; normal path = '
               'neither' % label, f.loc(H.ast))
    if collector and bulk_ret is None:
        # per task: FAILED hand-on xor retention for the collector
        from ..outcomes import check_one_outcome
        check_one_outcome(rep, rid, f, g, H.id, var,
                          '%s: launch or fail' % label,
                          'a task whose launch failed is reported FAILED and '
                          'also handed to the collector, which finishes it a '
                          'second time (or a launched task is never '
                          'collected)', hand_wrappers=())
    if not seen_fail:
        rep.bad(rid, f, '%s:no-handler' % label, '%s: a failure while '
                'launching one task is not handled per task' % label,
                f.loc(H.ast), history='one task without launcher takes the '
                'whole bulk down')


# ------------------------------------------------------------------------------
# R07.2  ownership arbitration
#
def _arbitration(prog, f, g):
    """[(with ast, lock, test node id, leave label, container, del node id)]"""
    out = []
    smap = I.stmt_node_map(g)
    for n in g.nodes:
        if n.kind != 'with':
            continue
        locks = [unparse(i.context_expr) for i in n.ast.items]
        inner = [m for m in g.nodes if n.ast in m.withs]
        tests = []
        dels = []
        for m in inner:
            if m.kind == 'test' and isinstance(m.ast, ast.Compare) and \
                    len(m.ast.ops) == 1 and \
                    isinstance(m.ast.ops[0], (ast.In, ast.NotIn)):
                cont = unparse(m.ast.comparators[0])
                leave = 'T' if isinstance(m.ast.ops[0], ast.NotIn) else 'F'
                tests.append((m.id, leave, cont, unparse(m.ast.left)))
            if m.kind == 'stmt' and isinstance(m.ast, ast.Delete):
                for t in m.ast.targets:
                    if isinstance(t, ast.Subscript):
                        dels.append((m.id, unparse(t.value), unparse(t.slice)))
            if m.kind == 'stmt':
                for c in calls_in(m.ast):
                    if isinstance(c.func, ast.Attribute) and \
                            c.func.attr == 'pop' and c.args:
                        dels.append((m.id, unparse(c.func.value),
                                     unparse(c.args[0])))
        for tid, leave, cont, key in tests:
            for did, dcont, dkey in dels:
                if cont == dcont and key == dkey:
                    out.append((n, locks, tid, leave, cont, did))
    return out


def r07_2(prog, rep, rid='R07.2'):
    rep.rule(rid, 'both contenders for a running task (cancel and watcher) '
             'finish it only after removing its uid from the shared registry '
             'under the same lock (test-and-remove)', minimum=2)
    popen = prog.cls(*POPEN)
    found = {}
    for mname in ('cancel_task', '_check_running'):
        f = prog.find_method(popen, mname)
        rep.saw(f)
        g = cfg_of(f)
        smap = I.stmt_node_map(g)
        arbs = _arbitration(prog, f, g)
        # finish effects
        effects = []
        for c in calls_in(f.node):
            if _is_unsched_pub(prog, f, c) or _is_hand(c):
                effects.append(c)
            if isinstance(c.func, ast.Attribute) and c.func.attr == 'append' \
                    and 'advance' in unparse(c.func.value):
                effects.append(c)
        if mname == '_check_running':
            # the per-task effect is the collection into the finish list
            lst = None
            for c in calls_in(f.node):
                if _is_hand(c) and isinstance(I.handon_thing(c), ast.Name):
                    lst = I.handon_thing(c).id
            effects = [c for c in calls_in(f.node)
                       if isinstance(c.func, ast.Attribute) and
                       c.func.attr == 'append' and
                       isinstance(c.func.value, ast.Name) and
                       c.func.value.id == lst]
        if not effects:
            raise AnalysisError('UNRECOGNISED-IDIOM %s: no finish effects'
                                % f.where)
        if not arbs:
            rep.bad(rid, f, '%s:no-arbitration' % mname,
                    'Popen.%s finishes a task without a locked '
                    'test-and-remove on the task registry: watcher and cancel '
                    'handler can both finish the same task' % mname, f.loc(),
                    history='the process exits while a cancel request is '
                    'handled: the task is unscheduled and handed on twice')
            continue
        w, locks, tid, leave, cont, did = arbs[0]
        found[mname] = (tuple(locks), cont)
        for c in effects:
            en = smap[id(c)]
            start = loop_slice(g, en.loops[-1])[0] if en.loops else g.entry.id
            stay = 'F' if leave == 'T' else 'T'
            # must take the "uid is registered" edge and pass the removal
            r1 = g.reachable(start, skip_edges=[(tid, stay)], no_back=True)
            r2 = g.reachable(start, skip_nodes={did}, no_back=True)
            okay = en.id not in r1 and en.id not in r2
            rep.check(okay, rid, f, 'Popen.%s: `%s` is reached only after the '
                      'locked test-and-remove on %s' % (mname, short(c, 40),
                                                        cont),
                      construct=c, message='Popen.%s: the finish effect `%s` '
                      'can be reached without having removed the uid from %s '
                      'under the lock (membership test missing, wrong '
                      'polarity, or removal skipped)' % (mname, short(c, 50),
                                                         cont),
                      loc=f.loc(c),
                      history='process exit and cancel request coincide: both '
                      'threads pass and the task is finished twice')
    if len(found) == 2:
        a, b = found['cancel_task'], found['_check_running']
        rep.check(a == b, rid, popen, 'cancel_task and _check_running '
                  'arbitrate with the same lock %s and registry %s'
                  % (a[0], a[1]), construct='same-lock',
                  message='cancel_task arbitrates with %s on %s, '
                  '_check_running with %s on %s: the two contenders do not '
                  'exclude each other' % (a[0], a[1], b[0], b[1]))
    # registration happens in work() before the task can be seen by either
    fw = prog.find_method(popen, 'work')
    g = cfg_of(fw)
    smap = I.stmt_node_map(g)
    cont = found.get('cancel_task', (None, 'self._tasks'))[1]
    regs = []
    for n in g.stmt_nodes():
        if n.kind != 'stmt':
            continue
        for c in calls_in(n.ast):
            if isinstance(c.func, ast.Attribute) and c.func.attr in \
                    ('update', 'setdefault', '__setitem__') and \
                    unparse(c.func.value) == cont:
                regs.append(n.id)
        if isinstance(n.ast, ast.Assign) and any(
                isinstance(t, ast.Subscript) and unparse(t.value) == cont
                for t in n.ast.targets):
            regs.append(n.id)
    hts = [smap[id(c)] for c in calls_in(fw.node)
           if call_name(c) == 'self._handle_task']
    okr = bool(regs) and bool(hts) and all(
        must_pass(g, loop_slice(g, h.loops[-1])[0] if h.loops else g.entry.id,
                  h.id, regs) for h in hts)
    rep.check(okr, rid, fw, 'work registers the task in %s before launching '
              'it' % cont, construct='register-before-launch',
              message='Popen.work launches a task that is not registered in '
              '%s: neither the watcher nor the cancel handler will ever '
              'finish it (both skip unregistered uids)' % cont, loc=fw.loc(),
              history='a task runs to completion and is never collected: it '
              'stays in AGENT_EXECUTING forever')


# ------------------------------------------------------------------------------
# R07.3 / R07.4 / R07.5
#
def r07_3(prog, rep, rid='R07.3'):
    rep.rule(rid, 'work announces AGENT_EXECUTING once for the bulk, before '
             'the per-task loop', minimum=2)
    st = prog.const('states.py', 'AGENT_EXECUTING')
    for anchor in (POPEN, NOOP):
        K = prog.cls(*anchor)
        f = prog.find_method(K, 'work')
        g = cfg_of(f)
        smap = I.stmt_node_map(g)
        param = [p for p in f.params if p != 'self'][0]
        anns = [c for c in calls_in(f.node) if _is_hand(c) and
                I.handon_state(prog, f, c) == st]
        loops = [n for n in g.nodes if n.kind == 'for' and
                 isinstance(n.ast.iter, ast.Name) and n.ast.iter.id == param]
        okay = len(anns) == 1 and isinstance(I.handon_thing(anns[0]), ast.Name) \
            and I.handon_thing(anns[0]).id == param and \
            not smap[id(anns[0])].loops and bool(loops) and \
            must_pass(g, g.entry.id, loops[0].id, [smap[id(anns[0])].id]) and \
            I.flag(anns[0], 'publish') is True and \
            I.flag(anns[0], 'push') is False
        rep.check(okay, rid, f, '%s.work: AGENT_EXECUTING announced once '
                  '(publish, no push) for the whole bulk before the loop'
                  % K.name, construct='%s:announce' % K.name,
                  message='%s.work does not announce AGENT_EXECUTING exactly '
                  'once for the bulk before the per-task loop (found %d '
                  'announcement(s))' % (K.name, len(anns)), loc=f.loc(),
                  history='the application never sees AGENT_EXECUTING for a '
                  'task, or sees it after the task already finished')


def r07_4(prog, rep, rid='R07.4'):
    rep.rule(rid, 'the process handle is recorded before the task is given to '
             'the watcher and before the late cancel check; the late cancel '
             'check exists', minimum=3)
    popen = prog.cls(*POPEN)
    f = prog.find_method(popen, '_launch_task')
    g = cfg_of(f)
    smap = I.stmt_node_map(g)
    var = [p for p in f.params if p != 'self'][0]
    procs = [n.id for n in g.stmt_nodes() if n.kind == 'stmt' and
             isinstance(n.ast, ast.Assign) and any(
                 isinstance(t, ast.Subscript) and
                 isinstance(t.slice, ast.Constant) and t.slice.value == 'proc'
                 and root_name(t) == var for t in n.ast.targets)]
    puts = [smap[id(c)] for c in calls_in(f.node)
            if isinstance(c.func, ast.Attribute) and c.func.attr == 'put' and
            '_watch_queue' in unparse(c.func.value)]
    if not procs:
        raise AnalysisError("UNRECOGNISED-IDIOM %s: task['proc'] is never "
                            'assigned' % f.where)
    rep.check(bool(puts) and all(must_pass(g, g.entry.id, p.id, procs)
                                 for p in puts), rid, f,
              "the task is put on the watch queue only after task['proc'] is "
              'set', construct='proc-before-watch',
              message="Popen._launch_task puts the task on the watch queue "
              "%s: the watcher drops tasks without a process handle, the task "
              "is never collected" % ('before task[\'proc\'] is assigned'
                                      if puts else '- never'), loc=f.loc(),
              history='the watcher thread picks the task up between put() '
              'and spawn: it is removed from the watch list and stays in '
              'AGENT_EXECUTING forever')
    checks = [n for n in g.nodes if n.kind == 'test' and any(
        call_name(c) == 'self.is_canceled' for c in calls_in(n.ast))]
    okc = False
    for n in checks:
        truth = True
        a = n.ast
        if isinstance(a, ast.Compare) and len(a.ops) == 1 and \
                isinstance(a.comparators[0], ast.Constant):
            truth = bool(a.comparators[0].value) == isinstance(
                a.ops[0], (ast.Is, ast.Eq))
        lab = 'T' if truth else 'F'
        for e in g.succ[n.id]:
            if e.label == lab:
                r = g.reachable(e.dst)
                if any(call_name(c) == 'self.cancel_task'
                       for m in r for c in I.stmt_calls(g.nodes[m])):
                    okc = True
    rep.check(okc, rid, f, 'a late cancel check after the spawn leads to '
              'cancel_task', construct='late-check',
              message='Popen._launch_task has no is_canceled() check that '
              'leads to cancel_task after the process was spawned: a cancel '
              'request arriving between intake and spawn is lost',
              loc=f.loc(),
              history='cancel arrives while the launch script is written: '
              'the cancel handler finds no process, the task then runs to '
              'completion')
    rep.check(bool(checks) and all(must_pass(g, g.entry.id, n.id, procs)
                                   for n in checks), rid, f,
              'the late cancel check comes after the spawn',
              construct='check-after-spawn',
              message='the is_canceled() check in _launch_task is evaluated '
              'before the process is spawned: a request arriving in between '
              'is lost', loc=f.loc())


def r07_5(prog, rep, rid='R07.5'):
    rep.rule(rid, 'the timeout watcher finishes tasks only through '
             'cancel_task (same arbitration)', minimum=1)
    base = prog.cls(*EBASE)
    f = prog.find_method(base, '_to_watcher')
    rep.saw(f)
    direct = [c for c in calls_in(f.node, nested=True)
              if _is_hand(c) or _is_unsched_pub(prog, f, c)]
    viac = [c for c in calls_in(f.node, nested=True)
            if call_name(c) == 'self.cancel_task']
    rep.check(not direct and bool(viac), rid, f, '_to_watcher only calls '
              'self.cancel_task', construct='timeout-via-cancel',
              message='the timeout watcher %s' % (
                  'finishes tasks itself (`%s`) instead of going through '
                  'cancel_task and its arbitration' % short(direct[0], 50)
                  if direct else 'never calls cancel_task: a run-time limit '
                  'has no effect'), loc=f.loc(),
              history='a task hits its timeout exactly when its process '
              'exits: it is finished by both the watcher and the timeout '
              'thread')


# ------------------------------------------------------------------------------
#
def run(prog, rep, tier):
    rep.decided = ('on every path of cancel_task, of one watcher iteration + '
        'bulk finish, of the per-task error handlers of Popen.work and '
        'NOOP.work, of NOOP._collect and of the late-cancel path of '
        '_launch_task: unschedule publications = hand-ons in {0, 1}, outcome '
        'recorded first; both contenders finish a task only after a locked '
        'test-and-remove on the same registry with the same lock; '
        'registration precedes launch; AGENT_EXECUTING announced once per '
        'bulk; process handle before watch queue and before the late cancel '
        'check; the timeout watcher goes through cancel_task.')
    rep.undecided = ('real thread schedules (the argument is lock discipline '
        'plus single removal); Flux and Dragon executors are out of scope.')
    rep.assumptions = [
        'effect calls are atomic; _handle_task either raises or hands the '
        'task to the watcher',
        'BaseComponent.is_canceled hands on CANCELED exactly when it returns '
        'True',
    ]
    rep.attempt(r07_1, prog, rep)
    rep.attempt(r07_2, prog, rep)
    rep.attempt(r07_3, prog, rep)
    rep.attempt(r07_4, prog, rep)
    rep.attempt(r07_5, prog, rep)


# ------------------------------------------------------------------------------
_P = 'agent/executing/popen.py'
_N = 'agent/executing/noop.py'
_E = 'agent/executing/base.py'

MUTATIONS = [
    dict(name='R07.1 cancel_task does not unschedule', rules=('R07.1',), edits=[
        (_P, "        self._prof.prof('unschedule_start', uid=tid)\n        self.publish(rpc.AGENT_UNSCHEDULE_PUBSUB, task)\n\n        self.advance([task]", "        self._prof.prof('unschedule_start', uid=tid)\n\n        self.advance([task]")]),
    dict(name='R07.1 cancel_task does not hand the task on', rules=('R07.1',), edits=[
        (_P, "        self.advance([task], rps.AGENT_STAGING_OUTPUT_PENDING,\n                             publish=True, push=True)\n", "")]),
    dict(name='R07.1 cancel_task forgets target_state', rules=('R07.1',), edits=[
        (_P, "        task['exit_code']    = None\n        task['target_state'] = rps.CANCELED\n", "        task['exit_code']    = None\n")]),
    dict(name='R07.1 already-exited process also unscheduled by cancel', rules=('R07.1',), edits=[
        (_P, "            self._log.debug('task %s is already done', tid)\n            return\n", "            self._log.debug('task %s is already done', tid)\n            self.publish(rpc.AGENT_UNSCHEDULE_PUBSUB, task)\n            return\n")]),
    dict(name='R07.1 watcher publishes unschedule per task and per bulk', rules=('R07.1',), edits=[
        (_P, "                tasks_to_advance.append(task)\n\n                self._prof.prof('unschedule_start', uid=tid)\n", "                tasks_to_advance.append(task)\n\n                self._prof.prof('unschedule_start', uid=tid)\n                self.publish(rpc.AGENT_UNSCHEDULE_PUBSUB, tasks_to_advance)\n")]),
    dict(name='R07.1 watcher: failed exit code without target_state', rules=('R07.1',), edits=[
        (_P, "                    task['exception_detail'] = 'exit code: %s' % exit_code\n                    task['target_state']     = rps.FAILED\n", "                    task['exception_detail'] = 'exit code: %s' % exit_code\n")]),
    dict(name='R07.1 watcher: bulk never unscheduled', rules=('R07.1',), edits=[
        (_P, "        self.publish(rpc.AGENT_UNSCHEDULE_PUBSUB, tasks_to_advance)\n\n        if tasks_to_advance:", "        if tasks_to_advance:")]),
    dict(name='R07.1 watcher: unschedules what it was given, not what finished', rules=('R07.1',), edits=[
        (_P, "        self.publish(rpc.AGENT_UNSCHEDULE_PUBSUB, tasks_to_advance)\n", "        self.publish(rpc.AGENT_UNSCHEDULE_PUBSUB, to_watch)\n")]),
    dict(name='R07.1 Popen.work error path does not unschedule', rules=('R07.1',), edits=[
        (_P, "                self._prof.prof('unschedule_start', uid=task['uid'])\n                self.publish(rpc.AGENT_UNSCHEDULE_PUBSUB, task)\n\n                self.advance_tasks(task, rps.FAILED", "                self._prof.prof('unschedule_start', uid=task['uid'])\n\n                self.advance_tasks(task, rps.FAILED")]),
    dict(name='R07.1 Popen.work error path only logs', rules=('R07.1',), edits=[
        (_P, "                self.advance_tasks(task, rps.FAILED, publish=True, push=False)\n", "")]),
    dict(name='R07.1 NOOP collects failed tasks again (F14 reverted)', rules=('R07.1',), edits=[
        (_N, "            self._tasks.extend(to_collect)", "            self._tasks.extend(tasks)")]),
    dict(name='R07.1 NOOP registers for collection before launching', rules=('R07.1',), edits=[
        (_N, "                self._handle_task(task)\n                to_collect.append(task)\n", "                to_collect.append(task)\n                self._handle_task(task)\n")]),
    dict(name='R07.1 NOOP collector hands on twice', rules=('R07.1',), edits=[
        (_N, "            self.publish(rpc.AGENT_UNSCHEDULE_PUBSUB, to_finish)\n", "            self.publish(rpc.AGENT_UNSCHEDULE_PUBSUB, to_finish)\n            self.publish(rpc.AGENT_UNSCHEDULE_PUBSUB, to_finish)\n")]),
    dict(name='R07.2 cancel_task without membership test', rules=('R07.2',), edits=[
        (_P, "        with self._check_lock:\n            if tid not in self._tasks:\n                return\n            try:\n                del self._tasks[tid]", "        with self._check_lock:\n            try:\n                del self._tasks[tid]")]),
    dict(name='R07.2 watcher membership polarity flipped', rules=('R07.2',), edits=[
        (_P, "                    if tid not in self._tasks:\n                        # task was canceled before, nothing to do\n                        continue\n", "                    if tid in self._tasks:\n                        continue\n")]),
    dict(name='R07.2 watcher does not remove the uid', rules=('R07.2',), edits=[
        (_P, "                        continue\n                    try:\n                        del self._tasks[tid]\n                    except KeyError:\n                        pass\n", "                        continue\n")]),
    dict(name='R07.2 watcher arbitrates without the lock', rules=('R07.2',), edits=[
        (_P, "                with self._check_lock:\n                    if tid not in self._tasks:\n                        # task was canceled", "                if True:\n                    if tid not in self._tasks:\n                        # task was canceled")]),
    dict(name='R07.2 cancel uses a different lock', rules=('R07.2',), edits=[
        (_P, "        with self._check_lock:\n            if tid not in self._tasks:\n                return\n", "        with self._to_lock:\n            if tid not in self._tasks:\n                return\n")]),
    dict(name='R07.2 watcher collects before arbitration', rules=('R07.2',), edits=[
        (_P, "                tasks_to_advance.append(task)\n\n                self._prof.prof('unschedule_start', uid=tid)\n", "                self._prof.prof('unschedule_start', uid=tid)\n"),
        (_P, "                with self._check_lock:\n                    if tid not in self._tasks:\n                        # task was canceled", "                tasks_to_advance.append(task)\n                with self._check_lock:\n                    if tid not in self._tasks:\n                        # task was canceled")]),
    dict(name='R07.2 task launched without registration', rules=('R07.2',), edits=[
        (_P, "                self._tasks.update({task['uid']: task})\n", "")]),
    dict(name='R07.3 AGENT_EXECUTING announced per task', rules=('R07.3',), edits=[
        (_P, "        self.advance_tasks(tasks, rps.AGENT_EXECUTING, publish=True, push=False)\n\n        for task in tasks:\n\n            try:\n                self._prof.prof('task_start', uid=task['uid'])\n                self._tasks.update", "        for task in tasks:\n\n            try:\n                self.advance_tasks(tasks, rps.AGENT_EXECUTING, publish=True, push=False)\n                self._prof.prof('task_start', uid=task['uid'])\n                self._tasks.update")]),
    dict(name='R07.3 NOOP never announces execution', rules=('R07.3',), edits=[
        (_N, "        self.advance_tasks(tasks, rps.AGENT_EXECUTING, publish=True, push=False)\n", "")]),
    dict(name='R07.4 task watched before it is spawned', rules=('R07.4',), edits=[
        (_P, "        self.handle_timeout(task)\n\n        # watch task for completion\n        self._watch_queue.put(task)\n", "        self.handle_timeout(task)\n"),
        (_P, "        self._prof.prof('task_run_start', uid=tid)\n", "        self._prof.prof('task_run_start', uid=tid)\n        self._watch_queue.put(task)\n")]),
    dict(name='R07.4 late cancel check removed', rules=('R07.4',), edits=[
        (_P, "        if self.is_canceled(task) is True:\n            self.cancel_task(task)\n", "")]),
    dict(name='R07.4 cancel check before the spawn', rules=('R07.4',), edits=[
        (_P, "        if self.is_canceled(task) is True:\n            self.cancel_task(task)\n", ""),
        (_P, "        self._prof.prof('task_run_start', uid=tid)\n", "        if self.is_canceled(task) is True:\n            self.cancel_task(task)\n        self._prof.prof('task_run_start', uid=tid)\n")]),
    dict(name='R07.5 timeout watcher finishes the task itself', rules=('R07.5',), edits=[
        (_E, "                        self.cancel_task(task=task)\n", "                        self.publish(rpc.AGENT_UNSCHEDULE_PUBSUB, task)\n                        self.advance(task, rps.CANCELED, publish=True, push=False)\n")]),
]

SILENT = [
    dict(name='cancel_task arbitration with pop()', edits=[
        (_P, "            if tid not in self._tasks:\n                return\n            try:\n                del self._tasks[tid]\n            except KeyError:\n                pass\n\n        # task is still running", "            if tid not in self._tasks:\n                return\n            self._tasks.pop(tid)\n\n        # task is still running")]),
    dict(name='watcher membership test in positive form', edits=[
        (_P, "                    if tid not in self._tasks:\n                        # task was canceled before, nothing to do\n                        continue\n", "                    if tid in self._tasks:\n                        pass\n                    else:\n                        continue\n")]),
    dict(name='hand-on before unschedule in cancel_task', edits=[
        (_P, "        self.publish(rpc.AGENT_UNSCHEDULE_PUBSUB, task)\n\n        self.advance([task], rps.AGENT_STAGING_OUTPUT_PENDING,\n                             publish=True, push=True)\n", "        self.advance([task], rps.AGENT_STAGING_OUTPUT_PENDING,\n                             publish=True, push=True)\n        self.publish(rpc.AGENT_UNSCHEDULE_PUBSUB, task)\n")]),
    dict(name='watcher publishes only non-empty bulks', edits=[
        (_P, "        self.publish(rpc.AGENT_UNSCHEDULE_PUBSUB, tasks_to_advance)\n\n        if tasks_to_advance:\n", "        if tasks_to_advance:\n            self.publish(rpc.AGENT_UNSCHEDULE_PUBSUB, tasks_to_advance)\n")]),
    dict(name='exit code recorded once before the branch', edits=[
        (_P, "                    task['exit_code']    = exit_code\n                    task['target_state'] = rps.DONE\n", "                    task['target_state'] = rps.DONE\n"),
        (_P, "                    task['exit_code']        = exit_code\n                    task['exception']        = 'RuntimeError", "                    task['exception']        = 'RuntimeError"),
        (_P, "                self._prof.prof('unschedule_start', uid=tid)\n\n                if exit_code == 0:", "                self._prof.prof('unschedule_start', uid=tid)\n                task['exit_code'] = exit_code\n\n                if exit_code == 0:")]),
    dict(name='late cancel check without `is True`', edits=[
        (_P, "        if self.is_canceled(task) is True:\n            self.cancel_task(task)\n", "        if self.is_canceled(task):\n            self.cancel_task(task)\n")]),
]
