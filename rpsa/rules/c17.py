"""C17  Every shipped platform resolves and pilots are sized to fit
(DESIGN 5 / C17)

R17.1   exhaustive resolution of every entry of every shipped
        configs/resource_*.json under each of its schemas, after the merge and
        the typed verification `Session.get_resource_config` performs (both are
        mirrored from the AST of that function / of `ResourceConfig._schema`)
R17.1t  the factory tables themselves: every row resolves to a class which
        exists in the module its import names and belongs to the factory's
        family
R17.2   agent / tmgr / pmgr / session configs: component kinds, tmgr scheduler
        name, and the bridges the configured components register
R17.3   `_prepare_pilot`: job sinks and agent sinks are fed by the same values;
        node computation (divisors); agent side reads the keys written
R17.4   client divisor == usable cores / gpus per node the agent derives
        (an adjustment of the agent inside a loop counts once per iteration:
        block membership by the CFG, trip count = len() of what is iterated)
R17.5   rounding direction on the def-use chain from each division
        `requested amount / usable per node` to the node count handed to the
        agent: only upward rounding, kinds combined by max, whole nodes
R17.6   history independence of resolution and sizing:
        `Session.get_resource_config`, its callers and the methods they hand
        the result to (`_start_pilot_bulk` -> `_prepare_pilot`) never store
        into / mutate in place an object which outlives the call (a stored
        entry, a container inside the per-call config, the config shared by
        the pilots of one bulk)
R17.7   `Session.get_resource_config`: the key of the `<cfg>['schemas'][key]`
        read that is merged (what R17.1 mirrors for every resource x schema
        pair) is the schema parameter as passed; only a request without a
        schema falls back, and then to the entry's `default_schema`
R17.8   what else `rcfg.verify()` / `get_resource_config` do to the merged
        config: the package's own verification hooks (`_verify` of the config
        class and of the typed dictionaries nested in it, an overriding
        `verify`) and the statements which follow the merge are evaluated
        concretely on every shipped resource x schema config - an explicit
        raise / assert reached for one of them makes that platform unusable

Nothing of /repo is imported or executed: JSON files are read as text, the
python sources through the program model.
"""

import ast
import json
import re

from ..model import (walk, dotted, call_name, kwarg, unparse, short, UNKNOWN,
                     AnalysisError, calls_in, read_json_tolerant,
                     stores_in_target, PKG)
from ..model import FuncInfo as _FuncInfo
from ..cfg import cfg_of
from ..flow import Deps, guards
from .. import idioms as I

CFG_DIR = 'configs'
RCFG    = ('resource_config.py', 'ResourceConfig')
SESSION = ('session.py', 'Session')
RM      = ('agent/resource_manager/base.py', 'ResourceManager')
LM      = ('agent/launch_method/base.py', 'LaunchMethod')
SCHED   = ('agent/scheduler/base.py', 'AgentSchedulingComponent')
EXEC    = ('agent/executing/base.py', 'AgentExecutingComponent')
COMP    = ('utils/component.py', 'BaseComponent')
TMGRS   = ('tmgr/scheduler/base.py', 'TMGRSchedulingComponent')
PMGRL   = ('pmgr/launching/base.py', 'PMGRLaunchingComponent')


# ------------------------------------------------------------------------------
# JSON as radical.utils reads it
#
def parse_like_ru(text):
    """ru.parse_json: whole-line '#' comments are blanked, then json.loads
    (trailing comments and trailing commas are *not* tolerated)"""
    txt = '\n'.join(re.sub(r'^\s*#.*$', '', line)
                    for line in text.split('\n'))
    return json.loads(txt)


def cfg_loc(rel, text=None, needle=None):
    line = 0
    if text and needle:
        for i, l in enumerate(text.split('\n')):
            if needle in l:
                line = i + 1
                break
    return '%s/%s:%d' % (PKG, rel, line)


def load_json(prog, rep, rel, rid):
    """(data | None, text).  A file radical.utils cannot parse is a violation
    (for resource_*.json the Session constructor loads all of them at once)."""
    text = prog.read_text(rel)
    try:
        data = parse_like_ru(text)
        rep.ok(rid, rel, 'parses the way ru.read_json reads it', cfg_loc(rel))
        return data, text
    except ValueError as e:
        why = str(e)
    try:
        data = read_json_tolerant(text)
    except ValueError:
        data = None
    rep.bad(rid, rel, 'unparsable:%s' % rel,
            '%s is not readable by ru.read_json (%s): radical.utils strips '
            'whole-line `#` comments only' % (rel, why), cfg_loc(rel),
            history='rp.Session() loads every shipped resource_*.json and '
            'raises ValueError("error parsing ...") before any pilot can be '
            'described' if '/resource_' in rel else
            'the component which loads this config raises ValueError')
    return data, text


# ------------------------------------------------------------------------------
# typed dictionaries (ResourceConfig & friends): schema, defaults, verify()
#
PY_TYPES = {'str': str, 'int': int, 'float': float, 'bool': bool}


class TD:
    """schema and defaults of one TypedDict subclass, read from its class
    level `_schema` / `_defaults` dict literals (merged along the MRO the way
    TypedDictMeta does)"""

    _cache = {}

    def __init__(self, prog, cls):
        self.cls      = cls
        self.schema   = {}
        self.defaults = {}
        for k in reversed(prog.mro(cls)):
            s = k.consts.get('_schema')
            d = k.consts.get('_defaults')
            if s is not None:
                if not isinstance(s, ast.Dict):
                    raise AnalysisError('UNRECOGNISED-IDIOM %s._schema is not '
                                        'a dict literal' % k.where)
                for kk, vv in zip(s.keys, s.values):
                    key = prog.fold(k.module, kk, k) if kk is not None \
                        else UNKNOWN
                    if key is UNKNOWN:
                        raise AnalysisError('UNRECOGNISED-IDIOM key %s of '
                                            '%s._schema cannot be folded'
                                            % (short(kk), k.where))
                    self.schema[key] = type_spec(prog, k, vv)
            if d is not None:
                if not isinstance(d, ast.Dict):
                    raise AnalysisError('UNRECOGNISED-IDIOM %s._defaults is '
                                        'not a dict literal' % k.where)
                for kk, vv in zip(d.keys, d.values):
                    key = prog.fold(k.module, kk, k) if kk is not None \
                        else UNKNOWN
                    if key is UNKNOWN:
                        raise AnalysisError('UNRECOGNISED-IDIOM key %s of '
                                            '%s._defaults cannot be folded'
                                            % (short(kk), k.where))
                    self.defaults[key] = default_value(prog, k, vv)

    @classmethod
    def of(cls, prog, c):
        key = (id(prog), c.module.rel, c.name)
        if key not in cls._cache:
            cls._cache[key] = (prog, TD(prog, c))      # keeps prog alive
        return cls._cache[key][1]


def _is_td_class(prog, c):
    return any('_schema' in k.consts or k.name.endswith('TypedDict')
               for k in prog.mro(c))


def type_spec(prog, cls, expr):
    """None (anything) | python type | ('list', spec) | ('dict', kspec, vspec)
    | ('td', ClassInfo)"""
    if isinstance(expr, ast.Constant) and expr.value is None:
        return None
    if isinstance(expr, ast.Name):
        if expr.id in PY_TYPES:
            return PY_TYPES[expr.id]
        r = prog.lookup(cls.module, expr.id)
        if r and r[0] == 'class' and _is_td_class(prog, r[1]):
            return ('td', r[1])
    if isinstance(expr, ast.List) and len(expr.elts) == 1:
        return ('list', type_spec(prog, cls, expr.elts[0]))
    if isinstance(expr, ast.Dict) and len(expr.keys) == 1 and \
            expr.keys[0] is not None:
        return ('dict', type_spec(prog, cls, expr.keys[0]),
                type_spec(prog, cls, expr.values[0]))
    raise AnalysisError('UNRECOGNISED-IDIOM type %s in %s._schema'
                        % (short(expr), cls.where))


def default_value(prog, cls, expr):
    v = prog.fold(cls.module, expr, cls)
    if v is not UNKNOWN:
        return v
    if isinstance(expr, ast.Call) and not expr.args and not expr.keywords \
            and isinstance(expr.func, ast.Name):
        if expr.func.id == 'dict':
            return {}
        if expr.func.id == 'list':
            return []
        r = prog.lookup(cls.module, expr.func.id)
        if r and r[0] == 'class' and _is_td_class(prog, r[1]):
            return dict(TD.of(prog, r[1]).defaults)
    return UNKNOWN


def td_init(prog, td, data):
    """TypedDict.__init__(from_dict=data): defaults, then update() which
    casts dict values into the TypedDict class the schema names"""
    out = {k: json_copy(v) for k, v in td.defaults.items()}
    _td_update(prog, td, out, data)
    return out


def _td_update(prog, td, out, data):
    for k, v in (data or {}).items():
        t = td.schema.get(k)
        if isinstance(v, dict) and isinstance(t, tuple) and t[0] == 'td':
            sub = TD.of(prog, t[1])
            if not out.get(k) or not isinstance(out.get(k), dict):
                out[k] = td_init(prog, sub, {})
            _td_update(prog, sub, out[k], v)
        else:
            out[k] = v


def json_copy(v):
    if isinstance(v, dict):
        return {k: json_copy(x) for k, x in v.items()}
    if isinstance(v, list):
        return [json_copy(x) for x in v]
    return v


def td_verify(prog, td, data, path=''):
    """mirror of TypedDict.verify() (with _cast = True): list of
    (path, problem).  Only outcomes which raise in radical.utils are
    reported."""
    out = []
    for k, v in data.items():
        if isinstance(k, str) and k.startswith('__'):
            continue
        if k not in td.schema:
            out.append((path + str(k), 'key %r is not in %s._schema '
                        '(TDKeyError)' % (k, td.cls.name)))
            continue
        out += _verify_kvt(prog, path + str(k), v, td.schema[k])
    return out


def _tname(v):
    return type(v).__name__


def _verify_kvt(prog, path, v, t):
    if t is None or v is None:
        return []
    if isinstance(t, tuple) and t[0] == 'td':
        if isinstance(v, dict):
            sub = TD.of(prog, t[1])
            return td_verify(prog, sub, td_init(prog, sub, v), path + '.')
        return [(path, 'expected a dict for %s, got %s %r (TDTypeError)'
                 % (t[1].name, _tname(v), v))]
    if isinstance(t, type):
        if isinstance(v, t):
            return []
        if t is str:
            return []                         # str(v) always succeeds
        if t in (int, float):
            try:
                t(v)
                return []
            except (TypeError, ValueError):
                return [(path, 'expected %s, got %s %r which cannot be cast '
                         '(TDTypeError)' % (t.__name__, _tname(v), v))]
        if t is bool:
            if str(v).lower() in ('true', 'yes', '1', 'false', 'no', '0'):
                return []
            return [(path, 'expected bool, got %s %r (TDTypeError)'
                     % (_tname(v), v))]
        return []
    if isinstance(t, tuple) and t[0] == 'list':
        vals = v if isinstance(v, list) else [v]
        out = []
        for i, x in enumerate(vals):
            out += _verify_kvt(prog, '%s[%d]' % (path, i), x, t[1])
        return out
    if isinstance(t, tuple) and t[0] == 'dict':
        if not isinstance(v, dict):
            return [(path, 'expected a dict, got %s %r (verify() raises)'
                     % (_tname(v), v))]
        out = []
        for kk, vv in v.items():
            out += _verify_kvt(prog, '%s.%s' % (path, kk), kk, t[1])
            out += _verify_kvt(prog, '%s.%s' % (path, kk), vv, t[2])
        return out
    return []


# ------------------------------------------------------------------------------
# ru.dict_merge(a, b, policy)
#
def dict_merge(a, b, policy):
    """mirror of radical.utils.dict_merge without wildcards; a is modified"""
    for key in sorted(b.keys()):
        if key in a:
            if isinstance(a[key], dict) and isinstance(b[key], dict):
                dict_merge(a[key], b[key], policy)
            elif a[key] == b[key]:
                pass
            elif policy == 'OVERWRITE':
                a[key] = b[key]
            elif policy == 'PRESERVE':
                pass
        else:
            a[key] = b[key]
    return a


# ------------------------------------------------------------------------------
# what Session.get_resource_config does (read from its AST)
#
class MergeModel:
    """facts about Session.get_resource_config:
      policy   : 'OVERWRITE' | 'PRESERVE' of ru.dict_merge(rcfg, scfg, policy)
      alias    : a string-valued schema is looked up again in `schemas`
      verify   : rcfg.verify() is called on the merged config
      td       : TD of the class the config is instantiated as
    """

    def __init__(self, prog, rep):
        f = prog.method(SESSION[0], SESSION[1], 'get_resource_config')
        rep.saw(f)
        self.func = f
        merges = [c for c in calls_in(f.node)
                  if call_name(c).endswith('dict_merge')]
        if len(merges) != 1:
            raise AnalysisError('UNRECOGNISED-IDIOM %s: expected exactly one '
                                'dict_merge() call, found %d'
                                % (f.where, len(merges)))
        m = merges[0]
        pol = kwarg(m, 'policy', 2)
        pname = dotted(pol).split('.')[-1] if pol is not None else ''
        if isinstance(pol, ast.Constant) and isinstance(pol.value, str):
            pname = pol.value.upper()
        if pname not in ('OVERWRITE', 'PRESERVE'):
            raise AnalysisError('UNRECOGNISED-IDIOM %s: merge policy %s'
                                % (f.where, short(pol)))
        self.policy = pname
        a, b = kwarg(m, 'a', 0), kwarg(m, 'b', 1)
        if not isinstance(a, ast.Name) or b is None:
            raise AnalysisError('UNRECOGNISED-IDIOM %s: dict_merge target is '
                                'not a plain name' % f.where)
        self.rvar = a.id
        self.svar = b.id if isinstance(b, ast.Name) else None
        # rcfg = <Class>(from_dict=<the stored entry>)
        self.td = None
        for n in walk(f.node):
            if isinstance(n, ast.Assign) and any(
                    isinstance(t, ast.Name) and t.id == self.rvar
                    for t in n.targets) and isinstance(n.value, ast.Call):
                r = prog.resolve(f.module, n.value.func)
                if r and r[0] == 'class' and _is_td_class(prog, r[1]):
                    self.td = TD.of(prog, r[1])
        if self.td is None:
            # not a private copy: the merge target is the stored entry itself
            # (`rcfg = self._rcfgs[site][res]`) - the first resolution still
            # yields what the copy would (R17.1 mirrors that one); that later
            # ones do not is R17.6's finding.  The class is the one the
            # entries are stored as.
            self.td = self._stored_class(prog, f)
        if self.td is None:
            raise AnalysisError('UNRECOGNISED-IDIOM %s: %s is not built from '
                                'a TypedDict class' % (f.where, self.rvar))

        self._schema_operand(f, b)
        self.verify = any(call_name(c) == self.rvar + '.verify'
                          for c in calls_in(f.node))

    def _stored_class(self, prog, f):
        """TD of the class the elements of `self.<attr>` are stored as, when
        every definition of the merge target is an element of that attribute
        (`self.<attr>[i][j]`, possibly through one local)"""
        def root_attr(e, depth=0):
            while isinstance(e, ast.Subscript):
                e = e.value
            if isinstance(e, ast.Attribute) and isinstance(e.value, ast.Name) \
                    and e.value.id == 'self':
                return e.attr
            if isinstance(e, ast.Name) and depth < 3:
                vals = [n.value for n in walk(f.node)
                        if isinstance(n, ast.Assign) and any(
                            isinstance(t, ast.Name) and t.id == e.id
                            for t in n.targets)]
                roots = {root_attr(v, depth + 1)
                         if isinstance(v, (ast.Subscript, ast.Name)) else None
                         for v in vals}
                if len(roots) == 1:
                    return roots.pop()
            return None

        defs = [n.value for n in walk(f.node)
                if isinstance(n, ast.Assign) and any(
                    isinstance(t, ast.Name) and t.id == self.rvar
                    for t in n.targets)]
        attrs = {root_attr(v) if isinstance(v, (ast.Subscript, ast.Name))
                 else None for v in defs}
        if len(attrs) != 1 or None in attrs or f.cls is None:
            return None
        attr = attrs.pop()
        classes = set()
        for m in f.cls.methods.values():
            for n in walk(m.node):
                if not isinstance(n, ast.Assign):
                    continue
                for t in n.targets:
                    e, depth = t, 0
                    while isinstance(e, ast.Subscript):
                        e, depth = e.value, depth + 1
                    if depth < 2 or not (
                            isinstance(e, ast.Attribute) and e.attr == attr and
                            isinstance(e.value, ast.Name) and
                            e.value.id == 'self'):
                        continue
                    r = prog.resolve(m.module, n.value.func) \
                        if isinstance(n.value, ast.Call) else None
                    classes.add(r[1] if r and r[0] == 'class' and
                                _is_td_class(prog, r[1]) else None)
        if len(classes) != 1 or None in classes:
            return None
        return TD.of(prog, classes.pop())

    def _schema_operand(self, f, b):
        # the second operand: <cfg>['schemas'][<schema>] / <cfg>.schemas[..],
        # directly or through a local; an alias step looks the local up again
        def schema_lookup(v):
            """'direct' | 'alias' | None"""
            if not isinstance(v, ast.Subscript):
                return None
            inner = v.value
            is_schemas = isinstance(inner, ast.Subscript) and \
                isinstance(inner.slice, ast.Constant) and \
                inner.slice.value == 'schemas' or \
                isinstance(inner, ast.Attribute) and inner.attr == 'schemas'
            if not is_schemas:
                # a local holding the schemas dict
                if isinstance(inner, ast.Name):
                    vals = [n.value for n in walk(f.node)
                            if isinstance(n, ast.Assign) and any(
                                isinstance(t, ast.Name) and t.id == inner.id
                                for t in n.targets)]
                    is_schemas = len(vals) == 1 and (
                        isinstance(vals[0], ast.Subscript) and
                        isinstance(vals[0].slice, ast.Constant) and
                        vals[0].slice.value == 'schemas' or
                        isinstance(vals[0], ast.Attribute) and
                        vals[0].attr == 'schemas')
            if not is_schemas:
                return None
            if self.svar and isinstance(v.slice, ast.Name) and \
                    v.slice.id == self.svar:
                return 'alias'
            if not any(v is x for x in self.lookups):
                self.lookups.append(v)
            return 'direct'

        ok = False
        self.alias = False
        self.lookups = []       # the <schemas>[<key>] reads which are merged
        if self.svar is None:
            if schema_lookup(b) != 'direct':
                raise AnalysisError('UNRECOGNISED-IDIOM %s: merged operand '
                                    '`%s`' % (f.where, short(b)))
            ok = True
        else:
            sdefs = [n for n in walk(f.node) if isinstance(n, ast.Assign) and
                     any(isinstance(t, ast.Name) and t.id == self.svar
                         for t in n.targets)]
            for n in sdefs:
                k = schema_lookup(n.value)
                if k == 'alias':
                    self.alias = True
                elif k == 'direct':
                    ok = True
                else:
                    raise AnalysisError('UNRECOGNISED-IDIOM %s: %s'
                                        % (f.where, short(n)))
        if not ok:
            raise AnalysisError('UNRECOGNISED-IDIOM %s: the merged operand is '
                                "not read from <cfg>['schemas'][<schema>]"
                                % f.where)


# ------------------------------------------------------------------------------
# factory tables
#
class Table:

    def __init__(self, func, var, rows, keyvar, keyattr):
        self.func    = func
        self.var     = var
        self.rows    = rows        # name -> ClassInfo | None
        self.keyvar  = keyvar      # local variable the table is indexed with
        self.keyattr = keyattr     # config attribute that variable is read from
        self.rewrites = []         # [(launch method, from name, to name)]

    def __contains__(self, name):
        try:
            return name in self.rows and self.rows[name] is not None
        except TypeError:
            return False


def _ext_to_class(prog, dotted_name):
    """'radical.pilot.pmgr.Launching' -> ClassInfo | None (absolute imports
    of the package's own sub-packages)"""
    parts = dotted_name.split('.')
    if parts[:2] != ['radical', 'pilot']:
        return None
    parts = parts[2:]
    for i in range(len(parts), 0, -1):
        rel = prog._find_module(parts[:i])
        if not rel:
            continue
        r = ('mod', prog.modules[rel])
        for attr in parts[i:]:
            if not r or r[0] != 'mod':
                return None
            r = prog.lookup(r[1], attr)
        return r
    return None


_tables = {}


def factory_table(prog, rep, anchor, mname, rid):
    key = (id(prog), id(rep), anchor, mname)
    if key not in _tables:
        _tables[key] = (prog, rep, _factory_table(prog, rep, anchor, mname,
                                                  rid))
    return _tables[key][2]


def _factory_table(prog, rep, anchor, mname, rid):
    f = prog.method(anchor[0], anchor[1], mname)
    rep.saw(f)
    li = f.module.local_imports(f.node)
    cands = []
    for n in walk(f.node):
        if isinstance(n, ast.Assign) and isinstance(n.value, ast.Dict) and \
                len(n.targets) == 1 and isinstance(n.targets[0], ast.Name):
            var = n.targets[0].id
            used = any(isinstance(s, ast.Subscript) and
                       isinstance(s.value, ast.Name) and s.value.id == var
                       for s in walk(f.node)) or any(
                call_name(c) == var + '.get' for c in calls_in(f.node))
            if used:
                cands.append(n)
    if len(cands) != 1:
        raise AnalysisError('UNRECOGNISED-IDIOM %s: expected one factory '
                            'table (dict literal bound to a name and indexed), '
                            'found %d' % (f.where, len(cands)))
    node = cands[0]
    var  = node.targets[0].id
    rows = {}
    family = f.cls
    for k, v in zip(node.value.keys, node.value.values):
        key = prog.fold(f.module, k, f.cls) if k is not None else UNKNOWN
        if key is UNKNOWN or not isinstance(key, str):
            raise AnalysisError('UNRECOGNISED-IDIOM %s: table key %s cannot '
                                'be folded to a string' % (f.where, short(k)))
        r = prog.resolve(f.module, v, li)
        if r and r[0] == 'ext':
            r = _ext_to_class(prog, r[1])
        what = '%s[%r] -> %s is a class defined where its import says' % (
            var, key, short(v))
        if not r or r[0] != 'class':
            imp = li.get(dotted(v).split('.')[0]) or \
                f.module.imports.get(dotted(v).split('.')[0])
            rep.bad(rid, f, '%s:%s' % (key, short(v)),
                    'factory table row %r of %s names %s which does not '
                    'resolve to a class (import: %s): the factory raises '
                    'ImportError/NameError for every name as soon as it is '
                    'called' % (key, f.qual, short(v), imp), f.loc(v),
                    history='any pilot whose configuration reaches %s: the '
                    'local import of %s fails' % (f.qual, short(v)))
            rows[key] = None
            continue
        c = r[1]
        fam_ok = family is None or family in prog.mro(c) or \
            anchor == COMP and any('create' in k2.methods
                                   for k2 in prog.mro(c))
        if not fam_ok:
            rep.bad(rid, f, '%s:%s' % (key, short(v)),
                    'factory table row %r of %s points to %s which is not a '
                    'subclass of %s: instantiating it with the factory '
                    'arguments fails or yields an object without the '
                    'interface' % (key, f.qual, c.where, family.name),
                    f.loc(v),
                    history='a resource config naming %r' % key)
            rows[key] = None
            continue
        rep.ok(rid, f, what, f.loc(v))
        rows[key] = c
    # how is the table indexed?
    keyvar, keyattr = None, None
    for s in walk(f.node):
        if isinstance(s, ast.Subscript) and isinstance(s.value, ast.Name) and \
                s.value.id == var and isinstance(s.ctx, ast.Load):
            if isinstance(s.slice, ast.Name):
                keyvar = s.slice.id
            elif isinstance(s.slice, ast.Attribute):
                keyattr = s.slice.attr
    for c in calls_in(f.node):
        if call_name(c) == var + '.get' and c.args and \
                isinstance(c.args[0], ast.Name):
            keyvar = c.args[0].id
    t = Table(f, var, rows, keyvar, keyattr)
    if keyvar and keyvar not in f.params:
        _key_source(prog, t)
    return t


def _key_source(prog, t):
    """the local the table is indexed with: where it is read from the
    resource config, and which conditional rewrites are applied to it"""
    f = t.func
    g = cfg_of(f)
    for n in g.stmt_nodes():
        if n.kind != 'stmt' or not isinstance(n.ast, ast.Assign):
            continue
        if not any(isinstance(x, ast.Name) and x.id == t.keyvar
                   for x in n.ast.targets):
            continue
        v = n.ast.value
        d = dotted(v)
        if d and '.rcfg.' in '.' + d + '.' and d.split('.')[-2] == 'rcfg':
            t.keyattr = d.split('.')[-1]
            continue
        if isinstance(v, ast.Call) and isinstance(v.func, ast.Attribute) and \
                v.func.attr == 'get' and v.args:
            k = prog.fold(f.module, v.args[0], f.cls)
            if isinstance(k, str):
                t.keyattr = k
                continue
        if isinstance(v, ast.Subscript):
            k = prog.fold(f.module, v.slice, f.cls)
            if isinstance(k, str):
                t.keyattr = k
                continue
        new = prog.fold(f.module, v, f.cls)
        if not isinstance(new, str):
            raise AnalysisError('UNRECOGNISED-IDIOM %s: %s' % (f.where,
                                                              short(n.ast)))
        lm, old = None, None
        for tid, lab in guards(g, n.id):
            a = g.nodes[tid].ast
            if lab == 'T' and isinstance(a, ast.Compare) and \
                    len(a.ops) == 1 and isinstance(a.ops[0], ast.In) and \
                    isinstance(a.left, ast.Constant) and \
                    dotted(a.comparators[0]).endswith('.launch_methods'):
                lm = a.left.value
            elif lab == 'T' and isinstance(a, ast.Compare) and \
                    len(a.ops) == 1 and isinstance(a.ops[0], ast.Eq) and \
                    isinstance(a.left, ast.Name) and a.left.id == t.keyvar:
                old = prog.fold(f.module, a.comparators[0], f.cls)
            elif isinstance(a, ast.Compare) and any(
                    isinstance(x, ast.Name) and x.id == 'cls'
                    for x in walk(a)):
                continue                 # "factory only on the base class"
            else:
                raise AnalysisError('UNRECOGNISED-IDIOM %s: %s is rewritten '
                                    'under a condition the recogniser does '
                                    'not know: %s' % (f.where, t.keyvar,
                                                      short(a)))
        if lm is None or not isinstance(old, str):
            raise AnalysisError('UNRECOGNISED-IDIOM %s: %s' % (f.where,
                                                              short(n.ast)))
        t.rewrites.append((lm, old, new))


# ------------------------------------------------------------------------------
# launch method order (ResourceManager._prepare_launch_methods)
#
def order_model(prog, rep):
    """checks the shape `order = lm.get('order') or list(lm)` and that the
    per-method config lookup `lm[name]` happens outside of the try block"""
    f = prog.method(RM[0], RM[1], '_prepare_launch_methods')
    rep.saw(f)
    found = False
    for n in walk(f.node):
        if isinstance(n, ast.Assign) and any(
                unparse(t) == 'self._launch_order' for t in n.targets):
            v = n.value
            if isinstance(v, ast.BoolOp) and isinstance(v.op, ast.Or) and \
                    len(v.values) == 2 and isinstance(v.values[0], ast.Call) \
                    and isinstance(v.values[0].func, ast.Attribute) and \
                    v.values[0].func.attr == 'get' and v.values[0].args and \
                    isinstance(v.values[0].args[0], ast.Constant) and \
                    v.values[0].args[0].value == 'order' and \
                    isinstance(v.values[1], ast.Call) and \
                    call_name(v.values[1]) == 'list':
                found = True
            else:
                raise AnalysisError('UNRECOGNISED-IDIOM %s: %s'
                                    % (f.where, short(n)))
    if not found:
        raise AnalysisError('UNRECOGNISED-IDIOM %s: no assignment of '
                            'self._launch_order' % f.where)
    # is launch_methods[lm_name] protected by the try?
    g = cfg_of(f)
    protected = True
    for n in g.stmt_nodes():
        if n.kind == 'stmt' and isinstance(n.ast, ast.Assign):
            for s in walk(n.ast.value):
                if isinstance(s, ast.Subscript) and \
                        unparse(s.value) == 'launch_methods':
                    protected = bool(n.tries)
    return protected


# ------------------------------------------------------------------------------
# `rcfg[k] % expand` in PMGRLaunchingComponent._start_pilot_bulk
#
PDESC = ('pilot_description.py', 'PilotDescription')
_FMT  = re.compile(r'%(?:\((?P<key>[^)]*)\))?[#0\- +]*(?:\*|\d+)?'
                   r'(?:\.(?:\*|\d+))?[hlL]?(?P<conv>.)?', re.S)


def expand_model(prog, rep):
    """None if _start_pilot_bulk does not %-expand the string values of the
    resource config; else the set of keys of the `expand` mapping: 'pd.<k>',
    'pd.<K>', 'pd.<k.lower()>' for every PilotDescription attribute k"""
    f = prog.method(PMGRL[0], PMGRL[1], '_start_pilot_bulk')
    rep.saw(f)
    expands = False
    for n in walk(f.node):
        if isinstance(n, ast.For) and isinstance(n.iter, ast.Name) and \
                n.iter.id == 'rcfg':
            for x in walk(n):
                if isinstance(x, ast.BinOp) and isinstance(x.op, ast.Mod) and \
                        isinstance(x.left, ast.Subscript) and \
                        unparse(x.left.value) == 'rcfg' and \
                        isinstance(x.right, ast.Name):
                    expands = x.right.id
    if not expands:
        return None
    forms = set()
    for n in walk(f.node):
        if isinstance(n, ast.Assign) and len(n.targets) == 1 and \
                isinstance(n.targets[0], ast.Subscript) and \
                unparse(n.targets[0].value) == expands:
            sl = n.targets[0].slice
            if isinstance(sl, ast.BinOp) and isinstance(sl.op, ast.Mod) and \
                    isinstance(sl.left, ast.Constant) and \
                    sl.left.value == 'pd.%s':
                r = sl.right
                if isinstance(r, ast.Name):
                    forms.add('id')
                elif isinstance(r, ast.Call) and \
                        isinstance(r.func, ast.Attribute) and \
                        r.func.attr in ('upper', 'lower'):
                    forms.add(r.func.attr)
                else:
                    raise AnalysisError('UNRECOGNISED-IDIOM %s: %s'
                                        % (f.where, short(n)))
            else:
                raise AnalysisError('UNRECOGNISED-IDIOM %s: %s'
                                    % (f.where, short(n)))
    if not forms:
        raise AnalysisError('UNRECOGNISED-IDIOM %s: the expansion mapping %r '
                            'is not filled from the pilot description'
                            % (f.where, expands))
    pd = prog.cls(*PDESC)
    keys = set()
    for k in prog.mro(pd):
        dd = k.consts.get('_defaults')
        if isinstance(dd, ast.Dict):
            for kk in dd.keys:
                v = prog.fold(k.module, kk, k) if kk is not None else UNKNOWN
                if isinstance(v, str):
                    keys.add(v)
    if not keys:
        raise AnalysisError('UNRECOGNISED-IDIOM %s._defaults' % pd.where)
    out = set()
    for k in keys:
        if 'id' in forms:
            out.add('pd.' + k)
        if 'upper' in forms:
            out.add('pd.' + k.upper())
        if 'lower' in forms:
            out.add('pd.' + k.lower())
    return out


def expansion_problem(text, keys):
    """why `text % mapping` raises (None if it does not)"""
    for m in _FMT.finditer(text):
        key, conv = m.group('key'), m.group('conv')
        if conv is None:
            return 'incomplete format `%s` (ValueError)' % m.group(0)
        if conv == '%' and key is None:
            continue
        if conv not in 'diouxXeEfFgGcrsa%':
            return 'unsupported format character in `%s` (ValueError): a ' \
                   'literal percent sign must be written %%%%' % m.group(0)
        if key is None:
            if conv in 'rsa':
                continue
            return '`%s` needs a number, gets the mapping (TypeError)' \
                % m.group(0)
        if key not in keys:
            return 'placeholder `%s` names no pilot description attribute ' \
                   '(KeyError)' % m.group(0)
    return None


# ------------------------------------------------------------------------------
# R17.1
#
class Ctx:
    pass


def build_ctx(prog, rep):
    c = Ctx()
    c.merge  = MergeModel(prog, rep)
    c.td     = c.merge.td
    for k in ('default_schema', 'schemas', 'resource_manager', 'agent_config',
              'agent_scheduler', 'agent_spawner', 'launch_methods'):
        if k not in c.td.schema:
            raise AnalysisError('%s._schema lacks %r' % (c.td.cls.where, k))
        if c.td.defaults.get(k, UNKNOWN) is UNKNOWN:
            raise AnalysisError('UNRECOGNISED-IDIOM default of %r in %s'
                                % (k, c.td.cls.where))
    c.rm     = factory_table(prog, rep, RM,    'get_manager', 'R17.1t')
    c.lm     = factory_table(prog, rep, LM,    'create',      'R17.1t')
    c.sched  = factory_table(prog, rep, SCHED, 'create',      'R17.1t')
    c.execu  = factory_table(prog, rep, EXEC,  'create',      'R17.1t')
    c.comp   = factory_table(prog, rep, COMP,  'create',      'R17.1t')
    c.tmgrs  = factory_table(prog, rep, TMGRS, 'create',      'R17.1t')
    c.lm_protected = order_model(prog, rep)
    c.expand = expand_model(prog, rep)
    for t, want in ((c.sched, 'agent_scheduler'), (c.execu, 'agent_spawner')):
        rep.check(t.keyattr in c.td.schema, 'R17.1t', t.func,
                  '%s reads its name from a key of %s._schema (%r)'
                  % (t.func.qual, c.td.cls.name, t.keyattr),
                  construct='key:%s' % t.keyattr,
                  message='%s selects the implementation by session.rcfg.%s, '
                  'which is not a key of %s._schema: no shipped resource '
                  'config can carry it, the lookup yields None'
                  % (t.func.qual, t.keyattr, c.td.cls.name), loc=t.func.loc(),
                  history='every pilot: %s raises "unknown"' % t.func.qual)
    files = prog.list_files(CFG_DIR, '.json')
    c.files = files
    c.agent_cfgs = {}
    for rel in files:
        base = rel.split('/')[-1]
        if base.startswith('agent_'):
            c.agent_cfgs[base[len('agent_'):-len('.json')]] = rel
    c.nested_classes = _nested_classes(prog, c.td)
    c.tail = merge_tail(c)
    c.used_agent_cfgs = {}      # agent cfg name -> {'exec': set, 'sched': set}
    c.nondefault = []           # (resource, schema, default schema) pairs
    c.switch_hits = {}          # index into c.sched.rewrites -> configs hit
    return c


def effective_scheduler(ctx, name, lms):
    for lm, old, new in ctx.sched.rewrites:
        if isinstance(lms, dict) and lm in lms and name == old:
            name = new
    return name


def lm_siblings(ctx, lm):
    """the launch method names the LaunchMethod.create table maps to the class
    it maps `lm` to (the name itself if the table does not know it)"""
    try:
        c = ctx.lm.rows.get(lm)
    except TypeError:
        c = None
    if c is None:
        return {lm}
    return {k for k, v in ctx.lm.rows.items() if v is c}


def check_switch(rep, ctx, res, schema, sn, eff, lms, hist, rid='R17.9'):
    """R17.9, per merged config: the scheduler switch of
    AgentSchedulingComponent.create is keyed by a launch method *name*, what
    it adapts the scheduler to is the launch method *implementation*: a config
    which lists any name LaunchMethod.create maps to that implementation (and
    asks for the scheduler the switch replaces) must get the replacement"""
    f = ctx.sched.func
    if not isinstance(lms, dict):
        return
    ctx.lm_listed = getattr(ctx, 'lm_listed', set()) | set(lms)
    for i, (lm, old, new) in enumerate(ctx.sched.rewrites):
        sibs = lm_siblings(ctx, lm)
        mine = sorted(k for k in lms if k in sibs)
        if lm in lms and sn == old:
            ctx.switch_hits[i] = ctx.switch_hits.get(i, 0) + 1
        if not mine or sn != old:
            continue
        cls = ctx.lm.rows.get(lm)
        cname = cls.name if cls is not None else lm
        rep.check(eff == new, rid, f, '%s x %s: lists %s (implemented by %s, '
                  'like %r) with scheduler %r and is switched to %r'
                  % (res, schema, mine, cname, lm, old, new),
                  construct='switch:%s:%s:%s' % (lm, res, schema),
                  message='%s x %s lists launch method %s, which '
                  'LaunchMethod.create maps to the same class (%s) as %r, and '
                  'asks for scheduler %r: %s replaces %r by %r only if the '
                  'name %r itself is in launch_methods, so this platform '
                  'keeps %r while tasks are launched by %s'
                  % (res, schema, mine, cname, lm, old, f.qual, old, new, lm,
                     eff, cname), loc=f.loc(),
                  history=hist + ': the agent creates scheduler %r instead of '
                  '%r; slots are not laid out for the %s launch method'
                  % (eff, new, cname))


def check_switches(rep, ctx, rid='R17.9'):
    """R17.9, per switch: the launch method name tested is one
    LaunchMethod.create knows, and the switch applies to some shipped config"""
    f = ctx.sched.func
    for i, (lm, old, new) in enumerate(ctx.sched.rewrites):
        rep.check(lm in ctx.lm, rid, f, 'the launch method %r tested by the '
                  'scheduler switch %r -> %r is a row of LaunchMethod.create'
                  % (lm, old, new), construct='switch-lm:%s' % (lm,),
                  message='%s switches scheduler %r to %r for launch method '
                  '%r, which is no row of the table of LaunchMethod.create '
                  '%s: no valid config can list it, the switch never applies'
                  % (f.qual, old, new, lm, sorted(ctx.lm.rows)), loc=f.loc(),
                  history='every shipped platform meant to be switched to %r '
                  'keeps scheduler %r' % (new, old))
        n = ctx.switch_hits.get(i, 0)
        listed = getattr(ctx, 'lm_listed', set())
        if n == 0 and not ({lm} | lm_siblings(ctx, lm)) & listed:
            # a switch for a launch method no shipped platform lists (yet):
            # dead for the shipped platforms, so nothing they resolve to can
            # be wrong because of it
            rep.info(rid, f, 'the scheduler switch %r -> %r for launch method '
                     '%r concerns no shipped platform (none lists that launch '
                     'method)' % (old, new, lm), f.loc())
            continue
        rep.check(n > 0, rid, f, 'the scheduler switch %r -> %r for launch '
                  'method %r applies to %d shipped resource x schema configs'
                  % (old, new, lm, n), construct='switch-live:%s:%s' % (lm, old),
                  message='%s switches scheduler %r to %r if %r is among the '
                  'launch methods, but no shipped resource x schema lists %r '
                  'together with agent_scheduler %r: the constants of the '
                  'switch and of the configs do not agree, scheduler %r is '
                  'never selected by it' % (f.qual, old, new, lm, lm, old,
                                            new), loc=f.loc(),
                  history='the shipped platforms listing launch method %r (or '
                  'a name of the same implementation) are given scheduler %r '
                  'instead of %r' % (lm, old, new))


def check_entry(prog, rep, ctx, rel, text, site, label, entry, rid='R17.1'):
    where = '%s::%s' % (rel, label)
    res   = '%s.%s' % (site, label)
    loc   = cfg_loc(rel, text, '"%s"' % label)
    n0    = len(rep.findings)

    def bad(construct, msg, hist):
        rep.bad(rid, where, construct, '%s: %s' % (res, msg), loc,
                history=hist)

    if not isinstance(entry, dict):
        bad('entry', 'the entry is not a JSON object', 'rp.Session(): '
            'ResourceConfig(%r) raises' % (entry,))
        return
    base = td_init(prog, ctx.td, entry)
    schemas = base.get('schemas')
    dflt    = base.get('default_schema')
    if not isinstance(schemas, dict) or not schemas:
        bad('schemas', 'no access schema is defined', 'PilotDescription('
            'resource=%r): get_resource_config returns a config without '
            'job_manager_endpoint / filesystem_endpoint' % res)
        return
    rep.check(isinstance(dflt, str) and dflt in schemas, rid, where,
              'default_schema %r is one of the schemas' % (dflt,),
              construct='default_schema:%s' % (dflt,),
              message='%s: default_schema %r is not among the schemas %s'
              % (res, dflt, sorted(schemas)), loc=loc,
              history='PilotDescription(resource=%r) without access_schema: '
              'get_resource_config raises RuntimeError("schema ... unknown") '
              'or returns a config without endpoints' % res)

    # schema values must be objects: dict_merge() refuses anything else, and
    # verify() refuses them for *every* schema of the resource
    nondict = set()
    for schema in sorted(schemas):
        scfg = schemas[schema]
        if ctx.merge.alias and isinstance(scfg, str) and scfg in schemas \
                and isinstance(schemas[scfg], dict):
            continue
        if not isinstance(scfg, dict):
            nondict.add(schema)
            bad('schemas.%s' % schema,
                'schema %r is %r, not an object: for this schema '
                'ru.dict_merge(rcfg, scfg) in Session.get_resource_config '
                'raises TypeError("*dict*_merge expects dicts")%s'
                % (schema, scfg, ', and for every other schema of the '
                   'resource rcfg.verify() raises TDTypeError (schemas must '
                   'be {str: AccessSchema})' if ctx.merge.verify and
                   not ctx.merge.alias else ''),
                'PilotDescription(resource=%r) with any access_schema (or '
                'none): Session.get_resource_config raises TDTypeError; with '
                'access_schema=%r it raises TypeError' % (res, schema))
        else:
            rep.ok(rid, where, '%s: schema %r is an object' % (res, schema),
                   loc)

    for schema in sorted(schemas):
        hist = 'PilotDescription(resource=%r, access_schema=%r)' % (res,
                                                                    schema)
        if schema in nondict:
            continue
        m    = json_copy(base)
        scfg = m['schemas'][schema]
        if ctx.merge.alias and isinstance(scfg, str):
            scfg = m['schemas'][scfg]
        dict_merge(m, scfg, ctx.merge.policy)
        m['label'] = res
        what = '%s x %s: ' % (res, schema)

        # typed verification
        if ctx.merge.verify:
            probs = [(p, why) for p, why in td_verify(prog, ctx.td, m)
                     if not any(p == 'schemas.%s' % x for x in nondict)]
            if probs:
                for p, why in probs:
                    bad('verify:%s' % p, 'rcfg.verify() in '
                        'Session.get_resource_config rejects %s: %s'
                        % (p, why), hist + ': get_resource_config raises '
                        'TDTypeError/TDKeyError (for every schema of this '
                        'resource)')
            else:
                rep.ok(rid, where, what + 'passes ResourceConfig.verify()',
                       loc)
                if rid == 'R17.1':
                    n1 = len(rep.findings)
                    check_hooks(prog, rep, ctx, where, res, schema, m, loc)
                    if len(rep.findings) == n1:
                        check_tail(prog, rep, ctx, where, res, schema, m, loc)

        # endpoints
        eps = [k for k in ('job_manager_endpoint', 'filesystem_endpoint')
               if not (isinstance(m.get(k), str) and m.get(k))]
        rep.check(not eps, rid, where, what + 'has job_manager_endpoint and '
                  'filesystem_endpoint after the merge',
                  construct='endpoints:%s:%s' % (schema, ','.join(eps)),
                  message='%s: schema %r leaves %s empty after the merge '
                  '(policy %s)' % (res, schema, eps, ctx.merge.policy),
                  loc=loc, history=hist + ': _start_pilot_bulk builds '
                  'ru.Url(None) / no launcher can submit the job')

        # string values are %-expanded with the pilot description
        if ctx.expand is not None:
            for k in sorted(m):
                v = m[k]
                if not isinstance(v, str) or '%' not in v:
                    continue
                why = expansion_problem(v, ctx.expand)
                rep.check(why is None, rid, where, what + 'value of %r '
                          'survives `%% expand` in _start_pilot_bulk' % k,
                          construct='expand:%s' % k,
                          message='%s: %r = %r cannot be %%-expanded with the '
                          'pilot description in PMGRLaunchingComponent.'
                          '_start_pilot_bulk: %s' % (res, k, v, why), loc=loc,
                          history=hist + ': the bulk launch raises, the pilot '
                          'becomes FAILED')

        # resource manager
        rm = m.get('resource_manager')
        rep.check(rm in ctx.rm, rid, where, what + 'resource_manager %r is in '
                  'the table of ResourceManager.get_manager' % (rm,),
                  construct='resource_manager:%s' % (rm,),
                  message='%s: resource_manager %r is not in the table of '
                  'ResourceManager.get_manager %s' % (res, rm,
                                                      sorted(ctx.rm.rows)),
                  loc=loc, history=hist + ': the agent raises '
                  'RuntimeError("ResourceManager %s unknown")' % (rm,))

        # launch methods
        lms = m.get('launch_methods')
        if not isinstance(lms, dict) or not [k for k in lms if k != 'order']:
            bad('launch_methods', 'no launch method is configured', hist +
                ': the agent raises RuntimeError("no valid launch methods '
                'found")')
        else:
            methods = [k for k in lms if k != 'order']
            for k in methods:
                rep.check(k in ctx.lm, rid, where, what + 'launch method %r '
                          'is in the table of LaunchMethod.create' % k,
                          construct='launch_method:%s' % k,
                          message='%s: launch method %r is not in the table '
                          'of LaunchMethod.create' % (res, k), loc=loc,
                          history=hist + ': LaunchMethod.create raises '
                          'ValueError("LaunchMethod %s unknown"), the method '
                          'is skipped; tasks needing it cannot be launched'
                          % k)
                rep.check(isinstance(lms[k], dict), rid, where, what +
                          'config of launch method %r is an object' % k,
                          construct='launch_method_cfg:%s' % k,
                          message='%s: the configuration of launch method %r '
                          'is %r, not an object' % (res, k, lms[k]), loc=loc,
                          history=hist + ': ru.Config(from_dict=%r) in '
                          '_prepare_launch_methods fails' % (lms[k],))
            order = lms.get('order') or [k for k in lms]
            if not isinstance(order, list):
                bad('order', "launch_methods['order'] is %r, not a list"
                    % (order,), hist)
                order = []
            if 'order' not in lms or not lms.get('order'):
                order = [k for k in order if k != 'order']
            miss = [k for k in order if k not in methods]
            unk  = [k for k in order if k in methods and k not in ctx.lm]
            rep.check(not miss and bool(order), rid, where, what + 'every '
                      'entry of launch_methods.order %s is a configured '
                      'method' % order,
                      construct='order:%s' % ','.join(map(str, miss or
                                                         ['<empty>'])),
                      message="%s: launch_methods['order'] names %s which "
                      'has no entry in launch_methods %s' % (res, miss,
                                                             methods),
                      loc=loc, history=hist + ': ResourceManager.'
                      '_prepare_launch_methods evaluates launch_methods[%r] '
                      '%s -> KeyError, the agent does not come up'
                      % (miss[0] if miss else '', 'outside of its try block'
                         if not ctx.lm_protected else ''))
            rep.check(len(unk) < max(len(order), 1), rid, where, what + 'at '
                      'least one ordered launch method is known',
                      construct='order-known',
                      message='%s: none of the ordered launch methods %s is '
                      'known' % (res, order), loc=loc, history=hist +
                      ': RuntimeError("no valid launch methods found")')

        # scheduler
        sn  = m.get(ctx.sched.keyattr or 'agent_scheduler')
        eff = effective_scheduler(ctx, sn, lms)
        rep.check(eff in ctx.sched, rid, where, what + 'agent_scheduler %r '
                  '(effective %r) is in the table of '
                  'AgentSchedulingComponent.create' % (sn, eff),
                  construct='agent_scheduler:%s' % (eff,),
                  message='%s: agent_scheduler %r (effective name %r) is not '
                  'in the table of AgentSchedulingComponent.create'
                  % (res, sn, eff), loc=loc, history=hist + ': the scheduler '
                  'component raises ValueError("Scheduler %s unknown")'
                  % (eff,))

        if rid == 'R17.1':
            check_switch(rep, ctx, res, schema, sn, eff, lms, hist)

        # executor
        sp = m.get(ctx.execu.keyattr or 'agent_spawner')
        rep.check(sp in ctx.execu, rid, where, what + 'agent_spawner %r is in '
                  'the table of AgentExecutingComponent.create' % (sp,),
                  construct='agent_spawner:%s' % (sp,),
                  message='%s: agent_spawner %r is not in the table of '
                  'AgentExecutingComponent.create' % (res, sp), loc=loc,
                  history=hist + ': the executing component raises '
                  'ValueError("AgentExecutingComponent %s unknown")' % (sp,))

        # agent config
        ac = m.get('agent_config')
        if isinstance(ac, dict):
            rep.ok(rid, where, what + 'agent_config is given inline', loc)
        else:
            okc = isinstance(ac, str) and ac in ctx.agent_cfgs
            rep.check(okc, rid, where, what + 'agent_config %r names shipped '
                      'configs/agent_%s.json' % (ac, ac),
                      construct='agent_config:%s' % (ac,),
                      message='%s: agent_config %r: there is no '
                      'configs/agent_%s.json (shipped: %s)'
                      % (res, ac, ac, sorted(ctx.agent_cfgs)), loc=loc,
                      history=hist + ': ru.Config(category="agent", name=%r) '
                      'finds no file and yields an empty agent config: no '
                      'bridges, no components, the pilot never runs a task'
                      % (ac,))
            if okc:
                u = ctx.used_agent_cfgs.setdefault(
                    ac, {'exec': set(), 'sched': set()})
                if sp in ctx.execu:
                    u['exec'].add(sp)
                if eff in ctx.sched:
                    u['sched'].add(eff)
    return len(rep.findings) - n0


def r17_1(prog, rep, ctx, rid='R17.1'):
    rep.rule('R17.1t', 'every row of the factory tables (get_manager, the four '
             'create methods, TMGR scheduler) resolves to an existing class of '
             'the right family', minimum=50)
    rep.rule(rid, 'every entry of every shipped resource_*.json, under each '
             'schema and after the merge/verify of get_resource_config, names '
             'a known RM, launch methods, order, scheduler, executor and '
             'agent config', minimum=1000)
    rep.rule('R17.8', 'the verification hooks rcfg.verify() runs (`_verify` '
             'of the config class and of the typed dictionaries nested in it, '
             'an overriding `verify`), evaluated on the merged config, accept '
             'every shipped resource x schema', minimum=120)
    rep.rule('R17.9', 'the launch method name tested by a scheduler switch '
             'of AgentSchedulingComponent.create is a row of '
             'LaunchMethod.create, the switch applies to some shipped config, '
             'and every shipped resource x schema which lists a launch method '
             'of the same implementation class (with the scheduler the switch '
             'replaces) is switched', minimum=3)
    n_res = n_pairs = 0
    for rel in ctx.files:
        base = rel.split('/')[-1]
        if not base.startswith('resource_'):
            continue
        site = base[len('resource_'):-len('.json')]
        data, text = load_json(prog, rep, rel, rid)
        rep.saw(rel)
        if data is None:
            continue
        if not isinstance(data, dict):
            rep.bad(rid, rel, 'toplevel:%s' % rel, '%s does not hold a JSON '
                    'object of resource entries' % rel, cfg_loc(rel),
                    history='rp.Session() fails while wrapping the entries '
                    'into ResourceConfig')
            continue
        for label, entry in data.items():
            n_res += 1
            check_entry(prog, rep, ctx, rel, text, site, label, entry, rid)
            if isinstance(entry, dict) and isinstance(entry.get('schemas'),
                                                      dict):
                n_pairs += len(entry['schemas'])
                for sname in sorted(entry['schemas']):
                    if sname != entry.get('default_schema'):
                        ctx.nondefault.append(('%s.%s' % (site, label), sname,
                                               entry.get('default_schema')))
    if rid == 'R17.1':
        check_switches(rep, ctx)
    rep.stat('resource_entries', n_res)
    rep.stat('resource_x_schema', n_pairs)
    if n_res < 1:
        raise AnalysisError('R17.1: no resource entries found below %s'
                            % CFG_DIR)


# ------------------------------------------------------------------------------
# R17.2
#
REG_CALLS = {'register_input': ('queue', 1), 'register_output': ('qname', 1),
             'register_publisher': ('pubsub', 0),
             'register_subscriber': ('pubsub', 0),
             'get_input_ep': ('qname', 0), 'get_output_ep': ('qname', 0)}


_reg_cache = {}


def _reg_calls(prog, f):
    """([(bridge name, call)], [super() calls]) of one function, cached"""
    key = id(f.node)
    if key not in _reg_cache:
        regs, sups = [], []
        for c in calls_in(f.node, nested=True):
            fn = c.func
            if not isinstance(fn, ast.Attribute):
                continue
            if fn.attr in REG_CALLS and isinstance(fn.value, ast.Name) and \
                    fn.value.id == 'self':
                spec = REG_CALLS[fn.attr]
                a = kwarg(c, spec[0], spec[1])
                if a is not None:
                    v = prog.fold(f.module, a, f.cls)
                    if isinstance(v, str):
                        regs.append((v, c))
            elif isinstance(fn.value, ast.Call) and \
                    isinstance(fn.value.func, ast.Name) and \
                    fn.value.func.id == 'super':
                sups.append(c)
        _reg_cache[key] = (f, regs, sups)
    return _reg_cache[key][1:]


def registered_bridges(prog, K):
    """{bridge name: (FuncInfo, call)} for the register_* calls in the methods
    a concrete class K sees (first definition along the MRO, plus what those
    reach through super())"""
    out = {}
    todo = list(I.class_methods(prog, K).values())
    seen = set()
    while todo:
        f = todo.pop()
        if id(f) in seen:
            continue
        seen.add(id(f))
        if f.name in REG_CALLS:
            continue                     # the registration primitives
        regs, sups = _reg_calls(prog, f)
        for v, c in regs:
            out.setdefault(v, (f, c))
        for c in sups:
            g = prog.resolve_call(f, c, K)
            if g is not None:
                todo.append(g)
    return out


def concrete_classes(prog, rep, base):
    """classes a component base class's create() can instantiate"""
    f = prog.find_method(base, 'create')
    if f is None:
        return [base]
    has_table = any(isinstance(n, ast.Assign) and isinstance(n.value, ast.Dict)
                    for n in walk(f.node))
    if not has_table:
        return [base]
    for anchor in (SCHED, EXEC, TMGRS):
        if (base.module.rel, base.name) == anchor:
            return None                  # chosen per resource / config
    t = factory_table(prog, rep, (base.module.rel, base.name), 'create',
                      'R17.1t')
    return [c for c in t.rows.values() if c is not None]


def components_of(cfg):
    """[(where, kind)] of a config: top level and sub-agents"""
    out = []
    comps = cfg.get('components')
    if isinstance(comps, dict):
        out += [('components', k) for k in comps]
    agents = cfg.get('agents')
    if isinstance(agents, dict):
        for a, acfg in agents.items():
            if isinstance(acfg, dict) and isinstance(acfg.get('components'),
                                                     dict):
                out += [('agents.%s.components' % a, k)
                        for k in acfg['components']]
    return out


def r17_2(prog, rep, ctx, rid='R17.2'):
    rep.rule(rid, 'component kinds of the shipped agent/tmgr/pmgr/session '
             'configs are in the table of BaseComponent.create; the tmgr '
             'scheduler name is known; the bridges the configured components '
             'register are declared in the config they run under', minimum=60)
    cfgs = {}
    for rel in ctx.files:
        base = rel.split('/')[-1]
        if base.startswith('resource_'):
            continue
        data, text = load_json(prog, rep, rel, rid)
        rep.saw(rel)
        if isinstance(data, dict):
            cfgs[base[:-len('.json')]] = (rel, data, text)
    for need in ('session_default', 'tmgr_default', 'pmgr_default',
                 'agent_default'):
        if need not in cfgs:
            raise AnalysisError('shipped config %s.json not found / not '
                                'readable' % need)
    session_bridges = set((cfgs['session_default'][1].get('bridges') or {}))
    # bridges the configs are responsible for: declared by some shipped
    # config.  Others (the proxy channels) are published into the registry at
    # run time by the session and are out of scope.
    declared = set()
    for name, (rel, data, text) in cfgs.items():
        if isinstance(data.get('bridges'), dict):
            declared |= set(data['bridges'])

    # (a) kinds
    for name, (rel, data, text) in sorted(cfgs.items()):
        for sect, kind in components_of(data):
            rep.check(kind in ctx.comp, rid, rel, '%s: component kind %r is '
                      'in the table of BaseComponent.create' % (sect, kind),
                      construct='kind:%s' % kind,
                      message='%s: %s lists component kind %r which is not in '
                      'the table of BaseComponent.create %s'
                      % (rel, sect, kind, sorted(ctx.comp.rows)),
                      loc=cfg_loc(rel, text, '"%s"' % kind),
                      history='a session/agent started with this config: '
                      'radical-pilot-component fails the assertion `cfg.kind '
                      'in comp`, start_components times out')
    # tmgr scheduler name
    rel, data, text = cfgs['tmgr_default']
    key = ctx.tmgrs.keyattr or 'scheduler'
    sn = data.get(key)
    rep.check(sn in ctx.tmgrs, rid, rel, 'tmgr %s %r is in the table of '
              'TMGRSchedulingComponent.create' % (key, sn),
              construct='tmgr_scheduler:%s' % (sn,),
              message='%s: %s %r is not in the table of '
              'TMGRSchedulingComponent.create %s' % (rel, key, sn,
                                                     sorted(ctx.tmgrs.rows)),
              loc=cfg_loc(rel, text, '"%s"' % key),
              history='rp.TaskManager(session) with the default config: the '
              'scheduling component raises ValueError("Scheduler ... '
              'unknown")')

    # (b) bridges
    def check_bridges(cname, visible, kinds, pick):
        rel, data, text = cfgs[cname]
        for sect, kind in kinds:
            base = ctx.comp.rows.get(kind)
            if base is None:
                continue
            classes = concrete_classes(prog, rep, base)
            if classes is None:
                classes = pick(base)
            for K in classes:
                for b, (f, call) in sorted(registered_bridges(prog,
                                                              K).items()):
                    rep.saw(f)
                    if b not in declared:
                        continue
                    rep.check(b in visible, rid, rel, '%s: bridge %r '
                              'registered by %s (%s) is declared'
                              % (cname, b, K.name, kind),
                              construct='bridge:%s:%s' % (K.name, b),
                              message='%s runs component %r (%s) which '
                              'registers bridge %r in %s, but the config '
                              'declares only %s' % (rel, kind, K.name, b,
                                                    f.qual, sorted(visible)),
                              loc=f.loc(call),
                              history='a pilot/session started with this '
                              "config: self._reg['bridges'][%r] raises "
                              'KeyError when %s initialises' % (b, K.name))

    for ac, used in sorted(ctx.used_agent_cfgs.items()):
        cname = 'agent_' + ac
        if cname not in cfgs:
            continue
        rel, data, text = cfgs[cname]
        visible = set((data.get('bridges') or {}))

        def pick(base, used=used):
            if (base.module.rel, base.name) == EXEC:
                return [ctx.execu.rows[n] for n in sorted(used['exec'])]
            if (base.module.rel, base.name) == SCHED:
                return [ctx.sched.rows[n] for n in sorted(used['sched'])]
            return []
        check_bridges(cname, visible, components_of(data), pick)

    def pick_client(base):
        if (base.module.rel, base.name) == TMGRS:
            return [c for n, c in ctx.tmgrs.rows.items()
                    if c is not None and n == cfgs['tmgr_default'][1].get(
                        ctx.tmgrs.keyattr or 'scheduler')]
        return []
    for cname in ('tmgr_default', 'pmgr_default', 'session_default'):
        rel, data, text = cfgs[cname]
        visible = set((data.get('bridges') or {})) | session_bridges
        check_bridges(cname, visible, components_of(data), pick_client)

    # information: shipped agent configs no resource refers to
    for name in sorted(ctx.agent_cfgs):
        if name not in ctx.used_agent_cfgs:
            rep.info(rid, ctx.agent_cfgs[name], 'shipped agent config %r is '
                     'not referenced by any shipped resource config (not '
                     'checked for bridge completeness)' % name)


# ------------------------------------------------------------------------------
# seeing through private helpers: `x = self._helper(a, b, k=c)` is replaced by
# the helper's body (parameters and locals renamed per call site, `return e`
# turned into `x = e`, early returns turned into if/else nests)
#
import copy

from ..model import FuncInfo


class _Rename(ast.NodeTransformer):

    def __init__(self, names, prefix):
        self.names, self.prefix = names, prefix

    def visit_Name(self, n):
        if n.id in self.names:
            return ast.copy_location(ast.Name(id=self.prefix + n.id,
                                              ctx=n.ctx), n)
        return n


def _has_return(stmts):
    return any(isinstance(x, ast.Return) for s in stmts
               for x in walk(s, nested=False))


def _returns_to(stmts, target, loc):
    """statement list with every `return e` replaced by `target = e`; None
    if a return sits inside a loop / try / with (not convertible)"""
    out = []
    for i, s in enumerate(stmts):
        if isinstance(s, ast.Return):
            v = s.value if s.value is not None else ast.Constant(value=None)
            a = ast.Assign(targets=[ast.Name(id=target, ctx=ast.Store())],
                           value=v)
            ast.copy_location(a, s)
            ast.fix_missing_locations(a)
            out.append(a)
            return out
        if isinstance(s, ast.If) and _has_return([s]):
            rest = stmts[i + 1:]
            body = _returns_to(list(s.body) + copy.deepcopy(rest), target, loc)
            orel = _returns_to(list(s.orelse) + copy.deepcopy(rest), target,
                               loc)
            if body is None or orel is None:
                return None
            n = ast.If(test=s.test, body=body or [ast.Pass()], orelse=orel)
            ast.copy_location(n, s)
            ast.fix_missing_locations(n)
            out.append(n)
            return out
        if _has_return([s]):
            return None
        out.append(s)
    return out


def _always_returns(stmts):
    if not stmts:
        return False
    last = stmts[-1]
    if isinstance(last, (ast.Return, ast.Raise)):
        return True
    if isinstance(last, ast.If):
        return _always_returns(last.body) and _always_returns(last.orelse)
    return False


def _inlinable(prog, f, h):
    """a private helper of the same module which is not dispatched virtually
    (no other class of the hierarchy defines the name) and always returns"""
    if h is None or h is f or h.module is not f.module or h.cls is None or \
            not h.name.startswith('_') or h.name.startswith('__'):
        return False
    for k in prog.subclasses(h.cls, strict=True):
        if h.name in k.methods:
            return False
    return _always_returns(h.node.body)


def _inline_call(prog, f, call, target, seq, depth):
    """statements replacing `target = call`, or None"""
    h = prog.resolve_call(f, call, f.cls)
    if not _inlinable(prog, f, h) or depth > 2:
        return None
    a = h.node.args
    if a.vararg or a.kwarg or a.posonlyargs or any(
            isinstance(x, (ast.Yield, ast.YieldFrom, ast.Await, ast.Global,
                           ast.Nonlocal, ast.FunctionDef, ast.Lambda,
                           ast.ClassDef))
            for x in walk(h.node, nested=True) if x is not h.node):
        return None
    if any(isinstance(x, ast.Starred) for x in call.args) or any(
            k.arg is None for k in call.keywords):
        return None
    deco = {dotted(d) for d in h.node.decorator_list}
    if deco - {'staticmethod', 'classmethod'}:
        return None
    params = [x.arg for x in a.args]
    bound = {}
    if 'staticmethod' not in deco and params:
        bound[params[0]] = None                     # self / cls: not renamed
        params = params[1:]
    pos = list(call.args)
    if len(pos) > len(params):
        return None
    for p_, v in zip(params, pos):
        bound[p_] = v
    for k in call.keywords:
        if k.arg in bound or k.arg not in params + [x.arg
                                                    for x in a.kwonlyargs]:
            return None
        bound[k.arg] = k.value
    defaults = dict(zip([x.arg for x in a.args][len(a.args) -
                                                len(a.defaults):],
                        a.defaults))
    for x, dv in zip(a.kwonlyargs, a.kw_defaults):
        if dv is not None:
            defaults[x.arg] = dv
    for p_ in params + [x.arg for x in a.kwonlyargs]:
        if p_ not in bound:
            if p_ not in defaults:
                return None
            bound[p_] = defaults[p_]
    body = copy.deepcopy(h.node.body)
    if body and isinstance(body[0], ast.Expr) and \
            isinstance(body[0].value, ast.Constant):
        body = body[1:]                             # docstring
    prefix = '_i%d_' % seq[0]
    seq[0] += 1
    ret = prefix + 'ret'
    body = _returns_to(body, ret, call)
    if body is None:
        return None
    local = {p_ for p_, v in bound.items() if v is not None}
    for st in body:
        for x in walk(st, nested=True):
            if isinstance(x, ast.Name) and isinstance(x.ctx, (ast.Store,
                                                              ast.Del)):
                local.add(x.id)
    rn = _Rename(local - {ret}, prefix)
    body = [rn.visit(st) for st in body]
    pre = []
    for p_, v in bound.items():
        if v is None:
            continue
        st = ast.Assign(targets=[ast.Name(id=prefix + p_, ctx=ast.Store())],
                        value=copy.deepcopy(v))
        ast.copy_location(st, call)
        ast.fix_missing_locations(st)
        pre.append(st)
    post = ast.Assign(targets=[copy.deepcopy(target)],
                      value=ast.Name(id=ret, ctx=ast.Load()))
    ast.copy_location(post, call)
    ast.fix_missing_locations(post)
    # helpers called by the helper
    hf = FuncInfo(h.name, h.qual, h.module, h.cls,
                  ast.FunctionDef(name=h.name, args=h.node.args, body=body,
                                  decorator_list=[], returns=None,
                                  lineno=h.node.lineno, col_offset=0))
    body = _inline_stmts(prog, hf, body, seq, depth + 1)
    return pre + body + [post]


def _inline_stmts(prog, f, stmts, seq, depth=0):
    out = []
    for st in stmts:
        if isinstance(st, ast.Assign) and len(st.targets) == 1 and \
                isinstance(st.targets[0], ast.Name) and \
                isinstance(st.value, ast.Call):
            d = call_name(st.value)
            if d.startswith(('self.', 'cls.')) or \
                    f.cls is not None and d.startswith(f.cls.name + '.'):
                rep_ = _inline_call(prog, f, st.value, st.targets[0], seq,
                                    depth)
                if rep_ is not None:
                    out += rep_
                    continue
        for fld in ('body', 'orelse', 'finalbody'):
            sub = getattr(st, fld, None)
            if isinstance(sub, list) and sub and isinstance(sub[0], ast.stmt) \
                    and not isinstance(st, (ast.FunctionDef, ast.ClassDef)):
                setattr(st, fld, _inline_stmts(prog, f, sub, seq, depth))
        for hd in getattr(st, 'handlers', []) or []:
            hd.body = _inline_stmts(prog, f, hd.body, seq, depth)
        out.append(st)
    return out


# ------------------------------------------------------------------------------
# seeing through record values: a local which only ever holds a namedtuple
# built in the function (`size = PilotSize(a, b, c)`, possibly the inlined
# return value of a helper) and is only read field by field (`size.nodes`,
# `size[2]`, `a, b, c = size`) is replaced by one local per field.  Evaluation
# order and values are unchanged; the def-use chains of the fields become
# visible to the symbolic evaluation.
#
def _record_fields(prog, mod, func_expr, limps=None):
    """field names if `func_expr` names a namedtuple type defined in the
    package (`X = namedtuple('X', 'a b')` or `class X(NamedTuple)` without
    defaults), else None"""
    r = prog.resolve(mod, func_expr, limps)
    if not r:
        return None
    if r[0] == 'const':
        vals = r[2]
        if len(vals) != 1 or not isinstance(vals[0], ast.Call):
            return None
        c = vals[0]
        rr = prog.resolve(r[1], c.func)
        if not rr or rr[0] != 'ext' or \
                rr[1] not in ('collections.namedtuple', 'namedtuple'):
            return None
        if any(k.arg not in ('typename', 'field_names') for k in c.keywords):
            return None
        fn = kwarg(c, 'field_names', 1)
        if isinstance(fn, ast.Constant) and isinstance(fn.value, str):
            fields = fn.value.replace(',', ' ').split()
        elif isinstance(fn, (ast.List, ast.Tuple)) and all(
                isinstance(x, ast.Constant) and isinstance(x.value, str)
                for x in fn.elts):
            fields = [x.value for x in fn.elts]
        else:
            return None
    elif r[0] == 'class':
        k = r[1]
        if not any(dotted(b).split('.')[-1] == 'NamedTuple'
                   for b in k.node.bases):
            return None
        fields = []
        for s in k.node.body:
            if isinstance(s, ast.AnnAssign) and isinstance(s.target, ast.Name):
                if s.value is not None:
                    return None
                fields.append(s.target.id)
            elif isinstance(s, ast.Expr) and isinstance(s.value, ast.Constant):
                continue
            else:
                return None
    else:
        return None
    if not fields or len(set(fields)) != len(fields) or \
            not all(x.isidentifier() and not x.startswith('_') for x in fields):
        return None
    return fields


def _const_index(sl):
    """k of a subscript `[k]` / `[-k]` with a literal integer, else None"""
    if isinstance(sl, ast.UnaryOp) and isinstance(sl.op, ast.USub):
        k = _const_index(sl.operand)
        return None if k is None else -k
    if isinstance(sl, ast.Constant) and isinstance(sl.value, int) and \
            not isinstance(sl.value, bool):
        return sl.value
    return None


def _scalarize(prog, f, node):
    """split record-valued locals of `node` (a FunctionDef, changed in place)
    into one local per field; True if something was rewritten"""
    limps = f.module.local_imports(node)

    def fields_of(call):
        if not isinstance(call, ast.Call) or any(
                isinstance(a, ast.Starred) for a in call.args) or any(
                    k.arg is None for k in call.keywords):
            return None
        fl = _record_fields(prog, f.module, call.func, limps)
        if fl is None:
            return None
        got = list(range(len(call.args))) + [
            fl.index(k.arg) if k.arg in fl else -1 for k in call.keywords]
        if sorted(got) != list(range(len(fl))):
            return None
        return fl

    def ctor_args(call, fl):
        """[(field, argument)] in the order the arguments are evaluated"""
        return [(fl[i], a) for i, a in enumerate(call.args)] + \
            [(k.arg, k.value) for k in call.keywords]

    parent = {}
    nested = set()
    for p in ast.walk(node):
        for c in ast.iter_child_nodes(p):
            parent[id(c)] = p
            if id(p) in nested or (p is not node and isinstance(
                    p, (ast.FunctionDef, ast.AsyncFunctionDef, ast.Lambda,
                        ast.ClassDef))):
                nested.add(id(c))

    def single(st):
        return isinstance(st, ast.Assign) and len(st.targets) == 1 and \
            isinstance(st.targets[0], ast.Name)

    cand = {}
    for st in ast.walk(node):
        if single(st) and id(st) not in nested:
            fl = fields_of(st.value)
            if fl is not None:
                cand.setdefault(st.targets[0].id, fl)
    if not cand:
        return False
    changed = True
    while changed:
        changed = False
        for st in ast.walk(node):
            if single(st) and isinstance(st.value, ast.Name) and \
                    st.value.id in cand and st.targets[0].id not in cand:
                cand[st.targets[0].id] = cand[st.value.id]
                changed = True

    def use_ok(n):
        fl = cand[n.id]
        p = parent.get(id(n))
        if id(n) in nested:
            return False
        if isinstance(n.ctx, ast.Store):
            if not (single(p) and p.targets[0] is n):
                return False
            v = p.value
            if isinstance(v, ast.Name):
                return cand.get(v.id) == fl
            if fields_of(v) != fl:
                return False
            # the arguments must not read a record local (sequential stores)
            return not any(isinstance(x, ast.Name) and x.id in cand
                           for _, a in ctor_args(v, fl) for x in ast.walk(a))
        if not isinstance(n.ctx, ast.Load):
            return False
        if isinstance(p, ast.Attribute) and p.value is n:
            return isinstance(p.ctx, ast.Load) and p.attr in fl
        if isinstance(p, ast.Subscript) and p.value is n:
            k = _const_index(p.slice)
            return isinstance(p.ctx, ast.Load) and k is not None and \
                -len(fl) <= k < len(fl)
        if isinstance(p, ast.Assign) and p.value is n and len(p.targets) == 1:
            t = p.targets[0]
            if isinstance(t, ast.Name):
                return cand.get(t.id) == fl
            return isinstance(t, (ast.Tuple, ast.List)) and \
                len(t.elts) == len(fl) and all(
                    isinstance(x, ast.Name) and x.id not in cand
                    for x in t.elts)
        return False

    changed = True
    while changed and cand:
        changed = False
        for n in ast.walk(node):
            if isinstance(n, ast.Name) and n.id in cand and not use_ok(n):
                del cand[n.id]
                changed = True
    if not cand:
        return False

    def fname(x, fld):
        return '%s__%s' % (x, fld)

    taken = {n.id for n in ast.walk(node) if isinstance(n, ast.Name)} | \
        {a.arg for a in ast.walk(node) if isinstance(a, ast.arg)}
    if any(fname(x, fld) in taken for x, fl in cand.items() for fld in fl):
        return False

    def mk(target, value, loc):
        st = ast.Assign(targets=[ast.Name(id=target, ctx=ast.Store())],
                        value=value)
        ast.copy_location(st, loc)
        return st

    class Reads(ast.NodeTransformer):
        def visit_Attribute(self, n):
            if isinstance(n.value, ast.Name) and n.value.id in cand:
                return ast.copy_location(
                    ast.Name(id=fname(n.value.id, n.attr), ctx=ast.Load()), n)
            return self.generic_visit(n)

        def visit_Subscript(self, n):
            if isinstance(n.value, ast.Name) and n.value.id in cand:
                fl = cand[n.value.id]
                return ast.copy_location(
                    ast.Name(id=fname(n.value.id, fl[_const_index(n.slice)]),
                             ctx=ast.Load()), n)
            return self.generic_visit(n)

    reads = Reads()

    def rewrite(stmts):
        out = []
        for st in stmts:
            if isinstance(st, ast.Assign) and len(st.targets) == 1:
                t, v = st.targets[0], st.value
                if isinstance(t, ast.Name) and t.id in cand:
                    fl = cand[t.id]
                    if isinstance(v, ast.Name):
                        out += [mk(fname(t.id, fld), ast.Name(
                            id=fname(v.id, fld), ctx=ast.Load()), st)
                            for fld in fl]
                    else:
                        out += [mk(fname(t.id, fld), reads.visit(a), st)
                                for fld, a in ctor_args(v, fl)]
                    continue
                if isinstance(v, ast.Name) and v.id in cand:
                    out += [mk(x.id, ast.Name(id=fname(v.id, fld),
                                              ctx=ast.Load()), st)
                            for x, fld in zip(t.elts, cand[v.id])]
                    continue
            for fld in ('body', 'orelse', 'finalbody'):
                sub = getattr(st, fld, None)
                if isinstance(sub, list) and sub and \
                        isinstance(sub[0], ast.stmt) and not isinstance(
                            st, (ast.FunctionDef, ast.AsyncFunctionDef,
                                 ast.ClassDef)):
                    setattr(st, fld, rewrite(sub))
            for hd in getattr(st, 'handlers', []) or []:
                hd.body = rewrite(hd.body)
            for cs in getattr(st, 'cases', []) or []:
                cs.body = rewrite(cs.body)
            out.append(reads.visit(st))
        return out

    node.body = rewrite(node.body)
    ast.fix_missing_locations(node)
    return True


_inlined = {}


def see_through(prog, f):
    """FuncInfo of f with its same-module private helpers inlined and its
    record-valued locals split into fields (f itself if there is nothing to
    do)"""
    key = id(f.node)
    if key in _inlined:
        return _inlined[key][1]
    has = False
    for c in calls_in(f.node):
        d = call_name(c)
        if d.startswith(('self.', 'cls.')):
            if _inlinable(prog, f, prog.resolve_call(f, c, f.cls)):
                has = True
    out = f
    node = copy.deepcopy(f.node)
    done = False
    if has:
        seq = [1]
        tmp = FuncInfo(f.name, f.qual, f.module, f.cls, node)
        node.body = _inline_stmts(prog, tmp, node.body, seq)
        done = seq[0] > 1
    if _scalarize(prog, f, node):
        done = True
    if done:
        ast.fix_missing_locations(node)
        out = FuncInfo(f.name, f.qual, f.module, f.cls, node)
    _inlined[key] = (f, out)
    return out


# ------------------------------------------------------------------------------
# R17.3   _prepare_pilot
#
class ReachingDefs:
    """reaching definitions of plain names on the CFG of one function"""

    def __init__(self, g):
        self.g = g
        self.defs = {}               # node id -> set(names defined)
        for n in g.nodes:
            names = set()
            a = n.ast
            if n.kind == 'stmt' and a is not None:
                if isinstance(a, ast.Assign):
                    for t in a.targets:
                        names |= set(stores_in_target(t))
                elif isinstance(a, (ast.AugAssign, ast.AnnAssign)):
                    names |= set(stores_in_target(a.target))
                for x in walk(a):
                    if isinstance(x, ast.NamedExpr):
                        names |= set(stores_in_target(x.target))
            elif n.kind == 'for' and a is not None:
                names |= set(stores_in_target(a.target))
            elif n.kind == 'with' and a is not None:
                for i in a.items:
                    if i.optional_vars is not None:
                        names |= set(stores_in_target(i.optional_vars))
            elif n.kind == 'handler' and a is not None and a.name:
                names.add(a.name)
            if names:
                self.defs[n.id] = names
        self.by_name = {}
        for nid, names in self.defs.items():
            for name in names:
                self.by_name.setdefault(name, set()).add(nid)
        self._reach = {}

    def _from(self, name, d):
        """node ids whose entry is reached by definition d of name"""
        key = (name, d)
        if key not in self._reach:
            g = self.g
            others = self.by_name[name]
            inner = g.reachable([e.dst for e in g.succ[d]
                                 if e.dst not in others], skip_nodes=others)
            # entries of other definitions (and of d itself, through a loop)
            border = set()
            for o in others:
                for e in g.pred[o]:
                    if e.src in inner or e.src == d:
                        border.add(o)
            self._reach[key] = inner | border
        return self._reach[key]

    def reaching(self, nid, name):
        return frozenset(d for d in self.by_name.get(name, ())
                         if nid in self._from(name, d))


class Values:
    """value identity of expressions at program points: names are replaced by
    the (single) plain assignment which reaches them, so that copies and
    renamed temporaries compare equal; `+` is commutative"""

    def __init__(self, g, rd, params):
        self.g, self.rd, self.params = g, rd, set(params)

    def vid(self, expr, nid, depth=0):
        if isinstance(expr, ast.Constant):
            return ('c', repr(expr.value))
        if isinstance(expr, ast.Name):
            defs = self.rd.reaching(nid, expr.id)
            if len(defs) == 1 and depth < 8:
                d = self.g.nodes[next(iter(defs))]
                a = d.ast
                if d.kind == 'stmt' and isinstance(a, ast.Assign) and \
                        len(a.targets) == 1 and \
                        isinstance(a.targets[0], ast.Name):
                    if isinstance(a.value, (ast.Name, ast.BinOp)):
                        return self.vid(a.value, d.id, depth + 1)
                    return ('def', d.id)
            if not defs:
                return ('free', expr.id)
            return ('defs', expr.id, tuple(sorted(defs)))
        if isinstance(expr, ast.BinOp):
            l = self.vid(expr.left, nid, depth + 1)
            r = self.vid(expr.right, nid, depth + 1)
            if isinstance(expr.op, ast.Add):
                return ('add',) + tuple(sorted([l, r], key=repr))
            return (type(expr.op).__name__, l, r)
        names = sorted(x.id for x in walk(expr) if isinstance(x, ast.Name)
                       and isinstance(x.ctx, ast.Load))
        return ('expr', unparse(expr),
                tuple(self.vid(ast.Name(id=n, ctx=ast.Load()), nid, depth + 1)
                      for n in names))


def _sink_var(f, key):
    """name of the local stored as pilot[<key>] (last non-None store)"""
    var = None
    for n in walk(f.node):
        if isinstance(n, ast.Assign) and len(n.targets) == 1 and \
                isinstance(n.targets[0], ast.Subscript) and \
                isinstance(n.targets[0].slice, ast.Constant) and \
                n.targets[0].slice.value == key and \
                isinstance(n.value, ast.Name):
            var = n.value.id
    if var is None:
        raise AnalysisError("UNRECOGNISED-IDIOM %s: no `pilot[%r] = <name>`"
                            % (f.where, key))
    return var


def _stores_to(g, var, key):
    """[(cfg node, value expr)] for  var[key] = v  /  var.key = v"""
    out = []
    for n in g.stmt_nodes():
        if n.kind != 'stmt' or not isinstance(n.ast, ast.Assign):
            continue
        for t in n.ast.targets:
            if isinstance(t, ast.Subscript) and isinstance(t.value, ast.Name) \
                    and t.value.id == var and \
                    isinstance(t.slice, ast.Constant) and t.slice.value == key:
                out.append((n, n.ast.value))
            elif isinstance(t, ast.Attribute) and \
                    isinstance(t.value, ast.Name) and t.value.id == var and \
                    t.attr == key:
                out.append((n, n.ast.value))
    return out


def poly_atoms(p):
    out = set()
    for k in p.t:
        out |= set(k)
    return out


def node_divisions(f, ev, smap):
    """{'cores': (BinOp, cfg node, Poly of the divisor), 'gpus': ...}: the
    divisions of the node computation, identified by the configured quantity
    their divisor is (flow sensitively) made of"""
    found = {'cores': [], 'gpus': []}
    keys = {'cores': ('rcfg.cores_per_node', "rcfg['cores_per_node']"),
            'gpus': ('rcfg.gpus_per_node', "rcfg['gpus_per_node']")}
    for n in walk(f.node):
        if not (isinstance(n, ast.BinOp) and
                isinstance(n.op, (ast.Div, ast.FloorDiv))) or \
                id(n) not in smap:
            continue
        D = ev.poly(n.right, smap[id(n)].id)
        texts = {a[1] for a in poly_atoms(D) if a[0] == 'expr'}
        hit = [w for w in keys if texts & set(keys[w])]
        if len(hit) == 1:
            found[hit[0]].append((n, smap[id(n)], D))
    if len(found['cores']) != 1 or len(found['gpus']) != 1:
        raise AnalysisError('UNRECOGNISED-IDIOM %s: expected one division by '
                            'the cores per node and one by the gpus per node, '
                            'found %d / %d' % (f.where, len(found['cores']),
                                               len(found['gpus'])))
    return {w: found[w][0] for w in found}


AGENT_KEYS = {'requested_nodes': 'nodes', 'backup_nodes': 'backup_nodes',
              'requested_cores': 'cores', 'requested_gpus': 'gpus'}


def r17_3(prog, rep, rid='R17.3'):
    rep.rule(rid, '_prepare_pilot: jd.node_count is the sum of the two node '
             'figures the agent receives; total cpu/gpu counts and the agent '
             'cores/gpus are one definition; the divisors of the node '
             'computation depend on SMT and the blocked lists; the agent '
             'reads the keys written (rounding and combination: R17.5)',
             minimum=10)
    f = see_through(prog, prog.method(PMGRL[0], PMGRL[1], '_prepare_pilot'))
    rep.saw(f)
    g = cfg_of(f)
    rd = ReachingDefs(g)
    V = Values(g, rd, f.params)
    d = Deps(f.node)
    rep.stat('cfg_nodes', len(g.nodes))
    avar = _sink_var(f, 'cfg')
    jvar = _sink_var(f, 'jd_dict')

    def one(var, key):
        s = _stores_to(g, var, key)
        if len(s) != 1:
            raise AnalysisError('UNRECOGNISED-IDIOM %s: %d stores to %s[%r] '
                                '(expected one)' % (f.where, len(s), var, key))
        return s[0]

    # cores / gpus
    for jkey, akey, what in (('total_cpu_count', 'cores', 'cores'),
                             ('total_gpu_count', 'gpus', 'GPUs')):
        jn, jv = one(jvar, jkey)
        an, av = one(avar, akey)
        same = V.vid(jv, jn.id) == V.vid(av, an.id)
        rep.check(same, rid, f, "jd.%s and agent_cfg[%r] are the same "
                  'definition' % (jkey, akey), construct='%s~%s' % (jkey, akey),
                  message="the batch job asks for `%s` %s while the agent is "
                  "told `%s`: these are not the same value on every path"
                  % (short(jv), what, short(av)), loc=f.loc(an.ast),
                  history='any pilot on a platform with known node size: the '
                  'agent schedules onto %s the job did not allocate (or '
                  'leaves allocated %s unused)' % (what, what))
    # nodes
    jn, jv = one(jvar, 'node_count')
    n1, v1 = one(avar, 'nodes')
    n2, v2 = one(avar, 'backup_nodes')
    want = ('add',) + tuple(sorted([V.vid(v1, n1.id), V.vid(v2, n2.id)],
                                   key=repr))
    rep.check(V.vid(jv, jn.id) == want, rid, f, "jd.node_count is "
              "agent_cfg['nodes'] + agent_cfg['backup_nodes']",
              construct='node_count', message='jd.node_count = `%s` is not '
              "the sum of the values handed to the agent as 'nodes' (`%s`) "
              "and 'backup_nodes' (`%s`)" % (short(jv), short(v1), short(v2)),
              loc=f.loc(jn.ast), history='pilot with nodes=4, backup_nodes=2: '
              'the job allocates a node count different from the 4+2 the '
              'agent expects; RM reduction/assert '
              '`requested_nodes <= len(node_list)` fails or nodes idle')

    # the node computation
    smap = I.stmt_node_map(g)
    ev = SymEval(f)
    nd = node_divisions(f, ev, smap)
    for what, needs in (('cores', ('smt', 'blocked_cores')),
                        ('gpus', ('blocked_gpus',))):
        div, dnode, D = nd[what]
        have = poly_atoms(D)
        for need in needs:
            if need == 'smt':
                # locals whose definition reads the configured item
                carriers = set()
                for n in walk(f.node):
                    if isinstance(n, ast.Assign) and any(
                            x in unparse(n.value)
                            for x in ("'smt'", 'RADICAL_SMT')):
                        for t in n.targets:
                            carriers |= set(stores_in_target(t))
                okd = False
                for c in sorted(carriers):
                    at = poly_atoms(ev.value(c, dnode.id))
                    okd |= bool(at) and at <= have
            else:
                okd = ('len', 'key:' + need) in have
            rep.check(okd, rid, f, 'divisor of the %s node '
                      'computation `%s` depends on %s' % (what,
                                                          short(div.right),
                                                          need),
                      construct='divisor:%s:%s' % (what, need),
                      message='the number of nodes is computed as `%s` whose '
                      'divisor (%s) does not involve the configured %s: the '
                      'job requests too few (or too many) nodes'
                      % (short(div), D.show(), need), loc=f.loc(div),
                      history={'smt': 'platform with system_architecture.smt=4'
                               ' and 42 cores per node, 168 cores requested: '
                               '4 nodes instead of 1',
                               'blocked_cores': 'platform with 2 blocked cores'
                               ' of 8, 24 cores requested: 3 nodes requested, '
                               '4 needed',
                               'blocked_gpus': 'platform with 1 blocked GPU '
                               'of 2, 4 GPUs requested: 2 nodes requested, 4 '
                               'needed'}[need])
    # agent side reads what was written
    written = set()
    for n in g.stmt_nodes():
        if n.kind == 'stmt' and isinstance(n.ast, ast.Assign):
            for t in n.ast.targets:
                if isinstance(t, ast.Subscript) and \
                        isinstance(t.value, ast.Name) and t.value.id == avar \
                        and isinstance(t.slice, ast.Constant):
                    written.add(t.slice.value)
    rf = prog.method(RM[0], RM[1], '_init_from_scratch')
    rep.saw(rf)
    seen = set()
    for n in walk(rf.node):
        if isinstance(n, ast.Assign) and len(n.targets) == 1 and \
                isinstance(n.targets[0], ast.Attribute) and \
                n.targets[0].attr in AGENT_KEYS:
            attr = n.targets[0].attr
            keys = set()
            for x in walk(n.value):
                dd = dotted(x) if isinstance(x, ast.Attribute) else ''
                if dd.startswith('self._cfg.') and dd.count('.') == 2:
                    keys.add(dd.split('.')[2])
                if isinstance(x, ast.Subscript) and \
                        unparse(x.value) == 'self._cfg' and \
                        isinstance(x.slice, ast.Constant):
                    keys.add(x.slice.value)
                if isinstance(x, ast.Call) and \
                        call_name(x) == 'self._cfg.get' and x.args and \
                        isinstance(x.args[0], ast.Constant):
                    keys.add(x.args[0].value)
            keys.discard('get')
            if not keys:
                continue                  # derived later from other figures
            seen.add(attr)
            want_key = AGENT_KEYS[attr]
            rep.check(bool(keys) and keys <= written and want_key in keys,
                      rid, rf, 'rm_info.%s is read from the agent config key '
                      '%r written by _prepare_pilot' % (attr, want_key),
                      construct=n, message='ResourceManager._init_from_scratch '
                      'fills rm_info.%s from `%s`, but _prepare_pilot hands '
                      'that figure to the agent as agent_cfg[%r]'
                      % (attr, short(n.value), want_key), loc=rf.loc(n),
                      history='every pilot: the agent sizes its node list by '
                      'a value (None or another figure) the job description '
                      'did not use')
    if seen != set(AGENT_KEYS):
        raise AnalysisError('UNRECOGNISED-IDIOM %s: rm_info.%s not assigned'
                            % (rf.where, sorted(set(AGENT_KEYS) - seen)))


# ------------------------------------------------------------------------------
# R17.4   client and agent agree on the usable cores / gpus per node
#
class Poly:
    """polynomial with numeric coefficients over opaque atoms:
    {sorted tuple of atoms: coefficient}"""

    def __init__(self, terms=None):
        self.t = {k: v for k, v in (terms or {}).items() if v != 0}

    @staticmethod
    def const(c):
        return Poly({(): c})

    @staticmethod
    def atom(a):
        return Poly({(a,): 1})

    def __add__(self, o):
        t = dict(self.t)
        for k, v in o.t.items():
            t[k] = t.get(k, 0) + v
        return Poly(t)

    def __neg__(self):
        return Poly({k: -v for k, v in self.t.items()})

    def __sub__(self, o):
        return self + (-o)

    def __mul__(self, o):
        t = {}
        for k1, v1 in self.t.items():
            for k2, v2 in o.t.items():
                k = tuple(sorted(k1 + k2, key=repr))
                t[k] = t.get(k, 0) + v1 * v2
        return Poly(t)

    def __eq__(self, o):
        return self.t == o.t

    def __ne__(self, o):
        return self.t != o.t

    def show(self):
        def name(a):
            if a[0] == 'len':
                return 'len(%s)' % a[1].split(':', 1)[-1]
            if a[0] == 'expr':
                return a[1]
            if a[0] == 'free':
                return a[1]
            return str(a[1]) if len(a) > 1 else str(a)
        out = []
        for k, v in sorted(self.t.items(), key=repr):
            m = '*'.join(short(name(a), 40) for a in k)
            if not k:
                out.append('%s' % v)
            elif v == 1:
                out.append(m)
            elif v == -1:
                out.append('-' + m)
            else:
                out.append('%s*%s' % (v, m))
        return ' + '.join(out).replace('+ -', '- ') or '0'


class SymEval:
    """straight-line symbolic evaluation of numeric locals of one function
    over reaching definitions, at the *generic point*: a conditional update
    whose only extra guards are truth tests of plain names (`if x and smt:
    x *= smt`, `if avail and blocked: avail -= len(blocked)`) is taken - it is
    skipped only when one of the quantities is zero / empty.  Everything the
    evaluator does not understand becomes an opaque atom (same text and same
    reaching definitions => same value); control shapes it does not understand
    raise UNRECOGNISED-IDIOM."""

    def __init__(self, f):
        self.f  = f
        self.g  = cfg_of(f)
        self.rd = ReachingDefs(self.g)
        self._guards = {}
        self._memo = {}

    def guards(self, nid):
        if nid not in self._guards:
            self._guards[nid] = set(guards(self.g, nid))
        return self._guards[nid]

    def _generic_guards(self, d, at):
        """extra guards of definition d (relative to node `at`) if they all
        are truth tests of plain names / attribute paths, else None"""
        out = []
        for tid, lab in self.guards(d) - self.guards(at):
            a = self.g.nodes[tid].ast
            if lab == 'T' and isinstance(a, (ast.Name, ast.Attribute)):
                out.append(tid)
            else:
                return None
        return out

    def pick(self, name, nid):
        """the definition of `name` in force at the entry of node nid, at the
        generic point: a definition whose extra guards are "quantity known /
        list non-empty" tests wins if, once those tests are assumed true, no
        other definition reaches the node"""
        defs = sorted(self.rd.reaching(nid, name))
        if not defs:
            return None
        if len(defs) == 1:
            return defs[0]
        g = self.g
        reach = {d: g.reachable([e.dst for e in g.succ[d]], no_back=True)
                 for d in defs}
        order = sorted(defs, key=lambda d: -sum(1 for o in defs
                                                if o != d and d in reach[o]))
        for d in order:
            gg = self._generic_guards(d, nid)
            if not gg:
                continue
            pr = [(t, 'F') for t in gg]
            alive = g.reachable(g.entry.id, skip_edges=pr)
            surv = []
            for o in defs:
                if o not in alive:
                    continue
                r = g.reachable([e.dst for e in g.succ[o]],
                                skip_nodes=set(defs) - {nid}, skip_edges=pr)
                if nid in r:
                    surv.append(o)
            if surv == [d]:
                return d
        raise AnalysisError(
            'UNRECOGNISED-IDIOM %s: %d definitions of %r reach `%s` and none '
            'of them is a conditional update guarded only by "quantity is '
            'known / list is non-empty" tests'
            % (self.f.where, len(defs), name, short(g.nodes[nid].ast)))

    def value(self, name, nid, depth=0):
        key = (name, nid)
        if key in self._memo:
            return self._memo[key]
        if depth > 30:
            raise AnalysisError('UNRECOGNISED-IDIOM %s: cyclic definition of '
                                '%r' % (self.f.where, name))
        d = self.pick(name, nid)
        if d is None:
            out = Poly.atom(('free', name))
        else:
            n = self.g.nodes[d]
            a = n.ast
            if n.kind == 'stmt' and isinstance(a, ast.Assign) and \
                    len(a.targets) == 1 and isinstance(a.targets[0], ast.Name):
                out = self.poly(a.value, d, depth + 1)
            elif n.kind == 'stmt' and isinstance(a, ast.AugAssign) and \
                    isinstance(a.target, ast.Name):
                out = self.combine(a.op, self.value(name, d, depth + 1),
                                   self.poly(a.value, d, depth + 1), a)
            else:
                out = Poly.atom(('def', d))
        self._memo[key] = out
        return out

    def combine(self, op, l, r, node):
        if isinstance(op, ast.Add):
            return l + r
        if isinstance(op, ast.Sub):
            return l - r
        if isinstance(op, ast.Mult):
            return l * r
        return None

    def cfg_key(self, name, nid, _depth=0):
        """'blocked_cores' if `name` is bound (single definition) to
        <x>.get('blocked_cores', ..) / <x>['blocked_cores']"""
        defs = self.rd.reaching(nid, name)
        if len(defs) != 1:
            return None
        a = self.g.nodes[next(iter(defs))].ast
        if not isinstance(a, ast.Assign):
            return None
        v = a.value
        if isinstance(v, ast.Call) and isinstance(v.func, ast.Attribute) and \
                v.func.attr == 'get' and v.args and \
                isinstance(v.args[0], ast.Constant) and \
                isinstance(v.args[0].value, str):
            return v.args[0].value
        if isinstance(v, ast.Subscript) and isinstance(v.slice, ast.Constant) \
                and isinstance(v.slice.value, str):
            return v.slice.value
        if isinstance(v, ast.Name) and _depth < 6:
            return self.cfg_key(v.id, next(iter(defs)), _depth + 1)
        return None

    def opaque(self, expr, nid, depth):
        names = sorted({x.id for x in walk(expr) if isinstance(x, ast.Name)
                        and isinstance(x.ctx, ast.Load)})
        ids = []
        for nm in names:
            d = self.rd.reaching(nid, nm)
            ids.append((nm, tuple(sorted(d))))
        return Poly.atom(('expr', unparse(expr), tuple(ids)))

    def poly(self, expr, nid, depth=0):
        if isinstance(expr, ast.Constant) and \
                isinstance(expr.value, (int, float)) and \
                not isinstance(expr.value, bool):
            return Poly.const(expr.value)
        if isinstance(expr, ast.Name):
            return self.value(expr.id, nid, depth + 1)
        if isinstance(expr, ast.BinOp):
            l = self.poly(expr.left, nid, depth + 1)
            r = self.poly(expr.right, nid, depth + 1)
            out = self.combine(expr.op, l, r, expr)
            if out is not None:
                return out
            return self.opaque(expr, nid, depth)
        if isinstance(expr, ast.UnaryOp) and isinstance(expr.op, ast.USub):
            return -self.poly(expr.operand, nid, depth + 1)
        if isinstance(expr, ast.Call) and call_name(expr) == 'len' and \
                len(expr.args) == 1 and isinstance(expr.args[0], ast.Name):
            k = self.cfg_key(expr.args[0].id, nid)
            if k:
                return Poly.atom(('len', 'key:' + k))
        return self.opaque(expr, nid, depth)


def _check_generic(ev, f, n, a):
    for tid, lab in ev.guards(n.id):
        t = ev.g.nodes[tid].ast
        if not (lab == 'T' and isinstance(t, (ast.Name, ast.Attribute))):
            raise AnalysisError('UNRECOGNISED-IDIOM %s: `%s` under `%s`'
                                % (f.where, short(a), short(t)))


def _trip_count(ev, f, n):
    """(Poly, [loop ast]): how often statement node n runs per call - the
    product of the trip counts of the `for` loops around it (block membership
    by the CFG, not by indentation).  A loop which can be left early, or a
    `while` loop, has no count the evaluator knows: UNRECOGNISED-IDIOM."""
    g = ev.g
    out, loops = Poly.const(1), []
    for h in n.loops:
        head = g.nodes[h]
        la = g.loop_ast[h]
        body = g.loop_body[h]
        if head.kind != 'for':
            raise AnalysisError('UNRECOGNISED-IDIOM %s: `%s` inside `%s`'
                                % (f.where, short(n.ast), short(la, 50)))
        for b in body:
            for e in g.succ[b]:
                dst = g.nodes[e.dst]
                if e.dst in body or e.dst == h or e.label == 'exc' or \
                        dst.kind in ('raise', 'dispatch', 'handler'):
                    continue
                raise AnalysisError(
                    'UNRECOGNISED-IDIOM %s: `%s` inside `%s`, which is left '
                    'early at `%s`' % (f.where, short(n.ast), short(la, 50),
                                       short(g.nodes[b].ast, 50)))
        it = la.iter
        while isinstance(it, ast.Call) and isinstance(it.func, ast.Name) and \
                it.func.id in ('enumerate', 'reversed', 'sorted', 'list',
                               'tuple') and len(it.args) == 1 and \
                not it.keywords:
            it = it.args[0]
        if isinstance(it, ast.Call) and isinstance(it.func, ast.Name) and \
                it.func.id == 'range' and len(it.args) == 1:
            cnt = ev.poly(it.args[0], h)
        elif isinstance(it, (ast.List, ast.Tuple)) and not any(
                isinstance(x, ast.Starred) for x in it.elts):
            cnt = Poly.const(len(it.elts))
        else:
            ln = ast.Call(func=ast.Name(id='len', ctx=ast.Load()), args=[it],
                          keywords=[])
            ast.copy_location(ln, it)
            ast.fix_missing_locations(ln)
            cnt = ev.poly(ln, h)
        out = out * cnt
        loops.append(la)
    return out, loops


def agent_delta(prog, rep, attr, written):
    """what ResourceManager._init_from_scratch does to rm_info.<attr> after
    having read it from the agent config: (config key read, Poly delta, Poly
    delta if every adjustment ran once, [(adjustment, loops around it)]); an
    adjustment inside a loop counts once per iteration"""
    f = see_through(prog, prog.method(RM[0], RM[1], '_init_from_scratch'))
    rep.saw(f)
    ev = SymEval(f)
    g = ev.g
    key = None
    delta = Poly()
    once = Poly()
    looped = []

    def times(n, e):
        cnt, loops = _trip_count(ev, f, n)
        if loops:
            looped.append((n.ast, loops))
        return e * cnt
    for n in g.stmt_nodes():
        if n.kind != 'stmt':
            continue
        a = n.ast
        if isinstance(a, ast.Assign):
            for t in a.targets:
                if isinstance(t, ast.Attribute) and t.attr == attr and \
                        isinstance(t.value, ast.Name):
                    d = dotted(a.value)
                    v = a.value
                    if isinstance(v, ast.BinOp) and \
                            isinstance(v.op, (ast.Add, ast.Sub)) and \
                            unparse(v.left) == unparse(t):
                        # x.attr = x.attr - e   (same as  x.attr -= e)
                        _check_generic(ev, f, n, a)
                        e = ev.poly(v.right, n.id)
                        if isinstance(v.op, ast.Sub):
                            e = -e
                        once = once + e
                        delta = delta + times(n, e)
                    elif d.startswith('self._cfg.') and d.count('.') == 2 and \
                            key is None:
                        key = d.split('.')[2]
                    elif isinstance(a.value, ast.Subscript) and \
                            unparse(a.value.value) == 'self._cfg' and \
                            isinstance(a.value.slice, ast.Constant) and \
                            key is None:
                        key = a.value.slice.value
                    else:
                        raise AnalysisError('UNRECOGNISED-IDIOM %s: %s'
                                            % (f.where, short(a)))
        elif isinstance(a, ast.AugAssign) and \
                isinstance(a.target, ast.Attribute) and \
                a.target.attr == attr and isinstance(a.target.value, ast.Name):
            _check_generic(ev, f, n, a)
            v = ev.poly(a.value, n.id)
            if isinstance(a.op, ast.Sub):
                v = -v
            elif not isinstance(a.op, ast.Add):
                raise AnalysisError('UNRECOGNISED-IDIOM %s: %s' % (f.where,
                                                                  short(a)))
            once = once + v
            delta = delta + times(n, v)
    if key is None:
        raise AnalysisError('UNRECOGNISED-IDIOM %s: rm_info.%s is not read '
                            'from self._cfg' % (f.where, attr))
    return f, key, delta, once, looped


def r17_4(prog, rep, rid='R17.4'):
    rep.rule(rid, 'the divisor of the node computation in _prepare_pilot '
             'equals, as a polynomial over the configured quantities, the '
             'usable cores (gpus) per node the agent derives from the '
             'cores_per_node (gpus_per_node) it is handed', minimum=2)
    f = see_through(prog, prog.method(PMGRL[0], PMGRL[1], '_prepare_pilot'))
    ev = SymEval(f)
    g = ev.g
    smap = I.stmt_node_map(g)
    avar = _sink_var(f, 'cfg')
    nd = node_divisions(f, ev, smap)
    for what, attr in (('cores', 'cores_per_node'), ('gpus', 'gpus_per_node')):
        div, dn, D = nd[what]
        rf, key, delta, once, looped = agent_delta(prog, rep, attr, None)
        stores = _stores_to(g, avar, key)
        if len(stores) != 1:
            raise AnalysisError('UNRECOGNISED-IDIOM %s: %d stores to %s[%r], '
                                'the key %s reads rm_info.%s from'
                                % (f.where, len(stores), avar, key, rf.qual,
                                   attr))
        sn, sv = stores[0]
        A = ev.poly(sv, sn.id)
        want = A + delta
        if D != want and looped and D == A + once:
            # the figures agree if every adjustment runs once: the loop around
            # one of them is what breaks the agreement
            adj, loops = looped[0]
            rep.bad(rid, rf, 'adjust:%s' % attr,
                    '%s: `%s` sits inside the loop `%s` and is applied once '
                    'per iteration, so the agent works with %s usable %s per '
                    'node, while _prepare_pilot sized the job with %s '
                    '(divisor `%s` of its node computation; agent_cfg[%r] = '
                    '%s): job size and agent view disagree as soon as the '
                    'loop runs more than once'
                    % (rf.qual, short(adj), 'for %s in %s' % (
                           short(loops[-1].target), short(loops[-1].iter)),
                       want.show(),
                       what, D.show(), short(div.right), key, A.show()),
                    rf.loc(adj),
                    history='platform with blocked %s (ornl.frontier: 16 '
                    'blocked hardware threads of 128) and a pilot of two '
                    'nodes: the job was sized with 112 usable cores per node, '
                    'the agent assumes 128 - 2 * 16 = 96 and its scheduler '
                    'disagrees with its own node list' % what)
            continue
        rep.check(D == want, rid, f, 'usable %s per node: client divisor `%s` '
                  '= %s  equals agent side  %s' % (what, short(div.right),
                                                   D.show(), want.show()),
                  construct='usable:%s' % what,
                  message='_prepare_pilot sizes the job with %s usable %s per '
                  'node (divisor `%s` of the node computation), while the '
                  'agent, from agent_cfg[%r] = %s and its own adjustment in '
                  '%s, works with %s: job size and agent view disagree, the '
                  'node count is not the smallest covering one'
                  % (D.show(), what, short(div.right), key, A.show(), rf.qual,
                     want.show()), loc=f.loc(div),
                  history='platform with smt=2, 64 cores and 16 blocked '
                  'hardware threads per node (ornl.frontier), cores=112: the '
                  'client computes with another number of usable cores than '
                  'the 112 the agent offers per node and requests 2 nodes '
                  'instead of 1' if what == 'cores' else
                  'platform with blocked GPUs: client and agent disagree on '
                  'the GPUs usable per node')


# ------------------------------------------------------------------------------
# R17.5   rounding direction of the node computation
#
# Abstract value of an expression: a set of *alternatives* (one per combination
# of reaching definitions; path insensitive), each alternative mapping a kind
# ('cores', 'gpus') to the relation between the value and the real quotient
# q = requested amount / usable amount per node of that kind:
#
#   'q'     the value is >= q and possibly fractional   (a / b, max(.., a / b))
#   'ceil'  the value is a whole number >= q            (ceil(q) and idioms)
#   'low'   the value may be smaller than q             (floor, int, round,
#           min with something else, amount of the other kind divided)
#   'adj'   arithmetic the recogniser does not know     (=> UNRECOGNISED-IDIOM)
#
# A kind which is absent from an alternative did not flow into it.
#
_KIND_TXT  = {'cores': 'cores', 'gpus': 'GPUs'}
_RANK      = {'low': 0, 'q': 1, 'ceil': 2}
_NEUTRAL   = frozenset([()])
_CEIL_FN   = ('ceil',)
_FLOOR_FN  = ('floor', 'trunc')
_MAX_ALTS  = 128


def _amount_kind(P):
    """'cores' | 'gpus' if the polynomial is exactly one requested amount
    (an opaque read of the key 'cores' / 'gpus')"""
    if len(P.t) != 1:
        return None
    (k, c), = P.t.items()
    if c != 1 or len(k) != 1 or k[0][0] != 'expr':
        return None
    try:
        e = ast.parse(k[0][1], mode='eval').body
    except SyntaxError:
        return None
    key = None
    if isinstance(e, ast.Subscript) and isinstance(e.slice, ast.Constant):
        key = e.slice.value
    elif isinstance(e, ast.Call) and isinstance(e.func, ast.Attribute) and \
            e.func.attr == 'get' and e.args and \
            isinstance(e.args[0], ast.Constant):
        key = e.args[0].value
    elif isinstance(e, ast.Attribute):
        key = e.attr
    return key if key in _KIND_TXT else None


def _strip_calls(e, names):
    while isinstance(e, ast.Call) and call_name(e) in names and \
            len(e.args) == 1 and not e.keywords:
        e = e.args[0]
    return e


def _is_zero(e):
    return isinstance(e, ast.Constant) and not isinstance(e.value, bool) and \
        isinstance(e.value, (int, float)) and e.value == 0


def _is_one(e):
    return isinstance(e, ast.Constant) and not isinstance(e.value, bool) and \
        isinstance(e.value, int) and e.value == 1


class Cover:

    def __init__(self, f, g, rd, ev, nd):
        self.f, self.g, self.rd, self.ev = f, g, rd, ev
        self.div     = {id(nd[k][0]): k for k in nd}
        self.sites   = []            # [(kind, ast node, reason)]
        self.visited = set()         # kinds whose division was evaluated
        self._memo   = {}
        self._stack  = set()

    # -- alternatives ----------------------------------------------------------
    @staticmethod
    def _alt(d):
        return tuple(sorted((k, s, i) for k, (s, i) in d.items()))

    @staticmethod
    def _dict(alt):
        return {k: (s, i) for k, s, i in alt}

    def _site(self, kind, node, reason):
        for i, x in enumerate(self.sites):
            if x[0] == kind and x[1] is node and x[2] == reason:
                return i
        self.sites.append((kind, node, reason))
        return len(self.sites) - 1

    def _cap(self, alts, e):
        if len(alts) > _MAX_ALTS:
            raise AnalysisError('UNRECOGNISED-IDIOM %s: too many alternative '
                                'definitions flow into `%s`'
                                % (self.f.where, short(e)))
        return frozenset(alts)

    def _map(self, alts, fn):
        """fn(kind, state, site) -> (state, site) | None (kind dropped)"""
        out = set()
        for a in alts:
            d = {}
            for k, s, i in a:
                r = fn(k, s, i)
                if r is not None:
                    d[k] = r
            out.add(self._alt(d))
        return frozenset(out)

    def _adj(self, alts):
        return self._map(alts, lambda k, s, i: ('adj', -1))

    @staticmethod
    def kinds(alts):
        return {k for a in alts for k, s, i in a}

    def _product(self, lists, e):
        prod = [()]
        for alts in lists:
            prod = [p + (a,) for p in prod for a in alts]
            if len(prod) > 4 * _MAX_ALTS:
                raise AnalysisError('UNRECOGNISED-IDIOM %s: too many '
                                    'alternatives in `%s`' % (self.f.where,
                                                              short(e)))
        return prod

    def _extreme(self, lists, e, is_max):
        out = set()
        for combo in self._product(lists, e):
            ds = [self._dict(a) for a in combo]
            res = {}
            for k in set().union(*[set(d) for d in ds]) if ds else ():
                have = [d[k] for d in ds if k in d]
                if any(s == 'adj' for s, i in have):
                    res[k] = ('adj', -1)
                elif is_max:
                    res[k] = max(have, key=lambda x: _RANK[x[0]])
                elif len(have) == len(ds):
                    res[k] = min(have, key=lambda x: _RANK[x[0]])
                else:
                    res[k] = ('low', self._site(k, e, 'min'))
            out.add(self._alt(res))
        return self._cap(out, e)

    # -- expressions -----------------------------------------------------------
    def expr(self, e, nid, depth=0):
        if depth > 60:
            raise AnalysisError('UNRECOGNISED-IDIOM %s: cyclic definition in '
                                'the node computation (`%s`)'
                                % (self.f.where, short(e)))
        if isinstance(e, ast.Constant):
            return _NEUTRAL
        if isinstance(e, ast.Name):
            return self.name(e.id, nid, depth + 1)
        if isinstance(e, ast.BinOp):
            return self.binop(e, nid, depth + 1)
        if isinstance(e, ast.UnaryOp):
            if isinstance(e.op, ast.UAdd):
                return self.expr(e.operand, nid, depth + 1)
            if isinstance(e.op, ast.USub):
                r = self._neg_floordiv(e, nid)
                if r is not None:
                    return r
            return self.default(e, nid, depth + 1)
        if isinstance(e, ast.Call):
            return self.call(e, nid, depth + 1)
        if isinstance(e, ast.IfExp):
            return self.ifexp(e, nid, depth + 1)
        if isinstance(e, ast.BoolOp):
            out = set()
            for v in e.values:
                out |= self.expr(v, nid, depth + 1)
            return self._cap(out, e)
        if isinstance(e, ast.NamedExpr):
            return self.expr(e.value, nid, depth + 1)
        return self.default(e, nid, depth + 1)

    def default(self, e, nid, depth):
        """anything else: if a node figure flows in, the result is unknown"""
        ks = set()
        for c in ast.iter_child_nodes(e):
            if isinstance(c, ast.expr):
                ks |= self.kinds(self.expr(c, nid, depth + 1))
        if not ks:
            return _NEUTRAL
        return frozenset([self._alt({k: ('adj', -1) for k in ks})])

    def _polys(self, div, nid):
        L = _strip_calls(div.left, ('float',))
        return self.ev.poly(L, nid), self.ev.poly(div.right, nid)

    def division(self, e, nid):
        k = self.div[id(e)]
        self.visited.add(k)
        PL, PR = self._polys(e, nid)
        ak = _amount_kind(PL)
        if ak is not None and ak != k:
            return frozenset([self._alt({k: ('low', self._site(
                k, e, 'mix:' + ak))})])
        if isinstance(e.op, ast.Div):
            st = ('q', -1) if ak == k else ('adj', -1)
        elif ak == k:
            st = ('low', self._site(k, e, 'floordiv'))
        elif _amount_kind(PL - PR + Poly.const(1)) == k:
            st = ('ceil', -1)                       # (a + b - 1) // b
        else:
            st = ('adj', -1)
        return frozenset([self._alt({k: st})])

    def _neg_floordiv(self, e, nid):
        """-(-a // b)   and   -(a // -b)"""
        d = e.operand
        if not (isinstance(d, ast.BinOp) and isinstance(d.op, ast.FloorDiv)
                and id(d) in self.div):
            return None
        k = self.div[id(d)]
        PL, PR = self._polys(d, nid)
        neg_r = isinstance(d.right, ast.UnaryOp) and \
            isinstance(d.right.op, ast.USub)
        if _amount_kind(-PL) == k and not neg_r or \
                _amount_kind(PL) == k and neg_r:
            self.visited.add(k)
            return frozenset([self._alt({k: ('ceil', -1)})])
        return None

    def _floor_of(self, e):
        """the division BinOp if e is `a // b` or int(a / b) / floor(a / b)"""
        if isinstance(e, ast.BinOp) and id(e) in self.div and \
                isinstance(e.op, ast.FloorDiv):
            return e
        if isinstance(e, ast.Call) and len(e.args) == 1 and not e.keywords and \
                (call_name(e) == 'int' or
                 call_name(e).split('.')[-1] in _FLOOR_FN):
            x = e.args[0]
            if isinstance(x, ast.BinOp) and id(x) in self.div and \
                    isinstance(x.op, ast.Div):
                return x
        return None

    def _rem_truth(self, t, PL, PR, nid):
        """+1 if t is true iff the remainder a % b is non-zero, -1 if it is
        true iff the remainder is zero, 0 if unknown (a, b: the operands of the
        division with polynomials PL, PR)"""
        def is_rem(x):
            return isinstance(x, ast.BinOp) and isinstance(x.op, ast.Mod) and \
                self.ev.poly(_strip_calls(x.left, ('float',)), nid) == PL and \
                self.ev.poly(x.right, nid) == PR

        if isinstance(t, ast.Call) and call_name(t) == 'bool' and \
                len(t.args) == 1 and not t.keywords:
            t = t.args[0]
        if is_rem(t):
            return 1
        if isinstance(t, ast.UnaryOp) and isinstance(t.op, ast.Not):
            return -self._rem_truth(t.operand, PL, PR, nid)
        if isinstance(t, ast.Compare) and len(t.ops) == 1:
            l, op, r = t.left, t.ops[0], t.comparators[0]
            if is_rem(l) and _is_zero(r):
                if isinstance(op, (ast.Gt, ast.NotEq)):
                    return 1
                if isinstance(op, ast.Eq):
                    return -1
            if _is_zero(l) and is_rem(r):
                if isinstance(op, (ast.Lt, ast.NotEq)):
                    return 1
                if isinstance(op, ast.Eq):
                    return -1
        return 0

    def _rem_indicator(self, e, PL, PR, nid):
        """e is 1 when a % b is non-zero and 0 otherwise"""
        e = _strip_calls(e, ('int',))
        if isinstance(e, ast.Call) and call_name(e) == 'bool' or \
                isinstance(e, (ast.Compare, ast.UnaryOp)):
            return self._rem_truth(e, PL, PR, nid) == 1
        if isinstance(e, ast.IfExp):
            z = self._rem_truth(e.test, PL, PR, nid)
            return z == 1 and _is_one(e.body) and _is_zero(e.orelse) or \
                z == -1 and _is_zero(e.body) and _is_one(e.orelse)
        return False

    # -- floor, then one more if there is a remainder (statement level) --------
    def _floor_def(self, name, d):
        """(division BinOp, kind, PL, PR) if definition d is `name = a // b`
        (or int(a / b)) of a requested amount by its usable amount per node"""
        n = self.g.nodes[d]
        a = n.ast
        if n.kind != 'stmt' or not isinstance(a, ast.Assign) or \
                len(a.targets) != 1 or \
                not isinstance(a.targets[0], ast.Name) or \
                a.targets[0].id != name:
            return None
        dv = self._floor_of(a.value)
        if dv is None:
            return None
        k = self.div[id(dv)]
        PL, PR = self._polys(dv, d)
        if _amount_kind(PL) != k:
            return None
        return dv, k, PL, PR

    def _rem_edges(self, PL, PR):
        """([edges taken when the remainder is non-zero], [.. is zero])"""
        nz, z = [], []
        for t in self.g.nodes:
            if t.kind != 'test' or t.ast is None or not any(
                    isinstance(x, ast.BinOp) and isinstance(x.op, ast.Mod)
                    for x in walk(t.ast)):
                continue
            r = self._rem_truth(t.ast, PL, PR, t.id)
            if r:
                nz.append((t.id, 'T' if r == 1 else 'F'))
                z.append((t.id, 'F' if r == 1 else 'T'))
        return nz, z

    def _incremented_floor(self, name, d):
        """kind if definition d is `name += 1` executed only when the floor
        division which defines `name` there leaves a remainder"""
        a = self.g.nodes[d].ast
        if not (isinstance(a, ast.AugAssign) and isinstance(a.op, ast.Add)
                and _is_one(a.value)):
            return None
        prev = self.rd.reaching(d, name)
        if len(prev) != 1:
            return None
        fd = self._floor_def(name, next(iter(prev)))
        if fd is None:
            return None
        nz, z = self._rem_edges(fd[2], fd[3])
        if not set(nz) & set(self.ev.guards(d)):
            return None
        self.visited.add(fd[1])
        return fd[1]

    def _floor_when_exact(self, name, d, nid):
        """kind if definition d is a floor division which reaches node nid
        only over remainder-is-zero edges (floor == ceil there)"""
        fd = self._floor_def(name, d)
        if fd is None:
            return None
        nz, z = self._rem_edges(fd[2], fd[3])
        if not z:
            return None
        g = self.g
        others = self.rd.by_name[name]
        start = [x.dst for x in g.succ[d] if x.dst not in others or
                 x.dst == nid]
        if nid not in g.reachable(start, skip_nodes=others - {nid}):
            return None
        if nid in g.reachable(start, skip_nodes=others - {nid}, skip_edges=z):
            return None
        return fd[1]

    def binop(self, e, nid, depth):
        if id(e) in self.div:
            return self.division(e, nid)
        if isinstance(e.op, ast.Add):
            for x, y in ((e.left, e.right), (e.right, e.left)):
                d = self._floor_of(x)
                if d is None:
                    continue
                k = self.div[id(d)]
                PL, PR = self._polys(d, nid)
                # (a - 1) // b + 1
                if _is_one(y) and isinstance(d.op, ast.FloorDiv) and \
                        _amount_kind(PL + Poly.const(1)) == k:
                    self.visited.add(k)
                    return frozenset([self._alt({k: ('ceil', -1)})])
                # a // b + (a % b > 0)
                if _amount_kind(PL) == k and \
                        self._rem_indicator(y, PL, PR, nid):
                    self.visited.add(k)
                    return frozenset([self._alt({k: ('ceil', -1)})])
            if _is_zero(e.right):
                return self.expr(e.left, nid, depth)
            if _is_zero(e.left):
                return self.expr(e.right, nid, depth)
        return self.default(e, nid, depth)

    def call(self, e, nid, depth):
        cn = call_name(e)
        last = cn.split('.')[-1]
        plain = not e.keywords and not any(isinstance(a, ast.Starred)
                                           for a in e.args)
        if plain and len(e.args) == 1 and last in _CEIL_FN:
            return self._map(self.expr(e.args[0], nid, depth),
                             lambda k, s, i: ('ceil', -1) if s == 'q'
                             else (s, i))
        if plain and len(e.args) == 1 and (last in _FLOOR_FN or
                                           cn in ('int', 'round')):
            return self._map(self.expr(e.args[0], nid, depth),
                             lambda k, s, i: ('low', self._site(k, e, cn))
                             if s == 'q' else (s, i))
        if plain and len(e.args) == 1 and cn in ('float', 'abs'):
            return self.expr(e.args[0], nid, depth)
        if plain and cn in ('max', 'min') and e.args:
            args = list(e.args)
            if len(args) == 1 and isinstance(args[0], (ast.List, ast.Tuple)) \
                    and not any(isinstance(a, ast.Starred)
                                for a in args[0].elts):
                args = list(args[0].elts)
            if len(args) >= 2:
                return self._extreme([self.expr(a, nid, depth) for a in args],
                                     e, cn == 'max')
        return self.default(e, nid, depth)

    def ifexp(self, e, nid, depth):
        tk = set()
        for c in walk(e.test):
            if isinstance(c, ast.Compare):
                tk |= self.kinds(self.default(c, nid, depth))
        body = self.expr(e.body,   nid, depth)
        orel = self.expr(e.orelse, nid, depth)
        if not tk:
            return self._cap(set(body) | set(orel), e)
        # a hand written max / min:   x if x > y else y
        t = e.test
        if isinstance(t, ast.Compare) and len(t.ops) == 1:
            x, y = unparse(t.left), unparse(t.comparators[0])
            b, o = unparse(e.body), unparse(e.orelse)
            gt = isinstance(t.ops[0], (ast.Gt, ast.GtE))
            lt = isinstance(t.ops[0], (ast.Lt, ast.LtE))
            if (gt or lt) and {x, y} == {b, o} and x != y:
                is_max = (b == x) == gt
                return self._extreme([body, orel], e, is_max)
        return self._adj(set(body) | set(orel))

    # -- names -----------------------------------------------------------------
    def _only_when_zero(self, d, name, nid):
        """definition d of `name` reaches node nid only over the false edge of
        a truth test of `name` itself: the value which arrives is zero"""
        g = self.g
        se = [(t.id, 'F') for t in g.nodes if t.kind == 'test' and
              isinstance(t.ast, ast.Name) and t.ast.id == name]
        if not se:
            return False
        others = self.rd.by_name[name]
        inner = g.reachable([x.dst for x in g.succ[d]
                             if x.dst not in others or x.dst == nid],
                            skip_nodes=others - {nid}, skip_edges=se)
        return nid not in inner

    def _compared(self, d, nid, depth):
        """kinds of the node figures compared in a test which decides whether
        definition d is executed"""
        ks = set()
        for tid, lab in self.ev.guards(d):
            t = self.g.nodes[tid].ast
            if isinstance(t, ast.Compare):
                ks |= self.kinds(self.default(t, tid, depth + 1))
        return ks

    def _selection(self, name, defs, nid, depth):
        """a hand written max / min at statement level:

            if l > r: x = l          x = l
            else    : x = r          if r > x: x = r

        -> (alternatives of max/min(l, r), definitions not taking part)"""
        g, ev = self.g, self.ev
        base = ev.guards(nid)
        rel = {d: [(t, lab) for t, lab in ev.guards(d) - base
                   if isinstance(g.nodes[t].ast, ast.Compare) and
                   self.kinds(self.default(g.nodes[t].ast, t, depth + 1))]
               for d in defs}
        tests = {t for d in defs for t, lab in rel[d]}
        if len(tests) != 1:
            return None
        tid = next(iter(tests))
        t = g.nodes[tid].ast
        if len(t.ops) != 1 or not isinstance(t.ops[0], (ast.Gt, ast.GtE,
                                                       ast.Lt, ast.LtE)):
            return None
        l, r = t.left, t.comparators[0]
        lt, rt = unparse(l), unparse(r)
        if lt == rt:
            return None
        gt = isinstance(t.ops[0], (ast.Gt, ast.GtE))
        verdicts, rest = set(), set()
        for d in defs:
            if rel[d]:
                a = g.nodes[d].ast
                if len(rel[d]) != 1 or g.nodes[d].kind != 'stmt' or \
                        not isinstance(a, ast.Assign) or \
                        len(a.targets) != 1 or \
                        not isinstance(a.targets[0], ast.Name):
                    return None
                vt = unparse(a.value)
                if vt not in (lt, rt):
                    return None
                for x in walk(a.value):
                    if isinstance(x, ast.Name) and \
                            self.rd.reaching(d, x.id) != \
                            self.rd.reaching(tid, x.id):
                        return None
                greater = lt if gt == (rel[d][0][1] == 'T') else rt
                verdicts.add(vt == greater)
                continue
            others = self.rd.by_name[name]
            start = [x.dst for x in g.succ[d]
                     if x.dst not in others or x.dst == nid]
            around = g.reachable(start, skip_nodes=(others - {nid}) | {tid})
            if nid in around:
                if tid in g.reachable(start, skip_nodes=others - {nid}) and \
                        nid in g.reachable(
                            [x.dst for x in g.succ[tid]
                             if x.dst not in others or x.dst == nid],
                            skip_nodes=others - {nid}):
                    return None          # reaches the use both ways
                rest.add(d)
            elif name not in (lt, rt) or \
                    self.rd.reaching(tid, name) != frozenset([d]):
                return None
        if len(verdicts) != 1:
            return None
        alts = self._extreme([self.expr(l, tid, depth + 1),
                              self.expr(r, tid, depth + 1)], t,
                             verdicts.pop())
        return alts, frozenset(rest)

    def name(self, name, nid, depth):
        defs = self.rd.reaching(nid, name)
        if not defs:
            return _NEUTRAL
        key = (name, defs)
        if key in self._memo:
            return self._memo[key]
        if key in self._stack:
            raise AnalysisError('UNRECOGNISED-IDIOM %s: %r is defined in '
                                'terms of itself around a loop'
                                % (self.f.where, name))
        self._stack.add(key)
        out = set()
        sel = self._selection(name, defs, nid, depth) if len(defs) > 1 \
            else None
        if sel is not None:
            out |= sel[0]
            defs = sel[1]
        for d in sorted(defs):
            alts = self._def(name, d, depth)
            if len(defs) > 1 and self.kinds(alts):
                k = self._floor_when_exact(name, d, nid)
                if k is not None:
                    alts = frozenset([self._alt({k: ('ceil', -1)})])
                if self._only_when_zero(d, name, nid):
                    alts = self._map(alts, lambda k, s, i: None if s == 'q'
                                     else (s, i))
                if self._compared(d, nid, depth):
                    # a hand written selection between node figures
                    alts = self._adj(alts)
            out |= alts
        self._stack.discard(key)
        self._memo[key] = self._cap(out, ast.Name(id=name, ctx=ast.Load()))
        return self._memo[key]

    def _def(self, name, d, depth):
        n = self.g.nodes[d]
        a = n.ast
        if n.kind != 'stmt' or a is None:
            return _NEUTRAL                  # loop / with / handler variable
        if isinstance(a, ast.AnnAssign) and a.value is not None and \
                isinstance(a.target, ast.Name):
            return self.expr(a.value, d, depth)
        if isinstance(a, ast.AugAssign) and isinstance(a.target, ast.Name):
            k = self._incremented_floor(name, d)
            if k is not None:
                return frozenset([self._alt({k: ('ceil', -1)})])
            syn = ast.BinOp(left=ast.Name(id=name, ctx=ast.Load()), op=a.op,
                            right=a.value)
            ast.copy_location(syn, a)
            ast.fix_missing_locations(syn)
            return self.binop(syn, d, depth)
        if isinstance(a, ast.Assign):
            for t in a.targets:
                if isinstance(t, ast.Name) and t.id == name:
                    return self.expr(a.value, d, depth)
            for t in a.targets:
                if isinstance(t, (ast.Tuple, ast.List)) and \
                        isinstance(a.value, (ast.Tuple, ast.List)) and \
                        len(t.elts) == len(a.value.elts):
                    for x, v in zip(t.elts, a.value.elts):
                        if isinstance(x, ast.Name) and x.id == name:
                            return self.expr(v, d, depth)
            return self._adj(self.default(a.value, d, depth))
        for x in walk(a):
            if isinstance(x, ast.NamedExpr) and \
                    isinstance(x.target, ast.Name) and x.target.id == name:
                return self.expr(x.value, d, depth)
        return _NEUTRAL


def r17_5(prog, rep, rid='R17.5'):
    rep.rule(rid, '_prepare_pilot: on every def-use chain from a division '
             '`requested cores (GPUs) / usable cores (GPUs) per node` to the '
             "node count handed to the agent (and, by R17.3, to the job) the "
             'quotient is only rounded up (ceil or an integer idiom of it), '
             'never floored / truncated / rounded / min-ed; the two kinds are '
             'combined by max; the count is whole', minimum=4)
    f = see_through(prog, prog.method(PMGRL[0], PMGRL[1], '_prepare_pilot'))
    rep.saw(f)
    g = cfg_of(f)
    rd = ReachingDefs(g)
    ev = SymEval(f)
    smap = I.stmt_node_map(g)
    nd = node_divisions(f, ev, smap)
    avar = _sink_var(f, 'cfg')
    sinks = _stores_to(g, avar, 'nodes')
    if len(sinks) != 1:
        raise AnalysisError("UNRECOGNISED-IDIOM %s: %d stores to %s['nodes'] "
                            '(expected one)' % (f.where, len(sinks), avar))
    sn, sv = sinks[0]
    C = Cover(f, g, rd, ev, nd)
    alts = C.expr(sv, sn.id)

    adj = sorted({k for a in alts for k, s, i in a if s == 'adj'})
    if adj:
        raise AnalysisError('UNRECOGNISED-IDIOM %s: the %s-driven node count '
                            'reaches agent_cfg[\'nodes\'] = `%s` through '
                            'arithmetic / a selection the rounding analysis '
                            'does not know' % (f.where, '/'.join(adj),
                                               short(sv)))
    examples = {
        'cores': ('cores=9 on a platform with 8 usable cores per node: 1 node '
                  'requested, 2 needed'),
        'gpus': ('cores=1, gpus=9 on a platform with 4 usable GPUs per node: '
                 '2 nodes (8 GPUs) requested, 3 needed')}
    # (1) no downward rounding
    low = sorted({i for a in alts for k, s, i in a if s == 'low'})
    for k in sorted(nd):
        mine = [i for i in low if C.sites[i][0] == k]
        if not mine and any(k in C._dict(a) for a in alts):
            rep.ok(rid, f, 'the %s-driven node count is never rounded down on '
                   'its way to the agent / job' % _KIND_TXT[k],
                   f.loc(nd[k][0]))
        for i in mine:
            _, node, reason = C.sites[i]
            if reason.startswith('mix:'):
                what = 'divides the requested %s by the usable %s per node' \
                    % (_KIND_TXT[reason[4:]], _KIND_TXT[k])
                hist = ('cores=64, gpus=1 on a platform with 16 cores and 4 '
                        'GPUs per node: the node count does not follow the '
                        'amount it has to cover')
            elif reason == 'min':
                what = 'takes the smaller of the %s-driven node count and ' \
                    'another figure (min)' % _KIND_TXT[k]
                hist = ('cores=1000, gpus=1 on a 10-core/1-GPU platform: 1 '
                        'node requested, 100 needed')
            elif reason == 'floordiv':
                what = 'rounds the quotient down (floor division)'
                hist = examples[k]
            else:
                what = 'rounds the quotient with %s(), not up' % reason
                hist = examples[k]
            rep.bad(rid, f, 'round-down:%s:%s' % (k, reason),
                    '_prepare_pilot: `%s` %s, and the result reaches '
                    "agent_cfg['nodes'] / jd.node_count without an upward "
                    'rounding: for a %s-bound request which is not a multiple '
                    'of the usable %s per node the job is (at least) one node '
                    'short of covering the requested %s'
                    % (short(node), what, _KIND_TXT[k], _KIND_TXT[k],
                       _KIND_TXT[k]), f.loc(node), history=hist)
    # (2) whole nodes
    frac = sorted({k for a in alts for k, s, i in a if s == 'q'})
    rep.check(not frac, rid, f, 'the node count is a whole number when it '
              'reaches the agent / job', construct='fraction:%s'
              % ','.join(frac),
              message="_prepare_pilot: the quotient `%s` reaches "
              "agent_cfg['nodes'] = `%s` (and jd.node_count) on some path "
              'without being rounded up to whole nodes'
              % (' / '.join(short(nd[k][0]) for k in frac), short(sv)),
              loc=f.loc(sn.ast), history='cores=9 on an 8-core platform: '
              'node_count 1.125')
    # (3) both kinds are covered by one value
    both = [a for a in alts if {'cores', 'gpus'} <= set(C._dict(a))]
    if not both:
        unseen = sorted(set(nd) - C.visited)
        if unseen:
            raise AnalysisError('UNRECOGNISED-IDIOM %s: the %s-driven node '
                                "count `%s` does not reach agent_cfg['nodes'] "
                                'by a def-use chain the analysis can follow'
                                % (f.where, '/'.join(unseen),
                                   ' / '.join(short(nd[k][0])
                                              for k in unseen)))
    rep.check(bool(both), rid, f, 'one definition of the node count covers '
              'the requested cores and the requested GPUs (max of both)',
              construct='uncombined',
              message='_prepare_pilot: no definition of the node count which '
              "reaches agent_cfg['nodes'] = `%s` combines the core-driven "
              'count `%s` with the GPU-driven count `%s`: one of them '
              'replaces the other, the job does not cover both the requested '
              'cores and the requested GPUs'
              % (short(sv), short(nd['cores'][0]), short(nd['gpus'][0])),
              loc=f.loc(nd['gpus'][0]), history='cores=1000, gpus=1 on a '
              '10-core/1-GPU platform: 1 node requested, 100 needed')


# ------------------------------------------------------------------------------
# R17.6   resolution and sizing are history independent: neither
#         `Session.get_resource_config` nor what prepares a pilot from its
#         result writes to configuration that outlives the call
#
# Objects are classified per program point (reaching definitions):
#   S  outlives the call and is seen by later calls: the stored entries
#      `self.<attr>[..][..]` of the resolver, the containers *inside* a fresh
#      TypedDict instance (its constructor copies the top-level keys only; the
#      values are those of the stored entry or of the class-level `_defaults`),
#      a parameter which a caller's loop hands unchanged to every call
#   F  fresh top-level object of this call (`Cls(from_dict=..)`, `dict(x)`,
#      `x.copy()`, the containers `verify()` re-created): its keys may be
#      re-bound, what the keys hold is S
#   D  private all the way down (`copy.deepcopy`, `ru.Config(from_dict=..)`)
#   V  immutable scalar field (typed str/int/float/bool in the `_schema`)
# A violation is a store / in-place mutation whose receiver is S.
#
from ..flow import must_pass

_RANK6    = {'V': 0, 'D': 1, 'F': 2, 'S': 3}
_SCALAR_T = (str, int, float, bool)
_MUTATORS = frozenset([
    'append', 'extend', 'insert', 'remove', 'pop', 'popitem', 'clear', 'sort',
    'reverse', 'update', 'setdefault', 'add', 'discard',
    'intersection_update', 'difference_update', 'symmetric_difference_update',
    '__setitem__', '__delitem__', '__iadd__', '__ior__', '__imul__',
    '__setattr__', '__delattr__'])
_SPLITS   = frozenset(['split', 'rsplit', 'partition', 'rpartition'])
_STR_PURE = frozenset(['upper', 'lower', 'strip', 'lstrip', 'rstrip',
                       'format', 'join', 'replace', 'title', 'capitalize'])
_FN_PURE  = frozenset(['str', 'int', 'float', 'bool', 'len', 'repr', 'tuple'])
_COPY1    = frozenset(['dict', 'list', 'set', 'sorted', 'tuple', 'frozenset'])
_FRESH_RHS = (ast.List, ast.ListComp, ast.Dict, ast.DictComp, ast.Set,
              ast.SetComp)


class _Obj:
    __slots__ = ('kind', 'spec', 'inv', 'oid', 'origin', 'why')

    def __init__(self, kind, spec=None, inv=None, oid=(), origin='', why=''):
        self.kind   = kind
        self.spec   = spec       # type spec (TD schema) | ('store', attr, n)
        self.inv    = inv        # S: atoms identifying the object | None
        self.oid    = oid        # identity of the access path
        self.origin = origin     # readable access path
        self.why    = why        # why it outlives the call

    def sig(self):
        return (self.kind, repr(self.spec) if not isinstance(self.spec, tuple)
                or self.spec[0] != 'td' else self.spec[1].where,
                tuple(sorted(map(repr, self.inv)))
                if self.inv is not None else None)


def _is_container(spec):
    return isinstance(spec, tuple) and spec[0] in ('list', 'dict', 'td')


def _join6(objs):
    objs = [o for o in objs if o is not None]
    if not objs:
        return None
    top = max(_RANK6[o.kind] for o in objs)
    worst = [o for o in objs if _RANK6[o.kind] == top]
    w = worst[0]
    spec = w.spec
    inv  = w.inv
    for o in worst[1:]:
        if o.spec != spec:
            spec = None
        inv = None if inv is None or o.inv is None else inv & o.inv
    return _Obj(w.kind, spec, inv, w.oid, w.origin, w.why)


def _inv_names(atoms):
    """names a stored value may depend on while the store stays a function of
    the object's identity: a name used directly as an index, or a name ALL of
    whose split() components are used as indices (split is inverted by
    joining, so the indices determine the name)"""
    out = set()
    parts = {}
    for a in atoms or ():
        if a[0] == 'p':
            out.add(a[1])
        else:
            parts.setdefault((a[1], a[3], a[4]), set()).add(a[2])
    for (d, n, name), seen in parts.items():
        if seen == set(range(n)):
            out.add(name)
    return out


def _raw_form(mod, node):
    """'aug' | 'assign' | None: how the statement at the position of the
    (canonical) augmented assignment `node` is spelled in the source.  The
    canonical pass turns `x = x + e` into `x += e`; for a list the former
    re-binds a new object, the latter mutates the old one in place."""
    idx = mod.__dict__.get('_c17_raw')
    if idx is None:
        idx = {}
        try:
            tree = ast.parse(mod.src)
        except (SyntaxError, ValueError, TypeError):
            tree = None
        if tree is not None:
            for n in ast.walk(tree):
                if isinstance(n, (ast.Assign, ast.AugAssign)):
                    idx.setdefault((n.lineno, n.col_offset), n)
        mod.__dict__['_c17_raw'] = idx
    n = idx.get((getattr(node, 'lineno', -1), getattr(node, 'col_offset', -1)))
    if isinstance(n, ast.AugAssign):
        return 'aug'
    if isinstance(n, ast.Assign):
        return 'assign'
    return None


class _Frame:
    """one function analysed under one binding of its parameters"""

    def __init__(self, ctx, f, binding, self_roots, chain):
        self.ctx, self.f, self.binding = ctx, f, binding
        self.self_roots = self_roots
        self.chain = chain
        self.g     = cfg_of(f)
        self.rd    = ReachingDefs(self.g)
        self.smap  = I.stmt_node_map(self.g)
        deco = {dotted(d) for d in f.node.decorator_list}
        ps   = f.params
        self.selfname = ps[0] if f.cls is not None and ps and \
            'staticmethod' not in deco else None
        self.limps = f.module.local_imports(f.node)
        self._memo = {}
        self._live = {}
        self.returns = []

    # -- names ----------------------------------------------------------------
    def _param_live(self, name, nid):
        if name not in self.f.params:
            return False
        defs = self.rd.by_name.get(name, ())
        if not defs:
            return True
        if name not in self._live:
            self._live[name] = self.g.reachable(self.g.entry.id,
                                                skip_nodes=defs)
        R = self._live[name]
        return nid in R or any(e.src in R for e in self.g.pred[nid])

    def name_obj(self, name, nid, stack=frozenset()):
        key = (name, nid)
        if key in self._memo:
            return self._memo[key]
        if key in stack:
            return None
        st = stack | {key}
        objs = []
        if self._param_live(name, nid):
            objs.append(self.binding.get(name))
        for d in self.rd.reaching(nid, name):
            objs.append(self.def_obj(name, d, st))
        res = _join6(objs)
        if not stack:
            self._memo[key] = res
        return res

    def def_obj(self, name, d, stack):
        n = self.g.nodes[d]
        a = n.ast
        if n.kind == 'stmt':
            if isinstance(a, ast.Assign):
                out = []
                for t in a.targets:
                    out.append(self._bind(t, a.value, name, d, stack))
                return _join6(out)
            if isinstance(a, ast.AnnAssign) and a.value is not None:
                return self._bind(a.target, a.value, name, d, stack)
            if isinstance(a, ast.AugAssign) and \
                    isinstance(a.target, ast.Name) and a.target.id == name:
                if isinstance(a.op, (ast.Add, ast.Sub)) and \
                        _raw_form(self.f.module, a) == 'assign':
                    return None             # x = x + e: a new object
                return self.name_obj(name, d, stack)
            for x in walk(a):
                if isinstance(x, ast.NamedExpr) and \
                        isinstance(x.target, ast.Name) and x.target.id == name:
                    return self.expr_obj(x.value, d, stack)
            return None
        if n.kind == 'for':
            return self._for_bind(a, name, d, stack)
        return None

    def _bind(self, t, v, name, d, stack):
        if isinstance(t, ast.Name):
            return self.expr_obj(v, d, stack) if t.id == name else None
        if isinstance(t, (ast.Tuple, ast.List)) and \
                isinstance(v, (ast.Tuple, ast.List)) and \
                len(t.elts) == len(v.elts):
            return _join6([self._bind(a, b, name, d, stack)
                           for a, b in zip(t.elts, v.elts)])
        return None

    def _for_bind(self, a, name, d, stack):
        it, tg = a.iter, a.target
        if isinstance(it, ast.Call) and isinstance(it.func, ast.Name) and \
                it.func.id == 'enumerate' and it.args and \
                isinstance(tg, (ast.Tuple, ast.List)) and len(tg.elts) == 2:
            it, tg = it.args[0], tg.elts[1]
        if isinstance(it, ast.Call) and isinstance(it.func, ast.Attribute) \
                and it.func.attr in ('items', 'values', 'keys') and \
                not it.args:
            base = self.expr_obj(it.func.value, d, stack)
            if it.func.attr == 'keys':
                return None
            if it.func.attr == 'items':
                if isinstance(tg, (ast.Tuple, ast.List)) and \
                        len(tg.elts) == 2:
                    tg = tg.elts[1]
                else:
                    return None
            if isinstance(tg, ast.Name) and tg.id == name:
                return self.child(base, None, None, d, '[*]')
            return None
        if isinstance(tg, ast.Name) and tg.id == name:
            base = self.expr_obj(it, d, stack)
            if base is None:
                return None
            if isinstance(base.spec, tuple) and base.spec[0] in ('dict', 'td'):
                return None                 # iterating a mapping yields keys
            return self.child(base, None, None, d, '[*]')
        return None

    # -- expressions ----------------------------------------------------------
    def expr_obj(self, e, nid, stack=frozenset()):
        ctx = self.ctx
        if isinstance(e, ast.Name):
            return self.name_obj(e.id, nid, stack)
        if isinstance(e, ast.Attribute):
            if isinstance(e.value, ast.Name) and e.value.id == self.selfname \
                    and not self.rd.by_name.get(self.selfname):
                if not self.self_roots:
                    return None
                return _Obj('S', ('store', e.attr, 0), frozenset(),
                            ('root', e.attr), 'self.' + e.attr,
                            'state of the %s instance: it is there for every '
                            'later call' % self.f.cls.name)
            base = self.expr_obj(e.value, nid, stack)
            return self.field(e.value, base, e.attr, None, nid,
                              '.' + e.attr, stack)
        if isinstance(e, ast.Subscript):
            base = self.expr_obj(e.value, nid, stack)
            if base is None:
                return None
            s = e.slice
            if isinstance(s, ast.Slice):
                return _Obj('F', base.spec, None, base.oid + (('c',),),
                            base.origin + '[:]') if base.kind != 'V' else None
            key = s.value if isinstance(s, ast.Constant) else None
            return self.field(e.value, base, key,
                              None if key is not None else s, nid,
                              '[%s]' % short(s, 40), stack)
        if isinstance(e, ast.Call):
            return self._call_obj(e, nid, stack)
        if isinstance(e, ast.BoolOp):
            return _join6([self.expr_obj(v, nid, stack) for v in e.values])
        if isinstance(e, ast.IfExp):
            return _join6([self.expr_obj(e.body, nid, stack),
                           self.expr_obj(e.orelse, nid, stack)])
        if isinstance(e, ast.NamedExpr):
            return self.expr_obj(e.value, nid, stack)
        return None

    def _call_obj(self, c, nid, stack):
        fn = c.func
        cn = call_name(c)
        last = cn.split('.')[-1] if cn else ''
        if isinstance(fn, ast.Attribute):
            if fn.attr in ('get', 'setdefault') and c.args:
                base = self.expr_obj(fn.value, nid, stack)
                a0 = c.args[0]
                key = a0.value if isinstance(a0, ast.Constant) else None
                got = self.field(fn.value, base, key,
                                 None if key is not None else a0, nid,
                                 '.get(%s)' % short(a0, 40), stack)
                dflt = self.expr_obj(c.args[1], nid, stack) \
                    if len(c.args) > 1 else None
                return _join6([got, dflt])
            if fn.attr == 'copy' and not c.args and not c.keywords:
                base = self.expr_obj(fn.value, nid, stack)
                if base is not None and base.kind in ('S', 'F'):
                    return _Obj('F', base.spec, None, base.oid + (('c',),),
                                'a copy of ' + base.origin)
                return base
            if fn.attr == 'verify' and not c.args:
                return self.expr_obj(fn.value, nid, stack)
        if last == 'deepcopy' and c.args:
            base = self.expr_obj(c.args[0], nid, stack)
            if base is None or base.kind == 'V':
                return None
            return _Obj('D', base.spec, None, base.oid + (('d',),),
                        'a deep copy of ' + base.origin)
        if isinstance(fn, ast.Name) and fn.id in _COPY1 and \
                len(c.args) == 1 and not c.keywords:
            base = self.expr_obj(c.args[0], nid, stack)
            if base is None or base.kind in ('V', 'D'):
                return base if base is not None and base.kind == 'D' else None
            return _Obj('F', base.spec, None, base.oid + (('c',),),
                        '%s(%s)' % (fn.id, base.origin))
        r = ctx_resolve(self, fn)
        args = list(c.args) + [k.value for k in c.keywords]
        if r and r[0] == 'class' and _is_td_class(self.ctx.prog, r[1]):
            # the constructor copies top-level keys: the new object holds the
            # containers of its argument and of the class-level defaults
            src = _join6([self.expr_obj(a, nid, stack) for a in args])
            if (src is None or src.kind == 'V') and (
                    self.ctx.deep_defaults(r[1]) or not any(
                        isinstance(v, (dict, list))
                        for v in TD.of(self.ctx.prog,
                                       r[1]).defaults.values())):
                return None
            return _Obj('F', ('td', r[1]), None, ('new', nid),
                        'the %s instance created by `%s`'
                        % (r[1].name, short(c, 60)))
        if last == 'Config' and (r is None or r[0] == 'ext'):
            src = _join6([self.expr_obj(a, nid, stack) for a in args])
            if src is None or src.kind == 'V':
                return None
            return _Obj('D', None, None, ('new', nid),
                        'the private tree `%s`' % short(c, 60))
        h = self.ctx.prog.resolve_call(self.f, c, self.f.cls)
        if h is not None:
            summ = self.ctx.call(self, c, h, nid)
            if summ is not None:
                return summ
        if isinstance(fn, ast.Attribute) and \
                fn.attr == self.ctx.resolver.name and \
                self.ctx.resolver_summary is not None:
            return self.ctx.resolver_result(nid)
        return None

    def _field_stores(self, name, key):
        """{cfg node id: value expr | None} of the stores `<name>.<key> = v`
        / `<name>[<key>] = v` of this function (None: `x.k = x.k + e` in the
        source, a new object)"""
        ck = ('fs', name, key)
        if ck not in self._memo:
            out = {}
            for n in self.g.nodes:
                a = n.ast
                if n.kind != 'stmt' or not isinstance(
                        a, (ast.Assign, ast.AnnAssign, ast.AugAssign)):
                    continue
                tgs = a.targets if isinstance(a, ast.Assign) else [a.target]
                for t in tgs:
                    if isinstance(t, ast.Attribute):
                        k = t.attr
                    elif isinstance(t, ast.Subscript) and \
                            isinstance(t.slice, ast.Constant):
                        k = t.slice.value
                    else:
                        continue
                    if k != key or not isinstance(t.value, ast.Name) or \
                            t.value.id != name:
                        continue
                    if isinstance(a, ast.AugAssign):
                        if isinstance(a.op, (ast.Add, ast.Sub)) and \
                                _raw_form(self.f.module, a) == 'assign':
                            out[n.id] = None
                    elif a.value is not None:
                        out[n.id] = a.value
            self._memo[ck] = out
        return self._memo[ck]

    def field(self, recv, base, key, idx, nid, text, stack):
        """what `<recv>.<key>` holds at nid: the values this function stored
        under that key of an object of this call, where such a store lies on
        every path; else what the object was created with"""
        if base is None or base.kind == 'V':
            return None
        if base.kind in ('F', 'D') and key is not None and \
                isinstance(recv, ast.Name):
            W = self._field_stores(recv.id, key)
            if W:
                g = self.g
                ws = set(W)
                objs = []
                for w in W:
                    inner = g.reachable([e.dst for e in g.succ[w]
                                         if e.label != 'exc'
                                         and e.dst not in ws],
                                        skip_nodes=ws)
                    if nid in inner or any(
                            (e.src in inner or e.src == w) and
                            e.label != 'exc' for e in g.pred[nid]):
                        if W[w] is not None:
                            objs.append(self.expr_obj(W[w], w, stack))
                defs = self.rd.reaching(nid, recv.id)
                if defs and not self._param_live(recv.id, nid) and all(
                        must_pass(g, d, nid, ws - {nid}) for d in defs):
                    return _join6(objs)
                return _join6(objs + [self.child(
                    base, key, idx, nid, text, self._verified(recv, nid))])
        return self.child(base, key, idx, nid, text,
                          self._verified(recv, nid))

    def _verified(self, recv, nid):
        """`recv` is a plain name whose every definition reaching `nid` is
        followed, on all paths to `nid`, by `<recv>.verify()` (which re-creates
        the list / dict typed values)"""
        if not isinstance(recv, ast.Name):
            return False
        defs = self.rd.reaching(nid, recv.id)
        if not defs or self._param_live(recv.id, nid):
            return False
        via = set()
        for n in self.g.nodes:
            if n.ast is None or n.kind not in ('stmt', 'test'):
                continue
            for c in calls_in(n.ast):
                if isinstance(c.func, ast.Attribute) and \
                        c.func.attr == 'verify' and \
                        isinstance(c.func.value, ast.Name) and \
                        c.func.value.id == recv.id:
                    via.add(n.id)
        via.discard(nid)
        if not via:
            return False
        return all(must_pass(self.g, d, nid, via) for d in defs)

    def child(self, base, key, idx, nid, text, verified=False):
        if base is None or base.kind == 'V':
            return None
        prog = self.ctx.prog
        spec = base.spec
        cs = None
        if isinstance(spec, tuple):
            if spec[0] == 'td':
                if isinstance(key, str):
                    cs = TD.of(prog, spec[1]).schema.get(key)
            elif spec[0] == 'dict':
                cs = spec[2]
            elif spec[0] == 'list':
                cs = spec[1]
            elif spec[0] == 'store':
                cs = self.ctx.store_spec(spec[1], spec[2] + 1)
        step = ('k', key) if key is not None else \
            ('i', unparse(idx) if idx is not None else '*')
        oid = base.oid + (step,)
        origin = base.origin + text
        if cs in _SCALAR_T:
            return _Obj('V', cs, None, oid, origin)
        if base.kind == 'D':
            return _Obj('D', cs, None, oid, origin)
        if base.kind == 'S':
            inv = base.inv
            if idx is not None and inv is not None:
                inv = inv | self.key_atoms(idx, nid)
            return _Obj('S', cs, inv, oid, origin, base.why)
        # contents of a fresh top-level object
        if verified and isinstance(spec, tuple) and spec[0] == 'td' and \
                isinstance(cs, tuple) and cs[0] in ('list', 'dict'):
            return _Obj('F', cs, None, oid, origin)
        why = ('%s is a new object, but what its keys hold is not copied: '
               'the value is the one held by the stored entry it was built '
               'from' % base.origin)
        if isinstance(spec, tuple) and spec[0] == 'td':
            td = TD.of(prog, spec[1])
            if isinstance(key, str) and key in td.defaults and \
                    not self.ctx.deep_defaults(spec[1]):
                why += (' or, where the platform does not set %r, the one '
                        'class-level default object %s._defaults[%r] which '
                        'every such platform shares (%s._deep is False)'
                        % (key, spec[1].name, key, spec[1].name))
        return _Obj('S', cs, None, oid, origin, why)

    # -- values a store may depend on ----------------------------------------
    def _single_def(self, name, nid):
        """(cfg node, target, value) of the one plain assignment of `name`
        reaching nid, else None"""
        if self._param_live(name, nid):
            return None
        defs = self.rd.reaching(nid, name)
        if len(defs) != 1:
            return None
        d = self.g.nodes[next(iter(defs))]
        a = d.ast
        if d.kind != 'stmt' or not isinstance(a, ast.Assign) or \
                len(a.targets) != 1:
            return None
        return d, a.targets[0], a.value

    def _is_free_param(self, name, nid):
        return name in self.f.params and name != self.selfname and \
            not self.rd.by_name.get(name)

    def leaves(self, e, nid, depth=0):
        """parameter names the value of e is a pure function of (constants,
        string operations); None if it reads anything else"""
        if depth > 8:
            return None
        if isinstance(e, ast.Constant):
            return set()
        if isinstance(e, ast.Name):
            if self._is_free_param(e.id, nid):
                return {e.id}
            sd = self._single_def(e.id, nid)
            if sd is None:
                return None
            d, t, v = sd
            if isinstance(t, ast.Name) or (
                    isinstance(t, (ast.Tuple, ast.List)) and
                    not isinstance(v, (ast.Tuple, ast.List))):
                return self.leaves(v, d.id, depth + 1)
            return None
        if isinstance(e, (ast.Tuple, ast.List)):
            parts = [self.leaves(x, nid, depth + 1) for x in e.elts]
        elif isinstance(e, ast.BinOp):
            parts = [self.leaves(e.left, nid, depth + 1),
                     self.leaves(e.right, nid, depth + 1)]
        elif isinstance(e, ast.JoinedStr):
            parts = [self.leaves(x, nid, depth + 1) for x in e.values]
        elif isinstance(e, ast.FormattedValue):
            parts = [self.leaves(e.value, nid, depth + 1)]
        elif isinstance(e, ast.Call) and not e.keywords and (
                isinstance(e.func, ast.Attribute) and
                e.func.attr in _STR_PURE | _SPLITS or
                isinstance(e.func, ast.Name) and e.func.id in _FN_PURE):
            parts = [self.leaves(x, nid, depth + 1) for x in e.args]
            if isinstance(e.func, ast.Attribute):
                parts.append(self.leaves(e.func.value, nid, depth + 1))
        else:
            return None
        if any(p is None for p in parts):
            return None
        out = set()
        for p in parts:
            out |= p
        return out

    def key_atoms(self, idx, nid):
        """what an index expression contributes to the identity of the
        indexed element"""
        e = idx
        for _ in range(8):
            if not isinstance(e, ast.Name):
                return frozenset()
            if self._is_free_param(e.id, nid):
                return frozenset([('p', e.id)])
            sd = self._single_def(e.id, nid)
            if sd is None:
                return frozenset()
            d, t, v = sd
            if isinstance(t, ast.Name):
                e, nid = v, d.id
                continue
            if isinstance(t, (ast.Tuple, ast.List)) and \
                    isinstance(v, ast.Call) and \
                    isinstance(v.func, ast.Attribute) and \
                    v.func.attr in _SPLITS and \
                    isinstance(v.func.value, ast.Name) and \
                    self._is_free_param(v.func.value.id, d.id) and \
                    all(isinstance(x, ast.Name) for x in t.elts):
                pos = [i for i, x in enumerate(t.elts) if x.id == e.id]
                if len(pos) == 1:
                    return frozenset([('u', d.id, pos[0], len(t.elts),
                                       v.func.value.id)])
            return frozenset()
        return frozenset()

    # -- loops of the caller --------------------------------------------------
    def shared_loop(self, name, nid):
        """head of the outermost loop around nid which contains no definition
        of `name` reaching nid: every iteration sees the same object"""
        defs = self.rd.reaching(nid, name)
        for h in self.g.nodes[nid].loops:
            if all(d != h and h not in self.g.nodes[d].loops for d in defs):
                return h
        return None

    def invariant_in(self, e, h):
        for nm in {x.id for x in walk(e) if isinstance(x, ast.Name)}:
            for d in self.rd.by_name.get(nm, ()):
                if d == h or h in self.g.nodes[d].loops:
                    return False
        return True

    # -- events ---------------------------------------------------------------
    def scan(self):
        f = self.f
        for x in walk(f.node):
            n = self.smap.get(id(x))
            if n is None:
                continue
            if isinstance(x, (ast.Assign, ast.AugAssign, ast.AnnAssign,
                              ast.Delete)):
                if n.kind == 'stmt' and n.ast is x:
                    self._store_event(x, n)
            elif isinstance(x, ast.Call):
                self._call_event(x, n)
            elif isinstance(x, ast.Return) and x.value is not None:
                self.returns.append(self.expr_obj(x.value, n.id))
        return self

    def _ok(self, what, node):
        self.ctx.rep.ok(self.ctx.rid, self.f, what, self.f.loc(node))

    def _bad(self, stmt, obj, verb, extra=''):
        via = ''
        if len(self.chain) > 1:
            via = ' (reached through %s)' % ' -> '.join(self.chain)
        msg = ('%s%s: `%s` %s %s, an object which outlives the call - %s.%s  '
               'Every later call reads what this one left behind, so what a '
               'platform resolves to / how a pilot is sized is no longer a '
               'function of the platform, the schema and the pilot '
               'description alone but of the calls made before.  Re-bind a '
               'new value on the per-call object, or work on a private copy '
               '(copy.deepcopy), instead.'
               % (self.f.qual, via, short(stmt, 90), verb, obj.origin,
                  obj.why or 'it is reachable from the stored configuration',
                  (' ' + extra) if extra else ''))
        self.ctx.rep.bad(self.ctx.rid, self.f, short(stmt, 90), msg,
                         self.f.loc(stmt), history=self.ctx.history(obj))

    def _in_place(self, spec, st):
        if _is_container(spec):
            return True
        if spec is not None:
            return False
        v = st.value
        return isinstance(v, _FRESH_RHS) or (
            isinstance(v, ast.Call) and isinstance(v.func, ast.Name) and
            v.func.id in ('list', 'dict', 'set'))

    def _aug_form(self, st):
        """'aug' (in place) | 'assign' (the source says x = x + e)"""
        if not isinstance(st.op, (ast.Add, ast.Sub)):
            return 'aug'
        form = _raw_form(self.f.module, st)
        if form is None:
            raise AnalysisError(
                'UNRECOGNISED-IDIOM %s: cannot tell whether `%s` is an '
                'in-place `+=` or a re-binding `x = x + e` in the source '
                '(the canonical spelling merges them)'
                % (self.f.where, short(st, 80)))
        return form

    def _store_event(self, st, n):
        if isinstance(st, (ast.Assign, ast.Delete)):
            tgs = list(st.targets)
        else:
            tgs = [st.target]
        flat = []
        while tgs:
            t = tgs.pop()
            if isinstance(t, (ast.Tuple, ast.List)):
                tgs += t.elts
            elif isinstance(t, ast.Starred):
                tgs.append(t.value)
            else:
                flat.append(t)
        aug = isinstance(st, ast.AugAssign)
        for t in flat:
            if isinstance(t, (ast.Attribute, ast.Subscript)):
                if isinstance(t, ast.Attribute) and \
                        isinstance(t.value, ast.Name) and \
                        t.value.id == self.selfname:
                    if not self.self_roots:
                        continue
                    base = _Obj('S', None, frozenset(), ('self',), 'self',
                                'the %s instance is there for every later '
                                'call' % self.f.cls.name)
                else:
                    base = self.expr_obj(t.value, n.id)
                if base is None or base.kind == 'V':
                    continue
                if isinstance(t, ast.Attribute):
                    key = t.attr
                else:
                    key = t.slice.value if isinstance(t.slice, ast.Constant) \
                        else None
                if base.kind in ('F', 'D'):
                    if aug and base.kind == 'F':
                        cont = self.expr_obj(t, n.id)
                        if cont is not None and cont.kind == 'S' and \
                                self._in_place(cont.spec, st):
                            if self._aug_form(st) == 'aug':
                                self._bad(st, cont, 'changes in place',
                                          'The augmented assignment calls '
                                          '__iadd__ on the old container and '
                                          'then stores the same object again.')
                                continue
                    self._ok('`%s` re-binds a key of %s, an object of this '
                             'call' % (short(st, 60), base.origin), st)
                    continue
                why = None
                if isinstance(st, ast.Assign) and key is not None:
                    why = self._exempt(base, key, st, n)
                    if why is True:
                        self._ok('`%s` stores a value which is a function of '
                                 'what identifies %s (the same value on every '
                                 'call that reaches this object, before the '
                                 'object is read)' % (short(st, 60),
                                                      base.origin), st)
                        continue
                elif isinstance(st, ast.Assign) and \
                        isinstance(t, ast.Subscript) and \
                        self._memo_fill(base, t, st, n):
                    self._ok('`%s` fills a memo: the key names every '
                             'parameter of the call, the value is a private '
                             'deep copy, and the memo is only read through '
                             'deep copies - a later call with the same '
                             'arguments gets what it would compute itself'
                             % short(st, 60), st)
                    continue
                self._bad(st, base, 'deletes from' if isinstance(
                    st, ast.Delete) else 'stores into', why or '')
            elif isinstance(t, ast.Name) and aug:
                cur = self.name_obj(t.id, n.id)
                if cur is None:
                    continue
                if cur.kind == 'V':
                    self._ok('`%s` re-binds the local copy of the scalar '
                             'field %s' % (short(st, 60), cur.origin), st)
                elif cur.kind == 'S':
                    if self._in_place(cur.spec, st) and \
                            self._aug_form(st) == 'aug':
                        self._bad(st, cur, 'changes in place',
                                  'The local name is an alias of the '
                                  'container, not a copy.')
                else:
                    self._ok('`%s` changes %s, an object of this call'
                             % (short(st, 60), cur.origin), st)

    def _is_memo_home(self, obj):
        """an untyped container below an attribute of self which holds no
        configuration (no TypedDict instance is stored anywhere below it)"""
        sp = obj.spec
        if not (isinstance(sp, tuple) and sp[0] == 'store'):
            return False
        self.ctx.store_spec(sp[1], 0)
        return not self.ctx._store.get(sp[1])

    def _memo_fill(self, base, t, st, n):
        """`M[<every parameter of the call>] = <private deep copy>` where M
        holds no configuration and is read only through deep copies: the
        round-6 cache condition (keyed by everything the value depends on -
        the stored entries never change, that is what the other findings of
        this rule establish; no reference into the memo is handed out)"""
        if base.kind != 'S' or not self._is_memo_home(base):
            return False
        val = self.expr_obj(st.value, n.id)
        if val is None or val.kind != 'D':
            return False
        k = t.slice
        elts = k.elts if isinstance(k, ast.Tuple) else [k]
        if not all(isinstance(x, ast.Name) for x in elts):
            return False
        need = set(self.f.params) - {self.selfname}
        if not need or not need <= {x.id for x in elts}:
            return False
        copied = {id(x.args[0]) for x in walk(self.f.node)
                  if isinstance(x, ast.Call) and x.args and
                  call_name(x).split('.')[-1] == 'deepcopy'}
        for x in walk(self.f.node):
            if isinstance(x, ast.Subscript) and isinstance(x.ctx, ast.Load):
                load = x.value
            elif isinstance(x, ast.Call) and \
                    isinstance(x.func, ast.Attribute) and \
                    x.func.attr in ('get', 'setdefault', 'pop', 'values',
                                    'items', 'popitem'):
                load = x.func.value
            else:
                continue
            m = self.smap.get(id(x))
            if m is None:
                continue
            o = self.expr_obj(load, m.id)
            if o is not None and o.oid == base.oid and id(x) not in copied:
                return False
        return True

    def _exempt(self, base, key, st, n):
        """True, or the reason why the store is not idempotent"""
        if base.inv is None:
            return ''
        lv = self.leaves(st.value, n.id)
        if lv is None:
            return ('The stored value `%s` is computed from more than the '
                    'parameters of the call.' % short(st.value, 60))
        allowed = _inv_names(base.inv)
        if not lv <= allowed:
            return ('The stored value depends on %s, while the object is '
                    'identified by %s: two calls reaching the same object '
                    'store different values.'
                    % (', '.join(sorted(lv - allowed)),
                       ', '.join(sorted(allowed)) or 'nothing of the call'))
        # no read of that key / use of the whole object before the store
        before = set()
        todo = [n.id]
        while todo:
            m = todo.pop()
            for e in self.g.pred[m]:
                if e.src not in before:
                    before.add(e.src)
                    todo.append(e.src)
        before.discard(n.id)
        for x in walk(self.f.node):
            m = self.smap.get(id(x))
            if m is None or m.id not in before:
                continue
            hit = None
            if isinstance(x, ast.Attribute) and x.attr == key and \
                    isinstance(x.ctx, ast.Load):
                hit = x.value
            elif isinstance(x, ast.Subscript) and \
                    isinstance(x.ctx, ast.Load) and \
                    isinstance(x.slice, ast.Constant) and \
                    x.slice.value == key:
                hit = x.value
            elif isinstance(x, ast.Call):
                if isinstance(x.func, ast.Attribute) and \
                        x.func.attr == 'get' and x.args and \
                        isinstance(x.args[0], ast.Constant) and \
                        x.args[0].value == key:
                    hit = x.func.value
                else:
                    for a in list(x.args) + [k.value for k in x.keywords]:
                        o = self.expr_obj(a, m.id)
                        if o is not None and o.kind == 'S' and \
                                o.oid == base.oid:
                            return ('The object is handed to `%s` before the '
                                    'store on some path: the first call works '
                                    'with the old value, later calls with the '
                                    'stored one.' % short(x, 60))
            elif isinstance(x, ast.Return) and x.value is not None:
                hit = None
                o = self.expr_obj(x.value, m.id)
                if o is not None and o.kind == 'S' and o.oid == base.oid:
                    return 'The object is returned before the store.'
            if hit is not None:
                o = self.expr_obj(hit, m.id)
                if o is not None and o.kind == 'S' and o.oid == base.oid:
                    return ('%r of the object is read before the store on '
                            'some path: the first call works with the old '
                            'value, later calls with the stored one.' % key)
        return True

    def _call_event(self, c, n):
        fn  = c.func
        nid = n.id
        cn  = call_name(c)
        last = cn.split('.')[-1] if cn else ''
        if last == 'dict_merge':
            a, b = kwarg(c, 'a', 0), kwarg(c, 'b', 1)
            tgt = self.expr_obj(a, nid) if a is not None else None
            if tgt is None or tgt.kind == 'V':
                return
            if tgt.kind == 'S':
                self._bad(c, tgt, 'merges into')
                return
            if tgt.kind == 'F':
                src = self.expr_obj(b, nid) if b is not None else None
                flat = None
                if src is not None and isinstance(src.spec, tuple) and \
                        src.spec[0] == 'td':
                    sch = TD.of(self.ctx.prog, src.spec[1]).schema
                    flat = all(v in _SCALAR_T for v in sch.values())
                elif src is not None and isinstance(src.spec, tuple) and \
                        src.spec[0] == 'dict':
                    flat = src.spec[2] in _SCALAR_T
                elif isinstance(b, ast.Dict):
                    flat = all(isinstance(v, ast.Constant) for v in b.values)
                if flat is None:
                    raise AnalysisError(
                        'UNRECOGNISED-IDIOM %s: cannot type the operand `%s` '
                        'merged into %s (a nested dict in it would be merged '
                        'into a container shared with the stored entry)'
                        % (self.f.where, short(b, 60), tgt.origin))
                if not flat:
                    self._bad(c, _Obj('S', None, None, tgt.oid,
                                      'the containers held by ' + tgt.origin,
                                      'dict_merge descends into values which '
                                      'are dicts on both sides, and those of '
                                      '%s are not copies' % tgt.origin),
                              'merges nested dicts into')
                    return
            self._ok('`%s` merges scalar settings into %s: top-level keys of '
                     'an object of this call are re-bound'
                     % (short(c, 60), tgt.origin), c)
            return
        if isinstance(fn, ast.Name) and fn.id in ('setattr', 'delattr') and \
                len(c.args) >= 2:
            base = self.expr_obj(c.args[0], nid)
            if base is not None and base.kind == 'S':
                self._bad(c, base, 'stores into')
            elif base is not None and base.kind != 'V':
                self._ok('`%s` on an object of this call' % short(c, 60), c)
            return
        if isinstance(fn, ast.Attribute):
            if fn.attr in _MUTATORS:
                recv = self.expr_obj(fn.value, nid)
                if recv is None or recv.kind == 'V':
                    return
                if recv.kind == 'S' and fn.attr == 'setdefault' and \
                        self._is_memo_home(recv) and len(c.args) == 2 and \
                        not c.keywords and \
                        isinstance(c.args[0], ast.Constant) and (
                            isinstance(c.args[1], (ast.Dict, ast.List)) and
                            not getattr(c.args[1], 'keys',
                                        getattr(c.args[1], 'elts', None)) or
                            isinstance(c.args[1], ast.Call) and
                            isinstance(c.args[1].func, ast.Name) and
                            c.args[1].func.id in ('dict', 'list') and
                            not c.args[1].args and not c.args[1].keywords):
                    self._ok('`%s` creates an empty slot under a constant key '
                             'of %s, which holds no configuration: the same '
                             'for every call, what the slot holds is left '
                             'alone' % (short(c, 60), recv.origin), c)
                elif recv.kind == 'S':
                    self._bad(c, recv, 'changes in place (%s)' % fn.attr)
                else:
                    self._ok('`%s` changes %s, an object of this call'
                             % (short(c, 60), recv.origin), c)
                return
            if fn.attr == 'verify' and not c.args and not c.keywords:
                recv = self.expr_obj(fn.value, nid)
                if recv is not None and recv.kind != 'V':
                    self._ok('`%s` casts every value to the type its schema '
                             'names: applied again it changes nothing, so it '
                             'is the same for every call' % short(c, 60), c)
                return
        h = self.ctx.prog.resolve_call(self.f, c, self.f.cls)
        if h is not None and h is not self.ctx.resolver:
            self.ctx.call(self, c, h, nid)

    def resolve(self, expr):
        if isinstance(expr, (ast.Name, ast.Attribute)):
            return self.ctx.prog.resolve(self.f.module, expr, self.limps)
        return None


def ctx_resolve(frame, expr):
    return frame.resolve(expr)


class _Purity:

    def __init__(self, prog, rep, rid):
        self.prog, self.rep, self.rid = prog, rep, rid
        self.resolver = prog.method(SESSION[0], SESSION[1],
                                    'get_resource_config')
        self.resolver_summary = None
        self.done   = {}
        self.bound  = {}         # callee where -> [binding]
        self._store = {}
        self._deepc = {}

    def store_spec(self, attr, depth):
        """type of `self.<attr>[..] x depth` as the resolver's class stores
        it (`self.<attr>[a][b] = Cls(..)`)"""
        if attr not in self._store:
            found = {}
            for m in self.resolver.cls.methods.values():
                ps = m.params
                if not ps:
                    continue
                limps = m.module.local_imports(m.node)
                for n in walk(m.node):
                    if not (isinstance(n, ast.Assign) and
                            isinstance(n.value, ast.Call)):
                        continue
                    for t in n.targets:
                        k, x = 0, t
                        while isinstance(x, ast.Subscript):
                            k, x = k + 1, x.value
                        if k and isinstance(x, ast.Attribute) and \
                                x.attr == attr and \
                                isinstance(x.value, ast.Name) and \
                                x.value.id == ps[0] and \
                                isinstance(n.value.func, (ast.Name,
                                                          ast.Attribute)):
                            r = self.prog.resolve(m.module, n.value.func,
                                                  limps)
                            if r and r[0] == 'class' and \
                                    _is_td_class(self.prog, r[1]):
                                found.setdefault(k, set()).add(r[1])
            self._store[attr] = {k: next(iter(v)) for k, v in found.items()
                                 if len(v) == 1}
        c = self._store[attr].get(depth)
        return ('td', c) if c is not None else ('store', attr, depth)

    def deep_defaults(self, cls):
        key = cls.where
        if key not in self._deepc:
            v = True
            for k in self.prog.mro(cls):
                e = k.consts.get('_deep')
                if e is not None:
                    v = not (isinstance(e, ast.Constant) and e.value is False)
                    break
            self._deepc[key] = v
        return self._deepc[key]

    def resolver_result(self, nid):
        s = self.resolver_summary
        name = self.resolver.qual
        if s.kind == 'S':
            return _Obj('S', s.spec, None, ('res', nid),
                        'the config returned by %s()' % name,
                        '%s() returns the stored instance itself, not a copy'
                        % name)
        return _Obj(s.kind, s.spec, None, ('res', nid),
                    'the config returned by %s()' % name)

    def history(self, obj):
        if obj.oid and obj.oid[0] == 'loop':
            return ('%s: the loop hands one and the same object to every '
                    'call, e.g. pmgr.submit_pilots([pd, pd]) with two '
                    'descriptions for the same resource and access schema '
                    '(one bulk): the 2nd pilot is prepared from what the 1st '
                    'call stored, the 3rd from what the first two stored '
                    '(a per-node figure scaled once is scaled again: too few '
                    'nodes requested / inflated core count)' % obj.oid[1])
        return ('one process, two platforms: session.get_resource_config(A) '
                '(or a pilot submitted to A), then a pilot on / a resolution '
                'of platform B - B is resolved from configuration changed '
                'while resolving A; resolving B first, or in a fresh '
                'process, gives a different result (e.g. an argument '
                'mandatory for A only is demanded for B: the pilot fails '
                'with "attribute ... is required")')

    def call(self, fr, c, h, nid):
        """analyse callee h under the binding of call c; returns the object
        kind of its result (or None)"""
        if len(fr.chain) > 4 or h.qual in fr.chain or \
                not isinstance(h.node, (ast.FunctionDef,)):
            return None
        a = h.node.args
        if a.vararg or a.kwarg or \
                any(isinstance(x, ast.Starred) for x in c.args) or \
                any(k.arg is None for k in c.keywords):
            return None
        deco = {dotted(d) for d in h.node.decorator_list}
        params = [x.arg for x in a.posonlyargs + a.args]
        same_self = False
        if h.cls is not None and 'staticmethod' not in deco and params:
            recv = c.func.value if isinstance(c.func, ast.Attribute) else None
            same_self = isinstance(recv, ast.Name) and \
                recv.id == fr.selfname and fr.selfname is not None
            params = params[1:]
        if len(c.args) > len(params):
            return None
        pairs = list(zip(params, c.args))
        names = params + [x.arg for x in a.kwonlyargs]
        for k in c.keywords:
            if k.arg not in names or k.arg in dict(pairs):
                return None
            pairs.append((k.arg, k.value))
        tracked = {}
        for p, e in pairs:
            o = fr.expr_obj(e, nid)
            if o is not None and o.kind != 'V':
                tracked[p] = (o, e)
        roots = fr.self_roots and same_self
        if not tracked and not roots:
            return None
        binding = {}
        for p, (o, e) in tracked.items():
            if o.kind in ('F', 'D') and isinstance(e, ast.Name):
                lh = fr.shared_loop(e.id, nid)
                if lh is not None:
                    inv = frozenset(('p', q) for q, ex in pairs
                                    if fr.invariant_in(ex, lh))
                    where = '%s calls %s in a loop' % (fr.f.qual, h.qual)
                    binding[p] = _Obj(
                        'S', o.spec, inv, ('loop', where, p),
                        'parameter `%s`' % p,
                        '%s creates `%s` (%s) once, outside its loop over '
                        '`%s`, and passes the same object to every call of '
                        '%s in that loop'
                        % (fr.f.qual, e.id, o.origin,
                           short(fr.g.loop_ast[lh].iter, 30)
                           if lh in fr.g.loop_ast and
                           hasattr(fr.g.loop_ast[lh], 'iter') else 'the bulk',
                           h.qual))
                    continue
            inv = None
            if o.kind == 'S' and o.inv is not None:
                ok_names = _inv_names(o.inv)
                inv = set()
                for q, ex in pairs:
                    lv = fr.leaves(ex, nid)
                    if lv and lv <= ok_names:
                        inv.add(('p', q))
                inv = frozenset(inv)
            binding[p] = _Obj(o.kind, o.spec, inv, ('param', p),
                              'parameter `%s` (= %s)' % (p, o.origin), o.why)
        key = (h.where, roots, tuple(sorted((p, o.sig())
                                            for p, o in binding.items())))
        if key not in self.done:
            self.done[key] = None
            self.rep.saw(h)
            if binding:
                self.bound.setdefault(h.where, []).append(binding)
            sub = _Frame(self, h, binding, roots, fr.chain + (h.qual,))
            sub.scan()
            self.done[key] = _join6(sub.returns)
        s = self.done[key]
        if s is None or s.kind == 'V':
            return None
        return _Obj(s.kind, s.spec, None, ('ret', nid),
                    'the result of %s()' % h.qual, s.why)


def r17_6(prog, rep, tier, rid='R17.6'):
    rep.rule(rid, 'Session.get_resource_config, its callers and the methods '
             'they hand the config to (_start_pilot_bulk, _prepare_pilot) '
             'never store into / mutate in place an object that outlives the '
             'call: a stored entry, a container inside the per-call config '
             '(not copied by the constructor), the config shared by the '
             'pilots of a bulk', minimum=8)
    ctx = _Purity(prog, rep, rid)
    res = ctx.resolver
    rep.saw(res)
    fr = _Frame(ctx, res, {}, True, (res.qual,)).scan()
    summ = _join6(fr.returns)
    if summ is None or summ.kind == 'V':
        raise AnalysisError('UNRECOGNISED-IDIOM %s: cannot tell what kind of '
                            'object is returned' % res.where)
    ctx.resolver_summary = summ
    if summ.kind == 'S':
        rep.info(rid, res, 'returns the stored instance (%s): every store of '
                 'a caller through the result is a store into the session'
                 % summ.origin, res.loc())
    else:
        rep.ok(rid, res, 'every return hands out an object created in this '
               'call (%s)' % summ.origin, res.loc())
    if tier == 'thorough':
        classes = sorted(prog.all_classes(), key=lambda k: k.where)
    else:
        classes = [prog.cls(*SESSION), prog.cls(*PMGRL)]
    ncall = 0
    for c in classes:
        for m in sorted(c.methods.values(), key=lambda k: k.qual):
            if m is res or not any(
                    isinstance(x.func, ast.Attribute) and
                    x.func.attr == res.name for x in calls_in(m.node)):
                continue
            ncall += 1
            rep.saw(m)
            _Frame(ctx, m, {}, False, (m.qual,)).scan()
    rep.stat('resolver_callers', ncall)
    pp = prog.method(PMGRL[0], PMGRL[1], '_prepare_pilot')
    if not ctx.bound.get(pp.where):
        raise AnalysisError('UNRECOGNISED-IDIOM %s is not reached with the '
                            'config %s() returns: cannot tell which of its '
                            'parameters is the resource config'
                            % (pp.where, res.qual))
    if not any(o.kind == 'S' for b in ctx.bound[pp.where]
               for o in b.values()):
        rep.info(rid, pp, 'every call gets a config of its own')


# ------------------------------------------------------------------------------
# R17.7   the schema which is merged is the schema which was requested
#
class _KeySrc:
    """one possible origin of the key of the schema lookup
      kind    : 'param'   the schema parameter as passed by the caller
                'default' a read of `default_schema` of some config
                'const'   a literal
                'field'   a read of another config key / attribute
                'name'    another parameter or a free name
                'opaque'  anything else (not decided)
      falsy   : this origin is used only when the schema parameter is falsy"""

    def __init__(self, kind, node, falsy):
        self.kind, self.node, self.falsy = kind, node, falsy


def _cfg_field(e):
    """key of a read  X['k'] / X.k / X.get('k'[, d]); None if e is none"""
    if isinstance(e, ast.Subscript) and isinstance(e.slice, ast.Constant) \
            and isinstance(e.slice.value, str):
        return e.slice.value
    if isinstance(e, ast.Attribute) and isinstance(e.ctx, ast.Load):
        return e.attr
    if isinstance(e, ast.Call) and isinstance(e.func, ast.Attribute) and \
            e.func.attr == 'get' and e.args and \
            isinstance(e.args[0], ast.Constant) and \
            isinstance(e.args[0].value, str) and not e.keywords and (
            len(e.args) == 1 or len(e.args) == 2 and
            isinstance(e.args[1], ast.Constant) and not e.args[1].value):
        return e.args[0].value
    return None


class _KeyOrigin:
    """where the value of an expression comes from, followed through plain
    local copies, `a or b`, conditional expressions and guarded re-bindings
    of one function (reaching definitions on its CFG)"""

    def __init__(self, f, param):
        self.f, self.P = f, param
        self.g = cfg_of(f)
        self.rd = ReachingDefs(self.g)
        a = f.node.args
        self.params = {x.arg for x in a.posonlyargs + a.args + a.kwonlyargs}
        for x in (a.vararg, a.kwarg):
            if x is not None:
                self.params.add(x.arg)
        self.smap = I.stmt_node_map(self.g)
        self.deps = Deps(f.node, implicit=False)

    def _other(self, e, node, falsy):
        """an expression this analysis cannot follow: surely not the request
        if it does not depend on the schema parameter at all"""
        if e is not None and self.P not in self.deps.expr_depends(e):
            return _KeySrc('name', node, falsy)
        return _KeySrc('opaque', node, falsy)

    def _param_reaches(self, name, nid):
        if name not in self.params:
            return False
        # the entry of nid is reached from the function entry without passing
        # a re-binding of the name (nid itself may be one: `p = p or ..`)
        others = self.rd.by_name.get(name, set())
        inner = self.g.reachable(self.g.entry.id, skip_nodes=others)
        return nid in inner or any(e.src in inner for e in self.g.pred[nid])

    def _is_request(self, e, nid, depth):
        """e holds, at nid, the schema parameter as passed (nothing else)"""
        if not isinstance(e, ast.Name):
            return False
        src = self.sources(e, nid, False, depth + 1)
        return bool(src) and all(x.kind == 'param' and not x.falsy
                                 for x in src)

    def _falsy_atom(self, t, nid, depth):
        """edge label of test atom t on which the request is known to be
        falsy, or None"""
        if self._is_request(t, nid, depth):
            return 'F'
        if isinstance(t, ast.Compare) and len(t.ops) == 1 and \
                isinstance(t.comparators[0], ast.Constant) and \
                not t.comparators[0].value and \
                self._is_request(t.left, nid, depth):
            if isinstance(t.ops[0], (ast.Is, ast.Eq)):
                return 'T'
            if isinstance(t.ops[0], (ast.IsNot, ast.NotEq)):
                return 'F'
        return None

    def _guarded_falsy(self, nid, depth):
        for t, lab in guards(self.g, nid):
            if self._falsy_atom(self.g.nodes[t].ast, t, depth) == lab:
                return True
        return False

    def _truth(self, test, nid, depth):
        """'T' / 'F': value of the boolean test when the request is falsy"""
        neg = False
        while isinstance(test, ast.UnaryOp) and isinstance(test.op, ast.Not):
            neg, test = not neg, test.operand
        lab = self._falsy_atom(test, nid, depth)
        if lab is None:
            return None
        if neg:
            lab = 'F' if lab == 'T' else 'T'
        return lab

    def sources(self, e, nid, falsy=False, depth=0):
        if depth > 12:
            return [_KeySrc('opaque', e, falsy)]
        if isinstance(e, ast.Constant):
            return [_KeySrc('const', e, falsy)]
        if isinstance(e, ast.BoolOp) and isinstance(e.op, ast.Or):
            out, fz = [], falsy
            for v in e.values:
                out += self.sources(v, nid, fz, depth + 1)
                fz = fz or self._is_request(v, nid, depth)
            return out
        if isinstance(e, ast.IfExp):
            lab = self._truth(e.test, nid, depth)
            return self.sources(e.body, nid, falsy or lab == 'T', depth + 1) \
                + self.sources(e.orelse, nid, falsy or lab == 'F', depth + 1)
        if isinstance(e, ast.Name):
            out = []
            if self._param_reaches(e.id, nid):
                out.append(_KeySrc('param' if e.id == self.P else 'name', e,
                                   falsy))
            defs = self.rd.reaching(nid, e.id)
            if not defs and not out:
                return [_KeySrc('name', e, falsy)]
            for d in sorted(defs):
                n = self.g.nodes[d]
                a = n.ast
                if n.kind == 'stmt' and isinstance(a, ast.Assign) and \
                        len(a.targets) == 1 and \
                        isinstance(a.targets[0], ast.Name):
                    out += self.sources(
                        a.value, d, falsy or self._guarded_falsy(d, depth),
                        depth + 1)
                else:
                    v = a.iter if n.kind == 'for' else \
                        getattr(a, 'value', None) if n.kind == 'stmt' and \
                        isinstance(a, ast.Assign) else None
                    out.append(self._other(v, a, falsy))
            return out
        k = _cfg_field(e)
        if k is not None:
            return [_KeySrc('default' if k == 'default_schema' else 'field',
                            e, falsy)]
        return [self._other(e, e, falsy)]


def r17_7(prog, rep, ctx, rid='R17.7'):
    rep.rule(rid, "Session.get_resource_config: the key of the "
             "<cfg>['schemas'][<key>] read which is merged into the config "
             "is the schema the caller asked for; only a request without a "
             "schema falls back, and then to the entry's default_schema",
             minimum=1)
    mm = ctx.merge
    f = mm.func
    pos = [x.arg for x in f.node.args.posonlyargs + f.node.args.args]
    if len(pos) < 3:
        raise AnalysisError('UNRECOGNISED-IDIOM %s: callers pass (resource, '
                            'schema), the signature has no such parameter'
                            % f.where)
    P = pos[2]
    if not mm.lookups:
        raise AnalysisError("UNRECOGNISED-IDIOM %s: no <cfg>['schemas'][<key>]"
                            ' read found' % f.where)
    ko = _KeyOrigin(f, P)
    nd = ctx.nondefault
    ex = nd[0] if nd else ('<resource>', '<schema>', '<default>')
    for v in mm.lookups:
        n = ko.smap.get(id(v))
        if n is None:
            raise AnalysisError('UNRECOGNISED-IDIOM %s: `%s` is not part of a '
                                'simple statement' % (f.where, short(v)))
        src = ko.sources(v.slice, n.id)
        opaque = [x for x in src if x.kind == 'opaque']
        if opaque:
            raise AnalysisError('UNRECOGNISED-IDIOM %s: cannot tell where the '
                                'key of `%s` comes from (`%s`)'
                                % (f.where, short(v), short(opaque[0].node)))
        loc = f.loc(v)
        wrong = [x for x in src if x.kind in ('const', 'field', 'name') or
                 x.kind == 'default' and not x.falsy]
        asked = [x for x in src if x.kind == 'param' and not x.falsy]
        hard = [x for x in wrong if x.falsy]
        if wrong and not (hard and len(hard) == len(wrong) and asked):
            w = [x for x in wrong if not x.falsy][0] if asked else wrong[0]
            rep.bad(rid, f, 'schema-key',
                    '%s merges `%s`: the key is `%s`%s, not the schema the '
                    'caller asked for (parameter `%s`) - the existence check '
                    'and verify() still pass, but the endpoints and settings '
                    'merged are those of another schema; %d of the shipped '
                    'resource x schema pairs name a non-default schema'
                    % (f.qual, short(v), short(w.node),
                       ' also when a schema is requested' if asked else '',
                       P, len(nd)), loc,
                    history='PilotDescription(resource=%r, access_schema=%r): '
                    'get_resource_config(%r, %r) returns the job manager / '
                    'file system endpoints of schema %r'
                    % (ex[0], ex[1], ex[0], ex[1], ex[2]))
        elif not asked:
            rep.bad(rid, f, 'schema-key',
                    '%s merges `%s`: the requested schema (parameter `%s`) '
                    'never reaches the key' % (f.qual, short(v), P), loc,
                    history='PilotDescription(resource=%r, access_schema=%r) '
                    'is resolved like a request without access_schema'
                    % (ex[0], ex[1]))
        elif hard:
            rep.bad(rid, f, 'schema-default',
                    '%s: a request without schema merges `%s`, not the '
                    "entry's default_schema" % (f.qual, short(hard[0].node)),
                    loc,
                    history='PilotDescription(resource=R) without '
                    'access_schema on a platform whose default_schema is not '
                    '%s: endpoints of the wrong schema (or "schema unknown")'
                    % short(hard[0].node))
        else:
            rep.ok(rid, f, 'the key of `%s` is the requested schema `%s`%s'
                   % (short(v), P, ", or the entry's default_schema when none "
                      'is requested' if any(x.kind == 'default' for x in src)
                      else ''), loc)


# ------------------------------------------------------------------------------
#
# ------------------------------------------------------------------------------
# R17.8  the verification hooks `rcfg.verify()` runs (`_verify` of the config
#        class and of the typed dictionaries nested in it, an overriding
#        `verify`) are evaluated on every merged shipped config
#
_U = type('_Unk', (), {'__repr__': lambda s: '<?>'})()


class _Undecided(Exception):
    pass


class _Raised(Exception):
    def __init__(self, node, func, etype, msg):
        Exception.__init__(self, etype)
        self.node, self.func, self.etype, self.msg = node, func, etype, msg


class _Ret(Exception):
    def __init__(self, value):
        Exception.__init__(self)
        self.value = value


class _Brk(Exception):
    pass


class _Cnt(Exception):
    pass


class _CfgObj:
    """a typed dictionary while its hook runs: data, and the class (attribute
    reads of schema keys yield None when the key is absent)"""

    def __init__(self, data, td):
        self.data, self.td = data, td


_EXC_BASES = {'KeyError': ('LookupError',), 'IndexError': ('LookupError',),
              'ValueError': (), 'TypeError': (), 'RuntimeError': (),
              'AssertionError': (), 'AttributeError': (), 'LookupError': (),
              'ZeroDivisionError': ('ArithmeticError',),
              'NotImplementedError': ('RuntimeError',)}
_PY_FUNCS = {'len': len, 'str': str, 'int': int, 'float': float, 'bool': bool,
             'list': list, 'tuple': tuple, 'set': set, 'sorted': sorted,
             'dict': dict, 'min': min, 'max': max, 'sum': sum, 'abs': abs,
             'any': any, 'all': all, 'repr': repr, 'frozenset': frozenset,
             'round': round, 'enumerate': lambda *a: list(enumerate(*a)),
             'zip': lambda *a: list(zip(*a)), 'range': lambda *a: list(range(*a)),
             'reversed': lambda a: list(reversed(a))}
_PY_CLASSES = {'str': str, 'int': int, 'float': float, 'bool': bool,
               'dict': dict, 'list': list, 'tuple': tuple, 'set': set}
_PURE_METHODS = {
    str: frozenset(['startswith', 'endswith', 'lower', 'upper', 'strip',
                    'lstrip', 'rstrip', 'split', 'rsplit', 'join', 'format',
                    'replace', 'isdigit', 'count', 'find', 'title',
                    'partition', 'rpartition', 'isalpha', 'isupper',
                    'islower', 'splitlines', 'capitalize', 'index']),
    list: frozenset(['index', 'count', 'copy', 'append', 'extend', 'insert',
                     'remove', 'pop', 'sort', 'reverse']),
    tuple: frozenset(['index', 'count']),
    set: frozenset(['add', 'discard', 'remove', 'copy', 'union', 'issubset',
                    'intersection', 'difference', 'issuperset', 'update',
                    'isdisjoint']),
    frozenset: frozenset(['union', 'issubset', 'intersection', 'difference',
                          'issuperset', 'isdisjoint', 'copy']),
    dict: frozenset(['get', 'keys', 'values', 'items', 'setdefault', 'update',
                     'pop', 'copy']),
}
_JUMPS = (ast.Raise, ast.Return, ast.Break, ast.Continue, ast.Assert,
          ast.Call, ast.Subscript, ast.Try, ast.With)
_HARD_JUMPS = (ast.Raise, ast.Return, ast.Break, ast.Continue, ast.Assert,
               ast.Try, ast.With)
_BINOPS = {ast.Add: lambda a, b: a + b, ast.Sub: lambda a, b: a - b,
           ast.Mult: lambda a, b: a * b, ast.Div: lambda a, b: a / b,
           ast.FloorDiv: lambda a, b: a // b, ast.Mod: lambda a, b: a % b,
           ast.Pow: lambda a, b: a ** b, ast.BitOr: lambda a, b: a | b,
           ast.BitAnd: lambda a, b: a & b, ast.BitXor: lambda a, b: a ^ b}
_CMPOPS = {ast.Eq: lambda a, b: a == b, ast.NotEq: lambda a, b: a != b,
           ast.Lt: lambda a, b: a < b, ast.LtE: lambda a, b: a <= b,
           ast.Gt: lambda a, b: a > b, ast.GtE: lambda a, b: a >= b,
           ast.In: lambda a, b: a in b, ast.NotIn: lambda a, b: a not in b,
           ast.Is: lambda a, b: a is b, ast.IsNot: lambda a, b: a is not b}


def _has_unk(v, depth=0):
    if v is _U:
        return True
    if depth > 6:
        return False
    if isinstance(v, _CfgObj):
        return False
    if isinstance(v, dict):
        return any(_has_unk(k, depth + 1) or _has_unk(x, depth + 1)
                   for k, x in v.items())
    if isinstance(v, (list, tuple, set, frozenset)):
        return any(_has_unk(x, depth + 1) for x in v)
    return False


def _plain(v):
    return v.data if isinstance(v, _CfgObj) else v


class _HookEval:
    """concrete evaluation of a method of a typed dictionary class on one
    value of it.  Outcome of `run`: None (returns), or _Raised; whatever
    cannot be evaluated at a point where it decides the outcome raises
    _Undecided (-> UNRECOGNISED-IDIOM, never a verdict)."""

    MAX_STEPS = 50000
    MAX_DEPTH = 6

    def __init__(self, prog, cls, obj):
        self.prog, self.cls, self.obj = prog, cls, obj
        self.steps = 0

    def run(self, f):
        a = f.node.args
        if not a.args:
            raise _Undecided('%s takes no self' % f.where)
        try:
            self.body(f, f.node.body, {a.args[0].arg: self.obj}, 0)
        except _Ret:
            pass
        except (_Brk, _Cnt):
            raise _Undecided('loop jump outside a loop in %s' % f.where)
        return None

    # -- statements ------------------------------------------------------------
    def body(self, f, stmts, env, d):
        for s in stmts:
            self.stmt(f, s, env, d)

    def _tick(self, f):
        self.steps += 1
        if self.steps > self.MAX_STEPS:
            raise _Undecided('%s: evaluation does not terminate within %d '
                             'steps' % (f.where, self.MAX_STEPS))

    tolerant = False      # tail mode: calls / stores under an unknown test
                          # are havocked instead of giving up

    def _decisive(self, stmts):
        kinds = _HARD_JUMPS if self.tolerant else _JUMPS
        return any(isinstance(n, kinds) for s in stmts for n in walk(s))

    def _havoc(self, stmts, env, f=None):
        """forget what the statements may change (they run or do not run)"""
        def cfg_root(e):
            while isinstance(e, (ast.Subscript, ast.Attribute)):
                e = e.value
            return env.get(e.id) if isinstance(e, ast.Name) and \
                isinstance(env.get(e.id), _CfgObj) else None

        def key_of(t):
            if isinstance(t, ast.Attribute):
                return t.attr
            k = self.prog.fold(f.module, t.slice, f.cls) \
                if f is not None else UNKNOWN
            return k if isinstance(k, (str, int)) and k is not UNKNOWN \
                else None

        for s in stmts:
            for n in walk(s):
                for t in (n.targets if isinstance(n, ast.Assign) else
                          [n.target] if isinstance(n, (ast.AugAssign, ast.For,
                                                       ast.AnnAssign))
                          else []):
                    if isinstance(t, (ast.Subscript, ast.Attribute)):
                        o = cfg_root(t)
                        if o is None and self.tolerant and \
                                not isinstance(env.get(getattr(
                                    t.value, 'id', None)), (dict, list)):
                            continue          # some other object
                        k = key_of(t) if o is not None and cfg_root(
                            t.value) is None else None
                        if k is None:
                            raise _Undecided('store to %s under a test which '
                                             'cannot be evaluated' % short(t))
                        o.data[k] = _U
                        continue
                    for x in walk(t):
                        if isinstance(x, ast.Name):
                            env[x.id] = _U
                if isinstance(n, ast.Call):
                    if any(isinstance(a, ast.Name) and
                           isinstance(env.get(a.id), _CfgObj)
                           for a in list(n.args) +
                           [k.value for k in n.keywords]):
                        raise _Undecided('`%s` under a test which cannot be '
                                         'evaluated' % short(n))
                    o = cfg_root(n.func)
                    if o is None or not isinstance(n.func, ast.Attribute):
                        continue
                    if n.func.attr in ('get', 'keys', 'values', 'items',
                                       'verify', 'as_dict', 'copy'):
                        continue
                    d = self.prog.fold(f.module, n.args[0], f.cls) \
                        if f is not None and len(n.args) == 1 and \
                        not n.keywords else UNKNOWN
                    if n.func.attr == 'update' and isinstance(d, dict) and \
                            cfg_root(n.func.value) is o and \
                            isinstance(n.func.value, ast.Name):
                        for k in d:
                            o.data[k] = _U
                        continue
                    raise _Undecided('`%s` under a test which cannot be '
                                     'evaluated' % short(n))

    def stmt(self, f, s, env, d):
        self._tick(f)
        if isinstance(s, ast.Expr):
            self.ev(f, s.value, env, d)
        elif isinstance(s, ast.Assign):
            v = self.ev(f, s.value, env, d)
            for t in s.targets:
                self.assign(f, t, v, env, d)
        elif isinstance(s, ast.AnnAssign):
            if s.value is not None:
                self.assign(f, s.target, self.ev(f, s.value, env, d), env, d)
        elif isinstance(s, ast.AugAssign):
            load = ast.copy_location(ast.fix_missing_locations(
                ast.parse(unparse(s.target), mode='eval').body), s.target)
            cur = self.ev(f, load, env, d)
            v = self.ev(f, s.value, env, d)
            self.assign(f, s.target, self.binop(f, s, type(s.op), cur, v),
                        env, d)
        elif isinstance(s, ast.If):
            t = self.tri(f, s.test, env, d)
            if t is None:
                if self._decisive(s.body) or self._decisive(s.orelse):
                    raise _Undecided('%s: the test `%s` cannot be evaluated '
                                     'on a shipped config and guards a raise '
                                     '/ return / call' % (f.where,
                                                          short(s.test)))
                self._havoc(s.body + s.orelse, env, f)
            else:
                self.body(f, s.body if t else s.orelse, env, d)
        elif isinstance(s, ast.For):
            it = _plain(self.ev(f, s.iter, env, d))
            if it is _U or _has_unk(it):
                if self._decisive(s.body) or self._decisive(s.orelse):
                    raise _Undecided('%s: what `%s` iterates over cannot be '
                                     'evaluated' % (f.where, short(s.iter)))
                self._havoc([s], env, f)
                return
            try:
                items = list(it)
            except TypeError:
                raise _Raised(s, f, 'TypeError', 'not iterable: %r' % (it,))
            broke = False
            for x in items:
                self._tick(f)
                self.assign(f, s.target, x, env, d)
                try:
                    self.body(f, s.body, env, d)
                except _Brk:
                    broke = True
                    break
                except _Cnt:
                    continue
            if not broke:
                self.body(f, s.orelse, env, d)
        elif isinstance(s, ast.While):
            while True:
                self._tick(f)
                t = self.tri(f, s.test, env, d)
                if t is None:
                    raise _Undecided('%s: loop test `%s` cannot be evaluated'
                                     % (f.where, short(s.test)))
                if not t:
                    self.body(f, s.orelse, env, d)
                    break
                try:
                    self.body(f, s.body, env, d)
                except _Brk:
                    break
                except _Cnt:
                    continue
        elif isinstance(s, ast.Raise):
            if s.exc is None:
                raise _Undecided('%s: bare re-raise' % f.where)
            e = s.exc
            etype = dotted(e.func if isinstance(e, ast.Call) else e)
            etype = etype.split('.')[-1] if etype else '<exception>'
            msg = ''
            if isinstance(e, ast.Call) and e.args:
                try:
                    v = self.ev(f, e.args[0], env, d)
                    msg = '<message>' if _has_unk(v) else str(v)
                except (_Raised, _Undecided):
                    msg = '<message>'
            raise _Raised(s, f, etype, msg)
        elif isinstance(s, ast.Assert):
            t = self.tri(f, s.test, env, d)
            if t is None:
                raise _Undecided('%s: `assert %s` cannot be evaluated'
                                 % (f.where, short(s.test)))
            if not t:
                raise _Raised(s, f, 'AssertionError', short(s.test))
        elif isinstance(s, ast.Return):
            raise _Ret(self.ev(f, s.value, env, d)
                       if s.value is not None else None)
        elif isinstance(s, ast.Break):
            raise _Brk()
        elif isinstance(s, ast.Continue):
            raise _Cnt()
        elif isinstance(s, (ast.Pass, ast.Import, ast.ImportFrom, ast.Global,
                            ast.Nonlocal, ast.FunctionDef)):
            pass
        elif isinstance(s, ast.Try):
            self.try_(f, s, env, d)
        elif isinstance(s, ast.Delete):
            for t in s.targets:
                if isinstance(t, ast.Name):
                    env.pop(t.id, None)
                    continue
                base = self.ev(f, t.value, env, d) \
                    if isinstance(t, ast.Subscript) else _U
                key = self.ev(f, t.slice, env, d) \
                    if isinstance(t, ast.Subscript) else _U
                if isinstance(_plain(base), dict) and key is not _U and \
                        not _has_unk(key):
                    if key not in _plain(base):
                        raise _Raised(s, f, 'KeyError', repr(key))
                    del _plain(base)[key]
                else:
                    raise _Undecided('%s: `%s`' % (f.where, short(s)))
        else:
            raise _Undecided('%s: statement `%s` is not evaluated'
                             % (f.where, short(s)))

    def try_(self, f, s, env, d):
        try:
            try:
                self.body(f, s.body, env, d)
            except _Raised as r:
                chain = {r.etype, 'Exception', 'BaseException'}
                known = r.etype in _EXC_BASES
                todo = list(_EXC_BASES.get(r.etype, ()))
                while todo:
                    b = todo.pop()
                    chain.add(b)
                    todo += _EXC_BASES.get(b, ())
                for h in s.handlers:
                    names = [None] if h.type is None else \
                        [dotted(x).split('.')[-1] for x in
                         (h.type.elts if isinstance(h.type, ast.Tuple)
                          else [h.type])]
                    if None in names or any(n in chain for n in names):
                        if h.name:
                            env[h.name] = _U
                        self.body(f, h.body, env, d)
                        break
                    if not known:
                        raise _Undecided('%s: whether `except %s` catches %s '
                                         'is not known' % (f.where,
                                                           short(h.type),
                                                           r.etype))
                else:
                    raise
            else:
                self.body(f, s.orelse, env, d)
        finally:
            # a finally block which itself raises replaces the outcome
            self.body(f, s.finalbody, env, d)

    def assign(self, f, t, v, env, d):
        if isinstance(t, ast.Name):
            env[t.id] = v
        elif isinstance(t, (ast.Tuple, ast.List)):
            if v is _U:
                for x in t.elts:
                    self.assign(f, x, _U, env, d)
                return
            try:
                vals = list(_plain(v))
            except TypeError:
                raise _Raised(t, f, 'TypeError', 'cannot unpack %r' % (v,))
            if any(isinstance(x, ast.Starred) for x in t.elts):
                raise _Undecided('%s: starred target' % f.where)
            if len(vals) != len(t.elts):
                raise _Raised(t, f, 'ValueError', 'cannot unpack %r' % (v,))
            for x, y in zip(t.elts, vals):
                self.assign(f, x, y, env, d)
        elif isinstance(t, ast.Subscript):
            base = _plain(self.ev(f, t.value, env, d))
            key  = self.ev(f, t.slice, env, d)
            if isinstance(base, (dict, list)) and not _has_unk(key):
                try:
                    base[key] = v
                except (IndexError, TypeError) as e:
                    raise _Raised(t, f, type(e).__name__, str(e))
            elif base is not _U:
                raise _Undecided('%s: store `%s`' % (f.where, short(t)))
        elif isinstance(t, ast.Attribute):
            base = self.ev(f, t.value, env, d)
            if isinstance(base, _CfgObj):
                base.data[t.attr] = v
            elif isinstance(base, dict):
                base[t.attr] = v
            elif base is not _U:
                raise _Undecided('%s: store `%s`' % (f.where, short(t)))
        else:
            raise _Undecided('%s: target `%s`' % (f.where, short(t)))

    # -- expressions -----------------------------------------------------------
    @staticmethod
    def truth(v):
        if v is _U:
            return None
        if isinstance(v, _CfgObj):
            return bool(v.data)
        if isinstance(v, (dict, list, tuple, set, frozenset)) and not v:
            return False
        if isinstance(v, (list, tuple, set, frozenset, dict)):
            return True
        try:
            return bool(v)
        except Exception:                                   # noqa
            return None

    def tri(self, f, e, env, d):
        if isinstance(e, ast.BoolOp):
            stop = isinstance(e.op, ast.Or)
            unk = False
            for x in e.values:
                try:
                    t = self.tri(f, x, env, d)
                except _Raised:
                    if not unk:
                        raise
                    t = None
                if t is None:
                    unk = True
                elif t is stop:
                    return stop
            return None if unk else (not stop)
        if isinstance(e, ast.UnaryOp) and isinstance(e.op, ast.Not):
            t = self.tri(f, e.operand, env, d)
            return None if t is None else (not t)
        return self.truth(self.ev(f, e, env, d))

    def binop(self, f, node, op, a, b):
        if a is _U or b is _U or _has_unk(a) or _has_unk(b) or \
                op not in _BINOPS:
            return _U
        try:
            return _BINOPS[op](_plain(a), _plain(b))
        except (TypeError, ValueError, ZeroDivisionError, KeyError) as e:
            raise _Raised(node, f, type(e).__name__, str(e))
        except Exception:                                   # noqa
            return _U

    def getattr_(self, f, node, base, attr):
        if isinstance(base, _CfgObj):
            for k in self.prog.mro(base.td.cls):
                if attr in k.consts:
                    v = self.prog.fold(k.module, k.consts[attr], k)
                    return _U if v is UNKNOWN else v
            if attr in base.td.schema:
                return base.data.get(attr)
            if attr in base.data:
                return base.data[attr]
            return _U
        if isinstance(base, dict):
            return base.get(attr, _U) if isinstance(attr, str) else _U
        return _U

    def ev(self, f, e, env, d):                             # noqa: C901
        self._tick(f)
        if isinstance(e, ast.Constant):
            return e.value
        if isinstance(e, ast.Name):
            if e.id in env:
                return env[e.id]
            v = self.prog.fold(f.module, e, f.cls)
            return _U if v is UNKNOWN else v
        if isinstance(e, ast.Attribute):
            if not (isinstance(e.value, ast.Name) and e.value.id in env):
                v = self.prog.fold(f.module, e, f.cls)
                if v is not UNKNOWN:
                    return v
            return self.getattr_(f, e, self.ev(f, e.value, env, d), e.attr)
        if isinstance(e, ast.Subscript):
            base = self.ev(f, e.value, env, d)
            if isinstance(e.slice, ast.Slice):
                lo, hi, st = [None if x is None else self.ev(f, x, env, d)
                              for x in (e.slice.lower, e.slice.upper,
                                        e.slice.step)]
                if base is _U or _has_unk([lo, hi, st]) or \
                        not isinstance(base, (list, tuple, str)):
                    return _U
                try:
                    return base[lo:hi:st]
                except (TypeError, ValueError) as x:
                    raise _Raised(e, f, type(x).__name__, str(x))
            key = self.ev(f, e.slice, env, d)
            if base is _U or _has_unk(key):
                return _U
            try:
                return _plain(base)[key]
            except (KeyError, IndexError, TypeError) as x:
                raise _Raised(e, f, type(x).__name__, '%s: %s'
                              % (short(e), x))
        if isinstance(e, ast.BoolOp):
            stop = isinstance(e.op, ast.Or)
            v = None
            for x in e.values:
                v = self.ev(f, x, env, d)
                t = self.truth(v)
                if t is None:
                    return _U
                if t is stop:
                    return v
            return v
        if isinstance(e, ast.UnaryOp):
            if isinstance(e.op, ast.Not):
                t = self.tri(f, e.operand, env, d)
                return _U if t is None else (not t)
            v = self.ev(f, e.operand, env, d)
            if v is _U or not isinstance(v, (int, float)):
                return _U
            return -v if isinstance(e.op, ast.USub) else \
                +v if isinstance(e.op, ast.UAdd) else ~v
        if isinstance(e, ast.BinOp):
            return self.binop(f, e, type(e.op), self.ev(f, e.left, env, d),
                              self.ev(f, e.right, env, d))
        if isinstance(e, ast.Compare):
            left = self.ev(f, e.left, env, d)
            for op, c in zip(e.ops, e.comparators):
                right = self.ev(f, c, env, d)
                if left is _U or right is _U or type(op) not in _CMPOPS:
                    return _U
                if isinstance(op, (ast.In, ast.NotIn)):
                    if _has_unk(left) or _has_unk(right):
                        return _U
                elif not isinstance(op, (ast.Is, ast.IsNot)) and (
                        _has_unk(left) or _has_unk(right)):
                    return _U
                try:
                    r = _CMPOPS[type(op)](_plain(left), _plain(right))
                except TypeError as x:
                    raise _Raised(e, f, 'TypeError', '%s: %s' % (short(e), x))
                if not r:
                    return False
                left = right
            return True
        if isinstance(e, ast.IfExp):
            t = self.tri(f, e.test, env, d)
            if t is None:
                return _U
            return self.ev(f, e.body if t else e.orelse, env, d)
        if isinstance(e, (ast.List, ast.Tuple, ast.Set)):
            if any(isinstance(x, ast.Starred) for x in e.elts):
                return _U
            vals = [self.ev(f, x, env, d) for x in e.elts]
            if isinstance(e, ast.List):
                return vals
            if isinstance(e, ast.Tuple):
                return tuple(vals)
            try:
                return _U if _has_unk(vals) else set(vals)
            except TypeError:
                return _U
        if isinstance(e, ast.Dict):
            out = {}
            for k, v in zip(e.keys, e.values):
                if k is None:
                    return _U
                kk = self.ev(f, k, env, d)
                if _has_unk(kk):
                    return _U
                try:
                    out[kk] = self.ev(f, v, env, d)
                except TypeError:
                    return _U
            return out
        if isinstance(e, (ast.ListComp, ast.SetComp, ast.GeneratorExp,
                          ast.DictComp)):
            return self.comp(f, e, env, d)
        if isinstance(e, ast.JoinedStr):
            out = ''
            for p in e.values:
                if isinstance(p, ast.Constant):
                    out += str(p.value)
                    continue
                v = self.ev(f, p.value, env, d)
                if _has_unk(v) or p.format_spec is not None or \
                        isinstance(v, _CfgObj):
                    return _U
                out += repr(v) if p.conversion == 114 else str(v)
            return out
        if isinstance(e, ast.NamedExpr):
            v = self.ev(f, e.value, env, d)
            self.assign(f, e.target, v, env, d)
            return v
        if isinstance(e, ast.Call):
            return self.call(f, e, env, d)
        return _U

    def comp(self, f, e, env, d):
        out = []
        unk = []

        def rec(i, env2):
            if i == len(e.generators):
                if isinstance(e, ast.DictComp):
                    out.append((self.ev(f, e.key, env2, d),
                                self.ev(f, e.value, env2, d)))
                else:
                    out.append(self.ev(f, e.elt, env2, d))
                return
            g = e.generators[i]
            it = _plain(self.ev(f, g.iter, env2, d))
            if it is _U or _has_unk(it) or g.is_async:
                unk.append(1)
                return
            try:
                items = list(it)
            except TypeError:
                raise _Raised(e, f, 'TypeError', 'not iterable: %r' % (it,))
            for x in items:
                self._tick(f)
                self.assign(f, g.target, x, env2, d)
                ok = True
                for c in g.ifs:
                    t = self.tri(f, c, env2, d)
                    if t is None:
                        unk.append(1)
                        return
                    if not t:
                        ok = False
                        break
                if ok:
                    rec(i + 1, env2)
        rec(0, dict(env))
        if unk:
            return _U
        try:
            if isinstance(e, ast.DictComp):
                return _U if _has_unk([k for k, _ in out]) else dict(out)
            if isinstance(e, ast.SetComp):
                return _U if _has_unk(out) else set(out)
        except TypeError:
            return _U
        return out

    # -- calls -----------------------------------------------------------------
    def args_of(self, f, c, env, d):
        if any(isinstance(a, ast.Starred) for a in c.args) or \
                any(k.arg is None for k in c.keywords):
            return None, None
        return ([self.ev(f, a, env, d) for a in c.args],
                {k.arg: self.ev(f, k.value, env, d) for k in c.keywords})

    def invoke(self, f, c, g, recv, args, kw, env, d):
        """interpret package function g"""
        if d >= self.MAX_DEPTH:
            raise _Undecided('%s: call depth' % f.where)
        a = g.node.args
        deco = [dotted(x) for x in g.node.decorator_list]
        params = [x.arg for x in a.posonlyargs + a.args]
        vals = list(args)
        if g.cls is not None and g.parent is None and \
                'staticmethod' not in deco:
            vals = [_U if 'classmethod' in deco else recv] + vals
        if any(x not in ('staticmethod', 'classmethod') for x in deco):
            raise _Undecided('%s: decorated callee %s' % (f.where, g.where))
        new = dict(env) if g.parent is not None else {}
        if len(vals) > len(params):
            if not a.vararg:
                raise _Raised(c, f, 'TypeError', 'too many arguments for %s'
                              % g.qual)
            new[a.vararg.arg] = tuple(vals[len(params):])
            vals = vals[:len(params)]
        elif a.vararg:
            new[a.vararg.arg] = ()
        for p, v in zip(params, vals):
            new[p] = v
        dflt = dict(zip(params[len(params) - len(a.defaults):], a.defaults))
        for x, dv in zip(a.kwonlyargs, a.kw_defaults):
            params.append(x.arg)
            if dv is not None:
                dflt[x.arg] = dv
        extra = {}
        for k, v in kw.items():
            if k in params:
                new[k] = v
            elif a.kwarg:
                extra[k] = v
            else:
                raise _Raised(c, f, 'TypeError', 'unexpected keyword %s' % k)
        if a.kwarg:
            new[a.kwarg.arg] = extra
        for p in params:
            if p not in new:
                if p not in dflt:
                    raise _Raised(c, f, 'TypeError', 'missing argument %s of '
                                  '%s' % (p, g.qual))
                new[p] = self.ev(g, dflt[p], {}, d + 1)
        try:
            self.body(g, g.node.body, new, d + 1)
        except _Ret as r:
            return r.value
        return None

    def call(self, f, c, env, d):                           # noqa: C901
        fn = c.func
        args, kw = self.args_of(f, c, env, d)
        escapes = args is None or any(
            isinstance(v, _CfgObj) for v in list(args) + list(kw.values()))

        def unknown(recv=None):
            if self.tolerant:
                return _U
            if escapes or isinstance(recv, _CfgObj):
                raise _Undecided('%s: the config is handed to `%s`, which is '
                                 'not evaluated' % (f.where, short(fn)))
            return _U

        if args is None:
            return unknown()
        if isinstance(fn, ast.Name) and fn.id not in env:
            g = self.prog.resolve_callable(f, fn, self.cls)
            r = self.prog.lookup(f.module, fn.id)
            if g is not None and not (r and r[0] == 'class'):
                return self.invoke(f, c, g, None, args, kw, env, d)
            if r and r[0] == 'class':
                return unknown()
            if fn.id == 'isinstance' and len(args) == 2 and not kw:
                t = c.args[1]
                ts = t.elts if isinstance(t, ast.Tuple) else [t]
                if all(isinstance(x, ast.Name) and x.id in _PY_CLASSES
                       for x in ts) and args[0] is not _U and \
                        not isinstance(args[0], _CfgObj):
                    return isinstance(args[0],
                                      tuple(_PY_CLASSES[x.id] for x in ts))
                return _U
            if fn.id == 'getattr' and len(args) in (2, 3) and \
                    isinstance(args[1], str):
                v = self.getattr_(f, c, args[0], args[1])
                return v
            if fn.id == 'print':
                return None
            if fn.id in _PY_FUNCS:
                if _has_unk(args) or _has_unk(kw) or 'key' in kw:
                    return _U
                try:
                    return _PY_FUNCS[fn.id](*[_plain(a) for a in args], **kw)
                except (TypeError, ValueError) as x:
                    raise _Raised(c, f, type(x).__name__, '%s: %s'
                                  % (short(c), x))
            return unknown()
        if isinstance(fn, ast.Attribute):
            # super().m(...)
            if isinstance(fn.value, ast.Call) and \
                    isinstance(fn.value.func, ast.Name) and \
                    fn.value.func.id == 'super':
                g = _find_method(self.prog, self.cls, fn.attr,
                                 after=f.cls) if f.cls is not None else None
                me = env.get(f.node.args.args[0].arg) \
                    if f.node.args.args else None
                if g is None:
                    # the implementation of radical.utils: `_verify` is a
                    # no-op, `verify` is the typed check (mirrored elsewhere)
                    # followed by the hook
                    if fn.attr in ('_verify', '__init__'):
                        return None
                    if fn.attr == 'verify' and isinstance(me, _CfgObj):
                        self.super_verify.append(c)
                        return me
                    return unknown(me)
                return self.invoke(f, c, g, me, args, kw, env, d)
            recv = self.ev(f, fn.value, env, d)
            if isinstance(recv, _CfgObj):
                if self.tolerant and fn.attr == 'verify':
                    return recv          # typed check and hooks: R17.1 / above
                g = _find_method(self.prog, recv.td.cls, fn.attr)
                if g is not None:
                    return self.invoke(f, c, g, recv, args, kw, env, d)
                if fn.attr in _PURE_METHODS[dict]:
                    return self.pure(f, c, recv.data, fn.attr, args, kw)
                if fn.attr == 'as_dict' and not args and not kw:
                    return json_copy(recv.data)
                return unknown(recv)
            if recv is _U:
                g = self.prog.resolve_callable(f, fn, self.cls)
                own = isinstance(fn.value, ast.Name) and \
                    f.cls is not None and bool(f.node.args.args) and \
                    fn.value.id == f.node.args.args[0].arg
                if g is not None and (own or not (
                        isinstance(fn.value, ast.Name) and
                        fn.value.id in env)):
                    return self.invoke(f, c, g, _U if own else None, args,
                                       kw, env, d)
                return unknown()
            for t, names in _PURE_METHODS.items():
                if type(recv) is t and fn.attr in names:
                    return self.pure(f, c, recv, fn.attr, args, kw)
            return unknown()
        return unknown()

    super_verify = ()

    def pure(self, f, c, recv, name, args, kw):
        if _has_unk(args) or _has_unk(kw):
            if name in ('get', 'setdefault', 'pop', 'append', 'add', 'update',
                        'extend', 'insert') and not _has_unk(args[:1]) and \
                    not kw and name not in ('update', 'extend'):
                pass
            else:
                return _U
        try:
            r = getattr(recv, name)(*[_plain(a) for a in args], **kw)
        except (TypeError, ValueError, KeyError, IndexError) as x:
            raise _Raised(c, f, type(x).__name__, '%s: %s' % (short(c), x))
        if name in ('keys', 'values', 'items'):
            return list(r)
        return r


_src_cache = {}


def _source_methods(c):
    """methods of class c which its source text defines but the program model
    of this view lacks: the normalised views drop a new method nothing in the
    package refers to - an override radical.utils calls (`_verify`) is such a
    method, and it runs all the same"""
    key = id(c.module)
    if key not in _src_cache:
        try:
            tree = ast.parse(c.module.src)
        except (SyntaxError, ValueError, TypeError):
            tree = None
        _src_cache[key] = (c.module, tree, {})
    _, tree, memo = _src_cache[key]
    if c.name not in memo:
        out = {}
        for s in (tree.body if tree is not None else []):
            if isinstance(s, ast.ClassDef) and s.name == c.name:
                for x in s.body:
                    if isinstance(x, (ast.FunctionDef, ast.AsyncFunctionDef)) \
                            and x.name not in c.methods:
                        out[x.name] = _FuncInfo(
                            x.name, c.name + '.' + x.name, c.module, c, x)
        memo[c.name] = out
    return memo[c.name]


def _find_method(prog, c, name, after=None):
    mro = prog.mro(c)
    if after is not None and after in mro:
        mro = mro[mro.index(after) + 1:]
    for k in mro:
        if name in k.methods:
            return k.methods[name]
        m = _source_methods(k)
        if name in m:
            return m[name]
    return None


def verify_hooks(prog, td):
    """[(kind, FuncInfo)] the package's own code `td.cls().verify()` runs:
    an overriding `verify` (which has to reach the implementation of
    radical.utils through super()) and the `_verify` hook"""
    key = (id(prog), td.cls.module.rel, td.cls.name)
    hit = _hook_cache.get(key)
    if hit is not None:
        return hit[1]
    out = []
    v = _find_method(prog, td.cls, 'verify')
    if v is not None:
        sup = [c for c in calls_in(v.node)
               if isinstance(c.func, ast.Attribute) and c.func.attr == 'verify'
               and isinstance(c.func.value, ast.Call)
               and call_name(c.func.value) == 'super']
        if len(sup) != 1 or _find_method(prog, td.cls, 'verify', after=v.cls):
            raise AnalysisError('UNRECOGNISED-IDIOM %s overrides verify() '
                                'without exactly one super().verify() which '
                                'reaches radical.utils' % v.where)
        out.append(('verify', v))
    h = _find_method(prog, td.cls, '_verify')
    if h is not None:
        out.append(('_verify', h))
    _hook_cache[key] = (prog, out)
    return out


_hook_cache = {}


def nested_tds(prog, td, data, path=''):
    """[(path, TD, value)] the typed dictionaries verify() descends into (the
    value is what the nested class is instantiated with: defaults + data)"""
    out = []
    for k, v in data.items():
        t = td.schema.get(k)
        if v is None or t is None:
            continue
        if isinstance(t, tuple) and t[0] == 'td' and isinstance(v, dict):
            sub = TD.of(prog, t[1])
            val = td_init(prog, sub, v)
            out.append((path + str(k), sub, val))
            out += nested_tds(prog, sub, val, path + str(k) + '.')
        elif isinstance(t, tuple) and t[0] == 'dict' and isinstance(v, dict) \
                and isinstance(t[2], tuple) and t[2][0] == 'td':
            sub = TD.of(prog, t[2][1])
            for kk, vv in v.items():
                if isinstance(vv, dict):
                    val = td_init(prog, sub, vv)
                    p = '%s.%s' % (path + str(k), kk)
                    out.append((p, sub, val))
                    out += nested_tds(prog, sub, val, p + '.')
        elif isinstance(t, tuple) and t[0] == 'list' and isinstance(v, list) \
                and isinstance(t[1], tuple) and t[1][0] == 'td':
            sub = TD.of(prog, t[1][1])
            for i, vv in enumerate(v):
                if isinstance(vv, dict):
                    val = td_init(prog, sub, vv)
                    p = '%s[%d]' % (path + str(k), i)
                    out.append((p, sub, val))
                    out += nested_tds(prog, sub, val, p + '.')
    return out


def run_hooks(prog, ctx, m):
    """evaluate every hook verify() runs for the merged config m:
    (n hooks evaluated, None | (path, kind, FuncInfo, _Raised))"""
    n = 0
    todo = [('', ctx.td, m)]
    if any(verify_hooks(prog, TD.of(prog, c)) for c in ctx.nested_classes):
        # children are verified (and their hooks run) before the parent's hook
        todo = nested_tds(prog, ctx.td, m) + todo
    for path, td, val in todo:
        for kind, h in verify_hooks(prog, td):
            n += 1
            ev = _HookEval(prog, td.cls, _CfgObj(json_copy(val), td))
            ev.super_verify = []
            try:
                ev.run(h)
            except _Raised as r:
                return n, (path, kind, h, r)
            except _Undecided as u:
                raise AnalysisError('UNRECOGNISED-IDIOM R17.8: %s of %s '
                                    'cannot be evaluated on a shipped '
                                    'config: %s' % (kind, td.cls.where, u))
            except RecursionError:
                raise AnalysisError('UNRECOGNISED-IDIOM R17.8: %s recursion'
                                    % h.where)
    return n, None


def _nested_classes(prog, td, seen=None):
    seen = seen if seen is not None else []

    def of(t):
        if isinstance(t, tuple) and t[0] == 'td':
            if t[1] not in seen:
                seen.append(t[1])
                _nested_classes(prog, TD.of(prog, t[1]), seen)
        elif isinstance(t, tuple):
            for x in t[1:]:
                of(x)
    for t in td.schema.values():
        of(t)
    return seen


def check_hooks(prog, rep, ctx, where, res, schema, m, loc, rid='R17.8'):
    if not ctx.merge.verify:
        return
    n, hit = run_hooks(prog, ctx, m)
    what = '%s x %s: ' % (res, schema)
    if hit is None:
        rep.ok(rid, where, what + ('passes the %d verification hook(s) '
                                   'verify() runs' % n if n else 'verify() '
               'runs no hook of the package (typed check only)'), loc)
        return
    path, kind, h, r = hit
    rep.bad(rid, where, 'hook:%s:%s:%s' % (schema, h.qual, path),
            '%s: %s (run by rcfg.verify() in Session.get_resource_config and '
            'in _prepare_pilot%s) raises %s(%r) at `%s` for the config this '
            'shipped platform resolves to under schema %r: the platform '
            'cannot be used although its resource manager, launch methods, '
            'scheduler and executor all exist'
            % (res, h.where, ' for the nested value %s' % path if path else
               '', r.etype, r.msg, short(r.node), schema),
            r.func.loc(r.node),
            history='PilotDescription(resource=%r, access_schema=%r): '
            'Session.get_resource_config raises %s(%r), no pilot can be '
            'submitted to this platform' % (res, schema, r.etype, r.msg))


def merge_tail(ctx):
    """the statements of get_resource_config which follow the merge (None if
    the merge is not a statement of the function's top level)"""
    f = ctx.merge.func
    for i, s in enumerate(f.node.body):
        if any(isinstance(c, ast.Call) and call_name(c).endswith('dict_merge')
               for c in walk(s)):
            return f.node.body[i + 1:] if isinstance(s, (ast.Expr,
                                                         ast.Assign)) else None
    return None


def check_tail(prog, rep, ctx, where, res, schema, m, loc, rid='R17.8'):
    """what get_resource_config does to the merged config after the merge,
    evaluated on it: an explicit raise / assert which is reached for a shipped
    config.  Whatever depends on anything but the merged config (the session,
    the resource manager class) is not evaluated; if that decides the
    outcome, nothing is concluded."""
    tail = ctx.tail
    if not tail:
        return
    f = ctx.merge.func
    ev = _HookEval(prog, f.cls, None)
    ev.tolerant = True
    # every local of the function is unknown unless bound below (a local must
    # never be taken for a module-level constant of the same name)
    env = {x.id: _U for x in walk(f.node)
           if isinstance(x, ast.Name) and isinstance(x.ctx, ast.Store)}
    env.update({p: _U for p in f.params})
    env[ctx.merge.rvar] = _CfgObj(json_copy(m), ctx.td)
    a = f.node.args.args
    if len(a) >= 2:
        env[a[1].arg] = res
    if len(a) >= 3:
        env[a[2].arg] = schema
    try:
        ev.body(f, tail, env, 0)
    except _Ret:
        pass
    except (_Undecided, _Brk, _Cnt, RecursionError):
        return
    except _Raised as r:
        if not isinstance(r.node, (ast.Raise, ast.Assert)):
            return
        rep.bad(rid, where, 'tail:%s:%s' % (schema, r.func.qual),
                '%s: after merging schema %r %s raises %s(%r) at `%s` for '
                'the config this shipped platform resolves to: the platform '
                'cannot be used although its resource manager, launch '
                'methods, scheduler and executor all exist'
                % (res, schema, f.where, r.etype, r.msg, short(r.node)),
                r.func.loc(r.node),
                history='PilotDescription(resource=%r, access_schema=%r): '
                'Session.get_resource_config raises %s(%r), no pilot can be '
                'submitted to this platform' % (res, schema, r.etype, r.msg))
        return
    rep.ok(rid, where, '%s x %s: nothing get_resource_config does after the '
           'merge raises for the merged config' % (res, schema), loc)


def run(prog, rep, tier):
    rep.decided = ('every entry of every shipped resource_*.json, under each '
        'of its schemas and after the merge + typed verification that '
        'Session.get_resource_config performs (both mirrored from the AST; '
        'the schema it merges is the one requested, a request without '
        "schema falls back to the entry's default_schema), "
        'names a resource manager, launch methods, launch order, agent '
        'scheduler (after the JSRUN switch), executor and agent config that '
        'exist (factory tables extracted from the dict literals and local '
        'imports; every row is an existing class of the right family); '
        'configs parse the way ru.read_json parses; component kinds and tmgr '
        'scheduler of the agent/tmgr/pmgr/session configs are known and the '
        'bridges their components register are declared; in _prepare_pilot '
        'the job and the agent are fed the same node/core/GPU values, nodes '
        'are ceil(max(cores/avail, gpus/avail)) with divisors depending on '
        'SMT and blocked lists; the agent reads the keys written; the divisors '
        'equal, as polynomials over the configured quantities, the usable '
        'cores/gpus per node the agent derives from what it is handed (an '
        'adjustment inside a loop is applied once per iteration); '
        'get_resource_config, its callers and what they pass the config to '
        '(_start_pilot_bulk, _prepare_pilot, their resolved callees) write '
        'only to objects created in the call - never to a stored entry, to a '
        'container the per-call config shares with it or with the class-level '
        'defaults, or to the config one bulk shares among its pilots - so '
        'that resolution and sizing do not depend on earlier calls; the '
        'verification hooks of the package which rcfg.verify() runs '
        '(ResourceConfig._verify / an overriding verify, hooks of nested '
        'typed dictionaries) and the statements of get_resource_config after '
        'the merge raise for no shipped resource x schema config (evaluated '
        'concretely on the merged config).')
    rep.undecided = ('minimality of the node count for all numeric inputs '
        '(arithmetic is not evaluated); what the batch system makes of the '
        'job description; user-supplied resource configs in ~/.radical; what '
        'the pilot launchers (`launcher.launch_pilots(rcfg, ..)`, receiver '
        'not resolvable) do to the config they are handed; raises after '
        'the merge whose condition depends on anything but the merged config '
        '(the session, the resource manager class, the pilot description - '
        'e.g. a demand _prepare_pilot makes of a config for one pilot size).')
    rep.assumptions = [
        'radical.utils semantics as of the installed version: read_json strips '
        'whole-line # comments only; dict_merge(a, b, OVERWRITE) merges '
        'recursively; TypedDict.verify() casts str/int/float/bool and rejects '
        'unknown keys, non-dict values for TypedDict/dict typed keys',
        'ru.Config(category="agent", name=X) loads configs/agent_X.json and '
        'silently yields an empty config when the file is missing',
        'components see the bridges of the config of the session they run '
        'in (agent: the agent config; client: manager config + session '
        'config)',
        'no monkey patching of the factory methods; tables are the dict '
        'literals inside them',
        'R17.6: a TypedDict constructor copies the top-level keys of its '
        'argument and of the class-level _defaults without copying the '
        'values (TypedDict.update, FastTypedDict._deep = False); verify() '
        're-creates list / dict typed values and is idempotent; '
        'copy.deepcopy and ru.Config(from_dict= / cfg=) yield private trees; '
        'functions outside the package do not mutate their arguments except '
        'the list / dict / set mutators and ru.dict_merge (first operand, '
        'recursively for dict values present on both sides)',
        'R17.6: a store into a stored entry is history independent only if '
        'the value is a pure function of the parameters whose split() parts '
        '(all of them) or which themselves index the entry - split is '
        'inverted by joining, so one entry always receives one value - and '
        'the entry is not read before the store',
        'R17.6: a memo (a store `M[k] = v` into session state which holds no '
        'configuration) is history independent if k names every parameter '
        'of the call, v is a private deep copy and M is read only through '
        'deep copies; creating an empty slot under a constant key of such '
        'state (setdefault) is the same for every call',
        'R17.8: verify() of radical.utils runs the typed check, verifies '
        'nested typed dictionaries (their hooks first) and then calls the '
        '`_verify` hook; hooks are evaluated concretely, a hook whose outcome '
        'depends on something that cannot be evaluated is an analysis error',
    ]
    ctx = build_ctx(prog, rep)
    r17_1(prog, rep, ctx)
    r17_2(prog, rep, ctx)
    r17_3(prog, rep)
    r17_4(prog, rep)
    r17_5(prog, rep)
    r17_6(prog, rep, tier)
    r17_7(prog, rep, ctx)
    if tier == 'thorough':
        # sweep: every factory in the package which selects a class through a
        # dict literal (stagers, tmgr schedulers, ...) has resolvable rows
        rep.rule('R17.1ts', 'sweep of R17.1t over every create()/get_manager() '
                 'factory table in the package', minimum=0)
        n = 0
        for c in sorted(prog.all_classes(), key=lambda k: k.where):
            for mname in ('create', 'get_manager'):
                f = c.methods.get(mname)
                if f is None or not any(
                        isinstance(x, ast.Assign) and
                        isinstance(x.value, ast.Dict) and x.value.keys
                        for x in walk(f.node)):
                    continue
                factory_table(prog, rep, (c.module.rel, c.name), mname,
                              'R17.1ts')
                n += 1
        rep.stat('sweep_factories', n)


# ------------------------------------------------------------------------------
# self-test variants
#
_UVA  = 'configs/resource_uva.json'
_DBG  = 'configs/resource_debug.json'
_ADEF = 'configs/agent_default.json'
_TMGR = 'configs/tmgr_default.json'
_RMB  = 'agent/resource_manager/base.py'
_LMB  = 'agent/launch_method/base.py'
_SCB  = 'agent/scheduler/base.py'
_EXB  = 'agent/executing/base.py'
_CMP  = 'utils/component.py'
_SES  = 'session.py'
_RCF  = 'resource_config.py'
_PML  = 'pmgr/launching/base.py'

# R17.7: the merged lookup and the defaulting of Session.get_resource_config
_LK = "        scfg = rcfg['schemas'][schema]\n"
_DF = ("        if not schema:\n"
       "            schema = self._rcfgs[site][res]['default_schema']\n")

# the block of _prepare_pilot which derives the node count from cores / GPUs
_BLK = ("            if avail_cores_per_node:\n"
        "                requested_nodes = requested_cores / avail_cores_per_node\n\n"
        "            if avail_gpus_per_node:\n"
        "                requested_nodes = max(requested_gpus / avail_gpus_per_node,\n"
        "                                      requested_nodes)\n\n"
        "            requested_nodes = math.ceil(requested_nodes)\n")


def _two(cpu, gpu, comb='max(nodes_cpu, nodes_gpu)'):
    """the same block with one whole number per kind"""
    return ("            nodes_cpu = 0\n            nodes_gpu = 0\n\n"
            "            if avail_cores_per_node:\n"
            "                nodes_cpu = %s\n\n"
            "            if avail_gpus_per_node:\n"
            "                nodes_gpu = %s\n\n"
            "            requested_nodes = %s\n" % (cpu, gpu, comb))


_CEIL_C = 'math.ceil(requested_cores / avail_cores_per_node)'
_CEIL_G = 'math.ceil(requested_gpus / avail_gpus_per_node)'
_SMT = "            cores_per_node *= smt\n"
_LBL = "        rcfg.label = resource\n\n        rcfg.verify()\n"

# round 5 -----------------------------------------------------------------------
_COPY = "        rcfg = ResourceConfig(from_dict=self._rcfgs[site][res])\n"
_ADJ  = ("            rm_info.cores_per_node -= len(blocked_cores)\n"
         "            rm_info.gpus_per_node  -= len(blocked_gpus)\n\n")
_ADJ_C = "            rm_info.cores_per_node -= len(blocked_cores)\n"
_ADJ_G = "            rm_info.gpus_per_node  -= len(blocked_gpus)\n"
_NLOOP = "            for node in rm_info.node_list:\n\n"
_CLOOP = "                for idx in blocked_cores:\n"
_SIZING = ("        if cores_per_node and smt:\n"
           "            cores_per_node *= smt\n\n"
           "        avail_cores_per_node = cores_per_node\n"
           "        avail_gpus_per_node  = gpus_per_node\n\n"
           "        if avail_cores_per_node and blocked_cores:\n"
           "            avail_cores_per_node -= len(blocked_cores)\n"
           "            assert (avail_cores_per_node > 0)\n\n"
           "        if avail_gpus_per_node and blocked_gpus:\n"
           "            avail_gpus_per_node -= len(blocked_gpus)\n"
           "            assert (avail_gpus_per_node >= 0)\n\n"
           "        if requested_nodes:\n"
           "            if not avail_cores_per_node:\n"
           "                raise RuntimeError('use \"cores\" in PilotDescription')\n\n"
           "        else:\n" + _BLK + "\n"
           "        # now that we know the number of nodes to request, derive\n"
           "        # the *actual* number of cores and gpus we allocate\n"
           "        allocated_cores = (\n"
           "            (requested_nodes + backup_nodes) * avail_cores_per_node) \\\n"
           "                    or requested_cores\n"
           "        allocated_gpus  = (\n"
           "            (requested_nodes + backup_nodes) * avail_gpus_per_node)  \\\n"
           "                    or requested_gpus\n")
_PS_IMPORT = ("from collections import defaultdict\n",
              "from collections import defaultdict, namedtuple\n\n"
              "PilotSize = namedtuple('PilotSize', 'cores_per_node avail_cores_per_node '\n"
              "                                    'nodes cores gpus')\n")
_PS_DEF = "    def _stage_in(self, pilot, sds):\n"


def _ps_helper(ret):
    return ("    @staticmethod\n"
            "    def _get_pilot_size(n_nodes, n_cores, n_gpus, n_backup,\n"
            "                        cores_per_node, gpus_per_node, smt,\n"
            "                        blocked_cores, blocked_gpus):\n\n"
            "        if cores_per_node and smt:\n"
            "            cores_per_node *= smt\n\n"
            "        avail_cores = cores_per_node\n"
            "        avail_gpus  = gpus_per_node\n\n"
            "        if avail_cores and blocked_cores:\n"
            "            avail_cores -= len(blocked_cores)\n"
            "            assert (avail_cores > 0)\n\n"
            "        if avail_gpus and blocked_gpus:\n"
            "            avail_gpus -= len(blocked_gpus)\n"
            "            assert (avail_gpus >= 0)\n\n"
            "        if not n_nodes:\n"
            "            if avail_cores:\n"
            "                n_nodes = n_cores / avail_cores\n"
            "            if avail_gpus:\n"
            "                n_nodes = max(n_gpus / avail_gpus, n_nodes)\n"
            "            n_nodes = math.ceil(n_nodes)\n\n"
            "        elif not avail_cores:\n"
            "            raise RuntimeError('use \"cores\" in PilotDescription')\n\n"
            "        n_total = n_nodes + n_backup\n\n" + ret + "\n\n"
            "    # --------------------------------------------------------------------------\n"
            "    #\n" + _PS_DEF)


_PS_CALL = ("        size = self._get_pilot_size(requested_nodes, requested_cores,\n"
            "                                    requested_gpus,  backup_nodes,\n"
            "                                    cores_per_node,  gpus_per_node, smt,\n"
            "                                    blocked_cores,   blocked_gpus)\n\n")
_PS_RET = ("        return PilotSize(cores_per_node, avail_cores, n_nodes,\n"
           "                         n_total * avail_cores or n_cores,\n"
           "                         n_total * avail_gpus  or n_gpus)\n")


# round 6 -----------------------------------------------------------------------
# R17.8: verification hooks of the typed dictionaries (there is none for
# ResourceConfig / AccessSchema on the unchanged tree)
_RC_END = "        TASK_POST_EXEC         : list()      ,\n    }\n"
_AS_END = ("        JOB_MANAGER_HOP     : None,\n"
           "        FILESYSTEM_ENDPOINT : None,\n    }\n")
_HK = "\n    # ----------------------------------------------------------------\n    #\n"


def _rc_hook(body, name='_verify'):
    return (_RCF, _RC_END, _RC_END + _HK + "    def %s(self):\n\n" % name + body)


def _as_hook(body):
    return (_RCF, _AS_END, _AS_END + _HK + "    def _verify(self):\n\n" + body)


_REQ_LOOP = ("        for key in [RESOURCE_MANAGER, AGENT_SCHEDULER, AGENT_SPAWNER,\n"
             "                    LAUNCH_METHODS%s]:\n"
             "            if not self.get(key):\n"
             "                raise ValueError('resource config \"%%s\": \"%%s\" is not set'\n"
             "                                 %% (self.get(LABEL), key))\n")
_REQ_HELPER = ("    def _require(self, *keys):\n\n"
               "        for key in keys:\n"
               "            if self.get(key) in (None, '', 0, {}, []):\n"
               "                raise ValueError('%s: %s is not set' % (self.label, key))\n\n")


_GRC = "    def get_resource_config(self, resource, schema=None):\n"
_VER = "        rcfg.verify()\n\n        return rcfg\n"


def _grc_helper(key):
    return (_SES, _GRC,
            "    @staticmethod\n    def _check_rcfg(cfg, label):\n\n"
            "        if cfg.get('%s'):\n            return cfg\n\n"
            "        raise ValueError('%%s: %s is not set' %% label)\n\n\n"
            "    # --------------------------------------------------------------------------\n"
            "    #\n" % (key, key) + _GRC)



# R17.6: a memo of merged configs in Session.get_resource_config
_SLOT = "                            'pilot_sandbox'    : dict(),\n"


def _memo(key, out, fill, slot=True):
    """memo `self._cache['rcfg']` keyed by `key`; hits are returned as
    `out % <memo read>`, misses filled with `fill`"""
    e = [(_SES, _SLOT, _SLOT + "                            'rcfg'             : dict(),\n")] \
        if slot else []
    pre = "" if slot else "        self._cache.setdefault('rcfg', dict())\n"
    return e + [
        (_SES, _COPY, pre + "        with self._cache_lock:\n"
                      "            if %s in self._cache['rcfg']:\n"
                      "                return %s\n\n"
                      % (key, out % ("self._cache['rcfg'][%s]" % key)) + _COPY),
        (_SES, _VER, "        rcfg.verify()\n\n        with self._cache_lock:\n"
                     "            self._cache['rcfg'][%s] = %s\n\n        return rcfg\n"
                     % (key, fill))]


def _memo_alias(key, fill='copy.deepcopy(rcfg)', ret='rcfg',
                home="self._cache.setdefault('rcfg', dict())"):
    return [(_SES, _COPY, "        memo = %s\n        if %s in memo:\n"
                          "            return copy.deepcopy(memo[%s])\n\n"
                          % (home, key, key) + _COPY),
            (_SES, _VER, "        rcfg.verify()\n\n        memo[%s] = %s\n\n"
                         "        return %s\n" % (key, fill, ret))]



MUTATIONS = [
    # ---- scheduler switch (R17.9) -------------------------------------------
    dict(name='R17.9 (C17-j4) JSRUN switch tests JSRUN_ERF', rules=('R17.9',), edits=[
        (_SCB, "        if 'JSRUN' in session.rcfg.launch_methods:", "        if 'JSRUN_ERF' in session.rcfg.launch_methods:")]),
    dict(name='R17.9 JSRUN switch tests a lower-case name no table knows', rules=('R17.9',), edits=[
        (_SCB, "        if 'JSRUN' in session.rcfg.launch_methods:", "        if 'jsrun' in session.rcfg.launch_methods:")]),
    dict(name='R17.9 JSRUN switch replaces a scheduler no JSRUN platform asks for', rules=('R17.9',), edits=[
        (_SCB, "            if name == SCHEDULER_NAME_CONTINUOUS:\n                name = SCHEDULER_NAME_CONTINUOUS_JSRUN",
               "            if name == SCHEDULER_NAME_CONTINUOUS_ORDERED:\n                name = SCHEDULER_NAME_CONTINUOUS_JSRUN")]),
    dict(name='R17.9 JSRUN_ERF switch in conjunction form', rules=('R17.9',), edits=[
        (_SCB, "        if 'JSRUN' in session.rcfg.launch_methods:\n            if name == SCHEDULER_NAME_CONTINUOUS:\n                name = SCHEDULER_NAME_CONTINUOUS_JSRUN\n",
               "        if name == SCHEDULER_NAME_CONTINUOUS and \\\n           'JSRUN_ERF' in session.rcfg.launch_methods:\n            name = SCHEDULER_NAME_CONTINUOUS_JSRUN\n")]),
    # ---- resource configs ---------------------------------------------------
    dict(name='R17.1 resource names an unknown resource manager', rules=('R17.1',), edits=[
        (_UVA, '"resource_manager"            : "SLURM",', '"resource_manager"            : "SLURM2",')]),
    dict(name='R17.1 resource names an unknown launch method', rules=('R17.1',), edits=[
        (_UVA, '"order": ["SRUN"],\n                                         "SRUN" : {}',
               '"order": ["SRUN_MPI"],\n                                         "SRUN_MPI" : {}')]),
    dict(name='R17.1 order entry which is not a configured method', rules=('R17.1',), edits=[
        (_DBG, '"order" : ["FORK", "MPIRUN"],', '"order" : ["FORK", "MPIRUN", "SSH"],')]),
    dict(name='R17.1 resource names an unknown agent scheduler', rules=('R17.1',), edits=[
        (_UVA, '"agent_scheduler"             : "CONTINUOUS",', '"agent_scheduler"             : "CONTINUOUS_FIFO",')]),
    dict(name='R17.1 resource names an unknown agent spawner', rules=('R17.1',), edits=[
        (_UVA, '"agent_spawner"               : "POPEN",', '"agent_spawner"               : "SHELL",')]),
    dict(name='R17.1 resource names an agent config which is not shipped', rules=('R17.1',), edits=[
        (_DBG, '"agent_config"                : "default_sa",', '"agent_config"                : "default_ma",')]),
    dict(name='R17.1 default_schema is not one of the schemas', rules=('R17.1',), edits=[
        (_UVA, '"default_schema"              : "local",', '"default_schema"              : "slurm",')]),
    dict(name='R17.1 schema without filesystem endpoint', rules=('R17.1',), edits=[
        (_UVA, '"job_manager_endpoint": "slurm+ssh://rivanna.hpc.virginia.edu/",\n                "filesystem_endpoint" : "sftp://rivanna.hpc.virginia.edu/"',
               '"job_manager_endpoint": "slurm+ssh://rivanna.hpc.virginia.edu/"')]),
    dict(name='R17.1 cores_per_node given as a word', rules=('R17.1',), edits=[
        (_DBG, '"cores_per_node"              :  16,', '"cores_per_node"              :  "sixteen",')]),
    dict(name='R17.1 misspelled top level key', rules=('R17.1',), edits=[
        (_DBG, '"gpus_per_node"               :   4,', '"gpu_per_node"                :   4,')]),
    dict(name='R17.1 trailing comment ru.read_json cannot strip', rules=('R17.1',), edits=[
        (_UVA, '"default_queue"               : "standard",', '"default_queue"               : "standard",   # was: parallel')]),
    dict(name='R17.1 launch method config is not an object', rules=('R17.1',), edits=[
        (_UVA, '"SRUN" : {}', '"SRUN" : "srun"')]),
    dict(name='R17.1 placeholder names no pilot description attribute', rules=('R17.1',), edits=[
        ('configs/resource_csc.json', '"default_remote_workdir"      : "/scratch/%(pd.project)s",', '"default_remote_workdir"      : "/scratch/%(pd.account)s",')]),
    dict(name='R17.1 literal percent sign in a description', rules=('R17.1',), edits=[
        (_UVA, '"description"                 : "Heterogeneous community-model Linux cluster",', '"description"                 : "Heterogeneous community-model Linux cluster, 30% GPU nodes",')]),
    dict(name='R17.1 default agent config renamed in ResourceConfig._defaults', rules=('R17.1',), edits=[
        (_RCF, "AGENT_CONFIG           : 'default'   ,", "AGENT_CONFIG           : 'agent_default',")]),
    # ---- factory tables -----------------------------------------------------
    dict(name='R17.1 PBSPRO row removed from the RM table', rules=('R17.1',), edits=[
        (_RMB, "            RM_NAME_PBSPRO : PBSPro,\n", "")]),
    dict(name='R17.1 MPIEXEC_MPT row removed from the LM table', rules=('R17.1',), edits=[
        (_LMB, "            LM_NAME_MPIEXEC_MPT   : MPIExec,\n", "")]),
    dict(name='R17.1 CONTINUOUS_JSRUN row removed (JSRUN switch target)', rules=('R17.1',), edits=[
        (_SCB, "            SCHEDULER_NAME_CONTINUOUS_JSRUN    : ContinuousJsrun,\n", "")]),
    dict(name='R17.1 DRAGON row removed from the executor table', rules=('R17.1',), edits=[
        (_EXB, "            EXECUTING_NAME_DRAGON: Dragon,\n", "")]),
    dict(name='R17.1 LM enum value changed (SRUN -> SLURM_SRUN)', rules=('R17.1',), edits=[
        (_LMB, "LM_NAME_SRUN          = 'SRUN'", "LM_NAME_SRUN          = 'SLURM_SRUN'")]),
    dict(name='R17.1t import names a class the module does not define', rules=('R17.1t',), edits=[
        (_LMB, "        from .srun           import Srun\n", "        from .srun           import SRun as Srun\n")]),
    dict(name='R17.1t RM table row points to the launch method Fork', rules=('R17.1t',), edits=[
        (_RMB, "        from .fork    import Fork\n", "        from ..launch_method.fork import Fork\n")]),
    dict(name='R17.1t executor factory reads a key the resource config lacks', rules=('R17.1t',), edits=[
        (_EXB, "        name = session.rcfg.agent_spawner\n", "        name = session.rcfg.spawner\n")]),
    dict(name='R17.1 merge policy PRESERVE keeps the empty endpoints', rules=('R17.1',), edits=[
        (_SES, "        ru.dict_merge(rcfg, scfg, ru.OVERWRITE)", "        ru.dict_merge(rcfg, scfg, ru.PRESERVE)")]),
    # ---- agent / tmgr configs -----------------------------------------------
    dict(name='R17.2 tmgr scheduler name not in the table', rules=('R17.2',), edits=[
        (_TMGR, '"scheduler" : "round_robin",', '"scheduler" : "roundrobin",')]),
    dict(name='R17.2 agent config drops the collecting queue', rules=('R17.2',), edits=[
        (_ADEF, '        "agent_collecting_queue"     : {"kind": "queue"},\n', '')]),
    dict(name='R17.2 misspelled component kind', rules=('R17.2',), edits=[
        (_ADEF, '        "agent_executing"      : {"count" : 1},', '        "agent_execution"      : {"count" : 1},')]),
    dict(name='R17.2 component table row removed', rules=('R17.2',), edits=[
        (_CMP, "                rpc.AGENT_EXECUTING_COMPONENT      : rpa.Executing,\n", "")]),
    dict(name='R17.2 executor publishes on a pubsub the agent configs lack', rules=('R17.2',), edits=[
        (_EXB, "        self.register_publisher(rpc.AGENT_UNSCHEDULE_PUBSUB)", "        self.register_publisher(rpc.TMGR_STAGING_INPUT_QUEUE)")]),
    # ---- _prepare_pilot -----------------------------------------------------
    dict(name='R17.3 agent told the requested, job the allocated cores', rules=('R17.3',), edits=[
        (_PML, "        agent_cfg['cores']               = allocated_cores", "        agent_cfg['cores']               = requested_cores")]),
    dict(name='R17.3 job node count ignores the backup nodes', rules=('R17.3',), edits=[
        (_PML, "        jd_dict.node_count            = requested_nodes + backup_nodes", "        jd_dict.node_count            = requested_nodes")]),
    dict(name='R17.3 gpu count recomputed between the two sinks', rules=('R17.3',), edits=[
        (_PML, "        jd_dict.total_gpu_count       = allocated_gpus", "        allocated_gpus = requested_gpus\n        jd_dict.total_gpu_count       = allocated_gpus")]),
    dict(name='R17.5 node count truncated instead of rounded up', rules=('R17.5',), edits=[
        (_PML, "            requested_nodes = math.ceil(requested_nodes)", "            requested_nodes = int(requested_nodes)")]),
    dict(name='R17.5 gpu and core demands combined with min', rules=('R17.5',), edits=[
        (_PML, "                requested_nodes = max(requested_gpus / avail_gpus_per_node,", "                requested_nodes = min(requested_gpus / avail_gpus_per_node,")]),
    dict(name='R17.5 gpu demand replaces the core demand', rules=('R17.5',), edits=[
        (_PML, "                requested_nodes = max(requested_gpus / avail_gpus_per_node,\n                                      requested_nodes)", "                requested_nodes = requested_gpus / avail_gpus_per_node")]),
    dict(name='R17.3 SMT not applied to the divisor', rules=('R17.3',), edits=[
        (_PML, "        if cores_per_node and smt:\n            cores_per_node *= smt\n", "")]),
    dict(name='R17.3 blocked cores not subtracted', rules=('R17.3',), edits=[
        (_PML, "            avail_cores_per_node -= len(blocked_cores)\n", "")]),
    dict(name='R17.3 blocked gpus not subtracted', rules=('R17.3',), edits=[
        (_PML, "            avail_gpus_per_node -= len(blocked_gpus)\n", "")]),
    dict(name='R17.3 nodes computed from the raw cores per node', rules=('R17.3',), edits=[
        (_PML, "                requested_nodes = requested_cores / avail_cores_per_node", "                requested_nodes = requested_cores / rcfg.cores_per_node")]),
    dict(name='R17.4 SMT applied after the blocked cores were subtracted (seed C17-a)', rules=('R17.4',), edits=[
        (_PML, "        if cores_per_node and smt:\n            cores_per_node *= smt\n\n", ""),
        (_PML, "        if requested_nodes:\n            if not avail_cores_per_node:", "        # hardware threads are exposed as cores\n        if cores_per_node and smt:\n            cores_per_node       *= smt\n            avail_cores_per_node *= smt\n\n        if requested_nodes:\n            if not avail_cores_per_node:")]),
    dict(name='R17.4 agent handed the usable instead of the raw cores per node', rules=('R17.4',), edits=[
        (_PML, "        agent_cfg['cores_per_node']      = cores_per_node", "        agent_cfg['cores_per_node']      = avail_cores_per_node")]),
    dict(name='R17.4 client subtracts the blocked gpus from the cores', rules=('R17.4',), edits=[
        (_PML, "            avail_cores_per_node -= len(blocked_cores)\n", "            avail_cores_per_node -= len(blocked_gpus)\n")]),
    dict(name='R17.4 hardware threads multiply the gpus as well', rules=('R17.4',), edits=[
        (_PML, "        avail_gpus_per_node  = gpus_per_node\n", "        avail_gpus_per_node  = gpus_per_node * smt\n")]),
    dict(name='R17.4 agent subtracts the blocked cores from its gpus', rules=('R17.4',), edits=[
        (_RMB, "            rm_info.gpus_per_node  -= len(blocked_gpus)\n", "            rm_info.gpus_per_node  -= len(blocked_cores)\n")]),
    dict(name='R17.4 agent no longer subtracts the blocked cores', rules=('R17.4',), edits=[
        (_RMB, "            rm_info.cores_per_node -= len(blocked_cores)\n", "")]),
    dict(name='R17.4 agent is handed the cores per node without SMT', rules=('R17.4',), edits=[
        (_PML, "        agent_cfg['cores_per_node']      = cores_per_node", "        agent_cfg['cores_per_node']      = rcfg.cores_per_node")]),
    dict(name='R17.3 agent reads a key _prepare_pilot does not write', rules=('R17.3',), edits=[
        (_RMB, "        rm_info.requested_nodes  = self._cfg.nodes", "        rm_info.requested_nodes  = self._cfg.requested_nodes")]),
    dict(name='R17.3 agent takes its core count from the node key', rules=('R17.3',), edits=[
        (_RMB, "        rm_info.requested_cores  = self._cfg.cores\n", "        rm_info.requested_cores  = self._cfg.nodes\n")]),
    # ---- rounding direction (R17.5) -------------------------------------------
    dict(name='R17.5 one integer per kind, GPU part floor-divided (seed C17-c)', rules=('R17.5',), edits=[
        (_PML, _BLK, _two(_CEIL_C, 'requested_gpus // avail_gpus_per_node'))]),
    dict(name='R17.5 one integer per kind, core part truncated with int()', rules=('R17.5',), edits=[
        (_PML, _BLK, _two('int(requested_cores / avail_cores_per_node)', _CEIL_G))]),
    dict(name='R17.5 one integer per kind, both rounded up but combined with min', rules=('R17.5',), edits=[
        (_PML, _BLK, _two(_CEIL_C, _CEIL_G, 'min(nodes_cpu, nodes_gpu)'))]),
    dict(name='R17.5 GPU quotient floor-divided inside max()', rules=('R17.5',), edits=[
        (_PML, "                requested_nodes = max(requested_gpus / avail_gpus_per_node,", "                requested_nodes = max(requested_gpus // avail_gpus_per_node,")]),
    dict(name='R17.5 node count rounded to the nearest whole number', rules=('R17.5',), edits=[
        (_PML, "            requested_nodes = math.ceil(requested_nodes)", "            requested_nodes = round(requested_nodes)")]),
    dict(name='R17.5 rounding up only where the platform has GPUs', rules=('R17.5',), edits=[
        (_PML, "                requested_nodes = max(requested_gpus / avail_gpus_per_node,\n                                      requested_nodes)\n\n            requested_nodes = math.ceil(requested_nodes)\n",
               "                requested_nodes = math.ceil(max(requested_gpus / avail_gpus_per_node,\n                                                requested_nodes))\n")]),
    dict(name='R17.5 GPU-driven count computed from the requested cores', rules=('R17.5',), edits=[
        (_PML, "                requested_nodes = max(requested_gpus / avail_gpus_per_node,", "                requested_nodes = max(requested_cores / avail_gpus_per_node,")]),
    dict(name='R17.5 GPU-driven count only used on platforms without usable cores', rules=('R17.5',), edits=[
        (_PML, _BLK, "            if avail_cores_per_node:\n                requested_nodes = requested_cores / avail_cores_per_node\n\n"
                     "            elif avail_gpus_per_node:\n                requested_nodes = requested_gpus / avail_gpus_per_node\n\n"
                     "            requested_nodes = math.ceil(requested_nodes)\n")]),
    dict(name='R17.5 one integer per kind, hand written selection keeps the smaller count', rules=('R17.5',), edits=[
        (_PML, _BLK, _two(_CEIL_C, _CEIL_G, 'nodes_cpu\n            if nodes_gpu < requested_nodes:\n                requested_nodes = nodes_gpu'))]),
    dict(name='R17.5 one integer per kind, GPU part through math.floor', rules=('R17.5',), edits=[
        (_PML, _BLK, _two(_CEIL_C, 'math.floor(requested_gpus / avail_gpus_per_node)'))]),
    # ---- R17.6 history independence ------------------------------------------
    dict(name='R17.6 seed C17-e: SMT-scaled core count stored back into the config shared by the bulk', rules=('R17.6',), edits=[
        (_PML, _SMT, _SMT + "\n            # agent config and its copy of the resource config agree\n            rcfg.cores_per_node = cores_per_node\n")]),
    dict(name='R17.6 the same by subscript, through update()', rules=('R17.6',), edits=[
        (_PML, _SMT, _SMT + "            rcfg.update({'cores_per_node': cores_per_node})\n")]),
    dict(name='R17.6 SMT level recorded in the shared system_architecture dict (local alias)', rules=('R17.6',), edits=[
        (_PML, _SMT, _SMT + "            system_architecture['smt'] = smt\n")]),
    dict(name='R17.6 per-pilot command appended to the shared pre_bootstrap_0 list', rules=('R17.6',), edits=[
        (_PML, "        for arg in pre_bootstrap_0:   bs_args.extend(['-e', arg])",
               "        if services:\n            pre_bootstrap_0.append('export RP_SERVICES=%d' % len(services))\n        for arg in pre_bootstrap_0:   bs_args.extend(['-e', arg])")]),
    dict(name='R17.6 per-pilot pre_exec added with += on the alias of the shared list', rules=('R17.6',), edits=[
        (_PML, "        agent_cfg['task_pre_exec']       = task_pre_exec", "        if enable_ep:\n            task_pre_exec += ['export RP_EP=1']\n        agent_cfg['task_pre_exec']       = task_pre_exec")]),
    dict(name='R17.6 store into the shared config inside a new helper of _prepare_pilot', rules=('R17.6',), edits=[
        (_PML, _SMT, _SMT + "            self._note_threads(rcfg, cores_per_node)\n"),
        (_PML, "    def _prepare_pilot(self, resource, rcfg, pilot, expand, tar_name):\n",
               "    def _note_threads(self, cfg, n_threads):\n\n        cfg['cores_per_node'] = n_threads\n\n\n"
               "    # --------------------------------------------------------------------------\n    #\n"
               "    def _prepare_pilot(self, resource, rcfg, pilot, expand, tar_name):\n")]),
    dict(name='R17.6 bulk starter appends to a list inside the resolved config', rules=('R17.6',), edits=[
        (_PML, "        for k in rcfg:\n            if isinstance(rcfg[k], str):", "        rcfg.pre_bootstrap_0.append('export RP_BULK=%d' % len(pilots))\n        for k in rcfg:\n            if isinstance(rcfg[k], str):")]),
    dict(name='R17.6 seed C17-f: mandatory_args extended in place before verify()', rules=('R17.6',), edits=[
        (_SES, _LBL, "        rcfg.label = resource\n\n        if '%(pd.project)s' in (rcfg.default_remote_workdir or ''):\n            if 'project' not in rcfg.mandatory_args:\n                rcfg.mandatory_args += ['project']\n\n        rcfg.verify()\n")]),
    dict(name='R17.6 the same with append() on a local alias', rules=('R17.6',), edits=[
        (_SES, _LBL, "        rcfg.label = resource\n\n        required = rcfg.mandatory_args\n        if '%(pd.project)s' in (rcfg.default_remote_workdir or ''):\n            if 'project' not in required:\n                required.append('project')\n\n        rcfg.verify()\n")]),
    dict(name='R17.6 launch order trimmed in place inside the nested launch_methods dict', rules=('R17.6',), edits=[
        (_SES, _LBL, "        rcfg.label = resource\n\n        rcfg.verify()\n\n        if 'order' in rcfg.launch_methods and schema == 'local':\n            rcfg.launch_methods['order'].remove('SSH')\n")]),
    dict(name='R17.6 schema endpoints also written back into the stored entry', rules=('R17.6',), edits=[
        (_SES, "        ru.dict_merge(rcfg, scfg, ru.OVERWRITE)\n", "        ru.dict_merge(rcfg, scfg, ru.OVERWRITE)\n        self._rcfgs[site][res].update(scfg)\n")]),
    dict(name='R17.6 chosen schema remembered as default_schema of the stored entry', rules=('R17.6',), edits=[
        (_SES, "        rcfg = ResourceConfig(from_dict=self._rcfgs[site][res])\n", "        self._rcfgs[site][res]['default_schema'] = schema\n        rcfg = ResourceConfig(from_dict=self._rcfgs[site][res])\n")]),
    dict(name='R17.6 resolver hands out the stored entry itself when there is no schema: the bulk starter expands placeholders in it', rules=('R17.6',), edits=[
        (_SES, "            return ResourceConfig(from_dict=from_dict)", "            return from_dict")]),
    dict(name='R17.6 label stored into the entry after the copy was taken', rules=('R17.6',), edits=[
        (_SES, "            from_dict.label = resource\n            return ResourceConfig(from_dict=from_dict)", "            rcfg = ResourceConfig(from_dict=from_dict)\n            from_dict.label = resource\n            return rcfg")]),
    # ---- R17.7: the schema merged is the schema requested --------------------
    dict(name="R17.7 (C17-g3) merged schema selected by the entry's default_schema instead of the requested one", rules=('R17.7',), edits=[
        (_SES, _LK, "        scfg = rcfg['schemas'][rcfg['default_schema']]\n")]),
    dict(name='R17.7 same mistake through a local and attribute access', rules=('R17.7',), edits=[
        (_SES, _LK, "        wanted = rcfg.default_schema\n        scfg = rcfg['schemas'][wanted]\n")]),
    dict(name='R17.7 merged schema is a literal', rules=('R17.7',), edits=[
        (_SES, _LK, "        scfg = rcfg['schemas']['local']\n")]),
    dict(name='R17.7 defaulting guard inverted: a requested schema is replaced by the default', rules=('R17.7',), edits=[
        (_SES, _DF, "        if schema:\n            schema = self._rcfgs[site][res]['default_schema']\n")]),
    dict(name='R17.7 defaulting unconditional', rules=('R17.7',), edits=[
        (_SES, _DF, "        schema = self._rcfgs[site][res]['default_schema']\n")]),
    dict(name='R17.7 request without schema falls back to a hard wired schema', rules=('R17.7',), edits=[
        (_SES, _DF, "        if not schema:\n            schema = 'local'\n")]),
    dict(name='R17.7 merged schema keyed by the resource label', rules=('R17.7',), edits=[
        (_SES, _LK, "        scfg = rcfg['schemas'][res]\n")]),
    # ---- round 5 ----------------------------------------------------------------
    dict(name='R17.6 seed C17-h2: the schema is merged into the stored entry itself, no copy', rules=('R17.6',), edits=[
        (_SES, _COPY, "        rcfg = self._rcfgs[site][res]\n")]),
    dict(name='R17.6 the same through a local holding the stored entry', rules=('R17.6',), edits=[
        (_SES, _COPY, "        entry = self._rcfgs[site][res]\n        rcfg = entry\n")]),
    dict(name='R17.4 seed C17-h3: blocked cores / gpus subtracted inside the loop over the nodes', rules=('R17.4',), edits=[
        (_RMB, _ADJ + _NLOOP, _NLOOP + "                rm_info.cores_per_node -= len(blocked_cores)\n"
                                       "                rm_info.gpus_per_node  -= len(blocked_gpus)\n\n")]),
    dict(name='R17.4 only the cores adjustment slipped into the node loop, spelled x = x - n', rules=('R17.4',), edits=[
        (_RMB, _ADJ + _NLOOP, _ADJ_G + "\n" + _NLOOP +
               "                rm_info.cores_per_node = rm_info.cores_per_node - len(blocked_cores)\n\n")]),
    dict(name='R17.4 blocked gpus subtracted inside the marking loop over the blocked cores', rules=('R17.4',), edits=[
        (_RMB, _ADJ_G, ""),
        (_RMB, _NLOOP + _CLOOP, _NLOOP + _CLOOP + "                    rm_info.gpus_per_node -= len(blocked_gpus)\n")]),
    dict(name='R17.4 whole blocked count subtracted once per blocked core', rules=('R17.4',), edits=[
        (_RMB, _ADJ_C, "            for _ in blocked_cores:\n                rm_info.cores_per_node -= len(blocked_cores)\n")]),
    dict(name='R17.5 sizing in the namedtuple helper (C17-r9), node count rounded down there', rules=('R17.5',), edits=[
        (_PML, ) + _PS_IMPORT,
        (_PML, _SIZING, _PS_CALL +
               "        cores_per_node       = size.cores_per_node\n"
               "        avail_cores_per_node = size.avail_cores_per_node\n"
               "        requested_nodes      = size.nodes\n"
               "        allocated_cores      = size.cores\n"
               "        allocated_gpus       = size.gpus\n"),
        (_PML, _PS_DEF, _ps_helper(_PS_RET).replace('math.ceil(n_nodes)', 'math.floor(n_nodes)'))]),
    dict(name='R17.4 sizing in the namedtuple helper (C17-r9), raw and usable cores swapped in the record', rules=('R17.4',), edits=[
        (_PML, ) + _PS_IMPORT,
        (_PML, _SIZING, _PS_CALL +
               "        cores_per_node       = size.cores_per_node\n"
               "        avail_cores_per_node = size.avail_cores_per_node\n"
               "        requested_nodes      = size.nodes\n"
               "        allocated_cores      = size.cores\n"
               "        allocated_gpus       = size.gpus\n"),
        (_PML, _PS_DEF, _ps_helper(_PS_RET.replace('PilotSize(cores_per_node, avail_cores,', 'PilotSize(avail_cores, cores_per_node,')))]),
    # ---- round 6: verification hooks (R17.8) ----------------------------------
    dict(name='i6 "fail early" hook requires cores_per_node, which 8 shipped platforms leave open', rules=('R17.8',), edits=[
        _rc_hook(_REQ_LOOP % ', CORES_PER_NODE')]),
    dict(name='i6 variant: the same requirement spelled with attribute reads and `or`', rules=('R17.8',), edits=[
        _rc_hook("        if not self.resource_manager or not self.cores_per_node:\n"
                 "            raise ValueError('incomplete resource config %s' % self.label)\n")]),
    dict(name='i6 variant: requirement extracted into a helper method', rules=('R17.8',), edits=[
        _rc_hook("        self._require(RESOURCE_MANAGER, LAUNCH_METHODS)\n"
                 "        self._require(CORES_PER_NODE)\n\n\n" + _HK.lstrip('\n') + _REQ_HELPER)]),
    dict(name='i6 variant: hook asserts a positive memory size (57 platforms do not configure one)', rules=('R17.8',), edits=[
        _rc_hook("        assert self.mem_per_node > 0, 'mem_per_node missing'\n")]),
    dict(name='i6 variant: hook demands a default queue via a comprehension', rules=('R17.8',), edits=[
        _rc_hook("        missing = [k for k in (RESOURCE_MANAGER, DEFAULT_QUEUE) if not self[k]]\n"
                 "        if missing:\n"
                 "            raise ValueError('%s: missing %s' % (self.label, missing))\n")]),
    dict(name='i6 sibling: verify() overridden, demands cores_per_node after the typed check', rules=('R17.8',), edits=[
        _rc_hook("        super().verify()\n\n"
                 "        if self.cores_per_node < 1:\n"
                 "            raise ValueError('%s: cores_per_node' % self.label)\n\n"
                 "        return self\n", name='verify')]),
    dict(name='i6 sibling: hook of the nested AccessSchema demands a job_manager_hop', rules=('R17.8',), edits=[
        _as_hook("        for key in (JOB_MANAGER_ENDPOINT, JOB_MANAGER_HOP):\n"
                 "            if self.get(key) is None:\n"
                 "                raise ValueError('access schema: %s is not set' % key)\n")]),
    dict(name='i6 sibling: get_resource_config itself demands cores_per_node after the merge', rules=('R17.8',), edits=[
        (_SES, _LBL, "        rcfg.label = resource\n\n"
                     "        if not rcfg.cores_per_node:\n"
                     "            raise ValueError('%s: cores_per_node is not set' % resource)\n\n"
                     "        rcfg.verify()\n")]),
    dict(name='i6 sibling: the demand through a local, a default queue this time', rules=('R17.8',), edits=[
        (_SES, _VER, "        rcfg.verify()\n\n"
                     "        queue = rcfg.get('default_queue')\n"
                     "        if queue is None or queue == '':\n"
                     "            raise RuntimeError('no default queue for %s' % rcfg.label)\n\n"
                     "        return rcfg\n")]),
    dict(name='i6 sibling: the demand as an assert next to the RM lookup', rules=('R17.8',), edits=[
        (_SES, "            rm = ResourceManager.get_manager(rcfg['resource_manager'])\n",
               "            rm = ResourceManager.get_manager(rcfg['resource_manager'])\n"
               "            assert rcfg['cores_per_node'] > 0, 'node size of %s' % resource\n")]),
    dict(name='i6 sibling: the demand in a new static helper of the session', rules=('R17.8',), edits=[
        _grc_helper('cores_per_node'),
        (_SES, _VER, "        rcfg.verify()\n\n        return self._check_rcfg(rcfg, resource)\n")]),
    # ---- round 6: further variants of the i1..i5 slips at sibling sites ---------
    dict(name='i5 variant: memo keyed by the resource only, deep copies in and out', rules=('R17.6',), edits=
        _memo('resource', 'copy.deepcopy(%s)', 'copy.deepcopy(rcfg)')),
    dict(name='i5 variant: memo keyed by the schema only, through a local alias', rules=('R17.6',), edits=
        _memo_alias('schema')),
    dict(name='i5 variant: complete key, but the memo entry is handed out without a copy', rules=('R17.6',), edits=
        _memo('(resource, schema)', '%s', 'copy.deepcopy(rcfg)')),
    dict(name='i5 variant: complete key, but the memo keeps the object it returns', rules=('R17.6',), edits=
        _memo('(resource, schema)', 'copy.deepcopy(%s)', 'rcfg')),
    dict(name='i5 variant: memo in a lazily created attribute, keyed by the label only', rules=('R17.6',), edits=
        _memo_alias('res', fill='rcfg', ret='ResourceConfig(from_dict=rcfg)',
                    home="self.__dict__.setdefault('_merged_rcfgs', dict())")),
    dict(name='i4 variant: usable GPUs per node written back into the config the bulk shares', rules=('R17.6',), edits=[
        (_PML, "            avail_gpus_per_node -= len(blocked_gpus)\n",
               "            avail_gpus_per_node -= len(blocked_gpus)\n            rcfg['gpus_per_node'] = avail_gpus_per_node\n")]),
    dict(name='i4 variant: SMT folded into the shared config through update()', rules=('R17.6',), edits=[
        (_PML, _SMT, _SMT + "            rcfg.update({'cores_per_node': cores_per_node})\n")]),
    dict(name='i2 sibling: scheduler table lists CONTINUOUS twice, CONTINUOUS_JSRUN lost', rules=('R17.1',), edits=[
        (_SCB, "            SCHEDULER_NAME_CONTINUOUS_JSRUN    : ContinuousJsrun,", "            SCHEDULER_NAME_CONTINUOUS          : ContinuousJsrun,")]),
    dict(name='i2 sibling: executor table lists FLUX twice, POPEN lost', rules=('R17.1',), edits=[
        (_EXB, "            EXECUTING_NAME_POPEN : Popen,", "            EXECUTING_NAME_FLUX  : Popen,")]),
    dict(name='i1 sibling: core term of the node estimate floor-divided', rules=('R17.5',), edits=[
        (_PML, "                requested_nodes = requested_cores / avail_cores_per_node", "                requested_nodes = requested_cores // avail_cores_per_node")]),
    dict(name='i3 sibling: scheduler name in lower case in a shipped config', rules=('R17.1',), edits=[
        (_UVA, '"agent_scheduler"             : "CONTINUOUS",', '"agent_scheduler"             : "continuous",')]),
]

SILENT = [
    # ---- scheduler switch (R17.9): behaviour preserving rewrites -------------
    dict(name='JSRUN switch with the tests nested the other way round', edits=[
        (_SCB, "        if 'JSRUN' in session.rcfg.launch_methods:\n            if name == SCHEDULER_NAME_CONTINUOUS:\n                name = SCHEDULER_NAME_CONTINUOUS_JSRUN\n",
               "        if name == SCHEDULER_NAME_CONTINUOUS:\n            if 'JSRUN' in session.rcfg.launch_methods:\n                name = SCHEDULER_NAME_CONTINUOUS_JSRUN\n")]),
    dict(name='JSRUN switch compares with the literal scheduler names', edits=[
        (_SCB, "            if name == SCHEDULER_NAME_CONTINUOUS:\n                name = SCHEDULER_NAME_CONTINUOUS_JSRUN",
               "            if name == 'CONTINUOUS':\n                name = 'CONTINUOUS_JSRUN'")]),
    dict(name='JSRUN switch after the table, rcfg through a temporary', edits=[
        (_SCB, "        if 'JSRUN' in session.rcfg.launch_methods:\n            if name == SCHEDULER_NAME_CONTINUOUS:\n                name = SCHEDULER_NAME_CONTINUOUS_JSRUN\n", ""),
        (_SCB, "        if name not in impl:\n            raise ValueError('Scheduler %s unknown' % name)\n",
               "        rcfg = session.rcfg\n        if 'JSRUN' in rcfg.launch_methods:\n            if name == SCHEDULER_NAME_CONTINUOUS:\n                name = SCHEDULER_NAME_CONTINUOUS_JSRUN\n\n        if name not in impl:\n            raise ValueError('Scheduler %s unknown' % name)\n")]),
    dict(name='second switch for the other name of the JSRUN class', edits=[
        (_SCB, "        impl = {\n\n            SCHEDULER_NAME_CONTINUOUS_ORDERED ",
               "        if 'JSRUN_ERF' in session.rcfg.launch_methods:\n            if name == SCHEDULER_NAME_CONTINUOUS:\n                name = SCHEDULER_NAME_CONTINUOUS_JSRUN\n\n        impl = {\n\n            SCHEDULER_NAME_CONTINUOUS_ORDERED ")]),
    dict(name='a further switch for a launch method no shipped platform lists', edits=[
        (_SCB, "        if 'JSRUN' in session.rcfg.launch_methods:\n            if name == SCHEDULER_NAME_CONTINUOUS:\n                name = SCHEDULER_NAME_CONTINUOUS_JSRUN\n", "        if 'JSRUN' in session.rcfg.launch_methods:\n            if name == SCHEDULER_NAME_CONTINUOUS:\n                name = SCHEDULER_NAME_CONTINUOUS_JSRUN\n        if 'CCMRUN' in session.rcfg.launch_methods:\n            if name == SCHEDULER_NAME_CONTINUOUS:\n                name = SCHEDULER_NAME_CONTINUOUS_ORDERED\n")]),
    dict(name='a platform which lists JSRUN_ERF next to JSRUN', edits=[
        ('configs/resource_llnl.json', '"JSRUN" : {}', '"JSRUN" : {},\n                                         "JSRUN_ERF" : {}')]),
    dict(name='whole-line comment and reflowed values in a resource config', edits=[
        (_UVA, '        "default_queue"               : "standard",', '      # "default_queue"               : "parallel",\n        "default_queue":"standard",')]),
    dict(name='order omitted where it equals the configured methods', edits=[
        (_UVA, '"order": ["SRUN"],\n                                         "SRUN" : {}', '"SRUN" : {}')]),
    dict(name='launch method with its own options, spawner given explicitly twice', edits=[
        (_UVA, '"SRUN" : {}', '"SRUN" : {"pre_exec_cached": ["module load slurm"]}')]),
    dict(name='agent config given inline', edits=[
        (_DBG, '"agent_config"                : "default_sa",', '"agent_config"                : {"target": "local", "bridges": {}, "components": {}},')]),
    dict(name='additional schema and numeric strings which verify() casts', edits=[
        (_DBG, '"cores_per_node"              :  16,', '"cores_per_node"              :  "16",')]),
    dict(name='escaped percent sign and upper-case placeholder', edits=[
        (_UVA, '"default_remote_workdir"      : "/scratch/$USER",', '"default_remote_workdir"      : "/scratch/%(pd.PROJECT)s/100%%/$USER",')]),
    dict(name='factory table renamed', edits=[
        (_LMB, "        impl = {\n            LM_NAME_APRUN ", "        table = {\n            LM_NAME_APRUN "),
        (_LMB, "        if name not in impl:\n            raise ValueError('LaunchMethod %s unknown' % name)\n\n        return impl[name](name, lm_cfg, rm_info, log, prof)",
               "        if name not in table:\n            raise ValueError('LaunchMethod %s unknown' % name)\n\n        return table[name](name, lm_cfg, rm_info, log, prof)")]),
    dict(name='JSRUN switch as one conjunction', edits=[
        (_SCB, "        if 'JSRUN' in session.rcfg.launch_methods:\n            if name == SCHEDULER_NAME_CONTINUOUS:\n                name = SCHEDULER_NAME_CONTINUOUS_JSRUN\n",
               "        if name == SCHEDULER_NAME_CONTINUOUS and \\\n           'JSRUN' in session.rcfg.launch_methods:\n            name = SCHEDULER_NAME_CONTINUOUS_JSRUN\n")]),
    dict(name='get_manager with explicit membership test', edits=[
        (_RMB, "        return impl.get(name)\n", "        if name in impl:\n            return impl[name]\n        return None\n")]),
    dict(name='merge policy passed by keyword', edits=[
        (_SES, "        ru.dict_merge(rcfg, scfg, ru.OVERWRITE)", "        ru.dict_merge(rcfg, scfg, policy=ru.OVERWRITE)")]),
    dict(name='spawner name read through a temporary', edits=[
        (_EXB, "        name = session.rcfg.agent_spawner\n", "        rcfg = session.rcfg\n        name = rcfg.agent_spawner\n")]),
    dict(name='unused extra bridge in the agent config', edits=[
        (_ADEF, '        "agent_collecting_queue"     : {"kind": "queue"},\n', '        "agent_collecting_queue"     : {"kind": "queue"},\n        "agent_debug_pubsub"         : {"kind": "pubsub"},\n')]),
    dict(name='node count through a temporary, sum commuted', edits=[
        (_PML, "        jd_dict.node_count            = requested_nodes + backup_nodes", "        n_total = backup_nodes + requested_nodes\n        jd_dict.node_count            = n_total")]),
    dict(name='core count copied into a temporary before the job sink', edits=[
        (_PML, "        jd_dict.total_cpu_count       = allocated_cores", "        n_cores = allocated_cores\n        jd_dict.total_cpu_count       = n_cores")]),
    dict(name='ceil wrapped in int()', edits=[
        (_PML, "            requested_nodes = math.ceil(requested_nodes)", "            requested_nodes = int(math.ceil(requested_nodes))")]),
    dict(name='blocked cores subtracted in one expression', edits=[
        (_PML, "        avail_cores_per_node = cores_per_node\n", "        avail_cores_per_node = cores_per_node - len(blocked_cores)\n"),
        (_PML, "        if avail_cores_per_node and blocked_cores:\n            avail_cores_per_node -= len(blocked_cores)\n            assert (avail_cores_per_node > 0)\n", "        assert (not cores_per_node or avail_cores_per_node > 0)\n")]),
    dict(name='SMT multiplication spelled out, operands swapped', edits=[
        (_PML, "            cores_per_node *= smt\n", "            cores_per_node = smt * cores_per_node\n")]),
    dict(name='agent adjusts its per node figures with plain assignments', edits=[
        (_RMB, "            rm_info.cores_per_node -= len(blocked_cores)\n            rm_info.gpus_per_node  -= len(blocked_gpus)\n",
               "            rm_info.cores_per_node = rm_info.cores_per_node - len(blocked_cores)\n            n_blocked_gpus = len(blocked_gpus)\n            rm_info.gpus_per_node  -= n_blocked_gpus\n")]),
    dict(name='usable cores computed in one expression on the client', edits=[
        (_PML, "        avail_cores_per_node = cores_per_node\n", "        avail_cores_per_node = cores_per_node - len(blocked_cores) + 0\n"),
        (_PML, "        if avail_cores_per_node and blocked_cores:\n            avail_cores_per_node -= len(blocked_cores)\n            assert (avail_cores_per_node > 0)\n", "        assert (not cores_per_node or avail_cores_per_node > 0)\n")]),
    dict(name='agent reads its node count by subscript', edits=[
        (_RMB, "        rm_info.requested_nodes  = self._cfg.nodes", "        rm_info.requested_nodes  = self._cfg['nodes']")]),
    dict(name='max() arguments swapped', edits=[
        (_PML, "                requested_nodes = max(requested_gpus / avail_gpus_per_node,\n                                      requested_nodes)", "                requested_nodes = max(requested_nodes,\n                                      requested_gpus / avail_gpus_per_node)")]),
    # ---- robustness corpus (behaviour preserving refactorings) ---------------
    dict(name='corpus r1: blocked / node estimate moved into private static helpers', edits=[
        (_PML, "    # --------------------------------------------------------------------------\n    #\n    def _prepare_pilot(self, resource, rcfg, pilot, expand, tar_name):\n",
               "    # --------------------------------------------------------------------------\n    #\n"
               "    @staticmethod\n    def _usable_per_node(per_node, blocked, allow_none_left=False):\n"
               "        # cores / gpus per node which remain usable w/o the blocked ones\n\n"
               "        if per_node and blocked:\n            per_node -= len(blocked)\n"
               "            if allow_none_left: assert (per_node >= 0)\n            else              : assert (per_node >  0)\n\n"
               "        return per_node\n\n\n"
               "    # --------------------------------------------------------------------------\n    #\n"
               "    @staticmethod\n    def _estimate_nodes(n_nodes, n_cores, cores_per_node, n_gpus, gpus_per_node):\n"
               "        # smallest number of whole nodes covering the given cores and gpus\n\n"
               "        if cores_per_node:\n            n_nodes = n_cores / cores_per_node\n\n"
               "        if gpus_per_node:\n            n_nodes = max(n_gpus / gpus_per_node, n_nodes)\n\n"
               "        return math.ceil(n_nodes)\n\n\n"
               "    # --------------------------------------------------------------------------\n    #\n    def _prepare_pilot(self, resource, rcfg, pilot, expand, tar_name):\n"),
        (_PML, "        avail_cores_per_node = cores_per_node\n        avail_gpus_per_node  = gpus_per_node\n\n"
               "        if avail_cores_per_node and blocked_cores:\n            avail_cores_per_node -= len(blocked_cores)\n            assert (avail_cores_per_node > 0)\n\n"
               "        if avail_gpus_per_node and blocked_gpus:\n            avail_gpus_per_node -= len(blocked_gpus)\n            assert (avail_gpus_per_node >= 0)\n",
               "        avail_cores_per_node = self._usable_per_node(cores_per_node,\n                                                     blocked_cores)\n"
               "        avail_gpus_per_node  = self._usable_per_node(gpus_per_node,\n                                                     blocked_gpus,\n                                                     allow_none_left=True)\n"),
        (_PML, "            if avail_cores_per_node:\n                requested_nodes = requested_cores / avail_cores_per_node\n\n"
               "            if avail_gpus_per_node:\n                requested_nodes = max(requested_gpus / avail_gpus_per_node,\n                                      requested_nodes)\n\n"
               "            requested_nodes = math.ceil(requested_nodes)\n",
               "            requested_nodes = self._estimate_nodes(requested_nodes,\n                                        requested_cores, avail_cores_per_node,\n                                        requested_gpus,  avail_gpus_per_node)\n")]),
    dict(name='corpus r1b: usable-per-node helper with an early return', edits=[
        (_PML, "    # --------------------------------------------------------------------------\n    #\n    def _prepare_pilot(self, resource, rcfg, pilot, expand, tar_name):\n",
               "    # --------------------------------------------------------------------------\n    #\n"
               "    def _usable(self, per_node, blocked):\n\n"
               "        if not per_node or not blocked:\n            return per_node\n\n"
               "        return per_node - len(blocked)\n\n\n"
               "    # --------------------------------------------------------------------------\n    #\n    def _prepare_pilot(self, resource, rcfg, pilot, expand, tar_name):\n"),
        (_PML, "        avail_cores_per_node = cores_per_node\n        avail_gpus_per_node  = gpus_per_node\n\n"
               "        if avail_cores_per_node and blocked_cores:\n            avail_cores_per_node -= len(blocked_cores)\n            assert (avail_cores_per_node > 0)\n\n"
               "        if avail_gpus_per_node and blocked_gpus:\n            avail_gpus_per_node -= len(blocked_gpus)\n            assert (avail_gpus_per_node >= 0)\n",
               "        avail_cores_per_node = self._usable(cores_per_node, blocked_cores)\n"
               "        avail_gpus_per_node  = self._usable(gpus_per_node,  blocked_gpus)\n"
               "        assert (not cores_per_node or avail_cores_per_node > 0)\n")]),
    dict(name='corpus r2: resource entry cached in a local, merged operand inlined', edits=[
        (_SES, "        if res not in self._rcfgs[site]:\n", "        site_cfgs = self._rcfgs[site]\n        if res not in site_cfgs:\n"),
        (_SES, "        if not schema:\n            schema = self._rcfgs[site][res]['default_schema']\n\n        if not schema:\n            from_dict = self._rcfgs[site][res]\n            from_dict.label = resource\n            return ResourceConfig(from_dict=from_dict)\n\n        if schema not in self._rcfgs[site][res]['schemas']:",
               "        entry  = site_cfgs[res]\n        schema = schema or entry['default_schema']\n\n        if not schema:\n            entry.label = resource\n            return ResourceConfig(from_dict=entry)\n\n        if schema not in entry['schemas']:"),
        (_SES, "        rcfg = ResourceConfig(from_dict=self._rcfgs[site][res])\n        scfg = rcfg['schemas'][schema]\n\n        ru.dict_merge(rcfg, scfg, ru.OVERWRITE)",
               "        rcfg = ResourceConfig(from_dict=entry)\n        ru.dict_merge(rcfg, rcfg['schemas'][schema], ru.OVERWRITE)")]),
    dict(name='corpus r3: factories select with impl.get(name) / membership test', edits=[
        (_EXB, "        if name not in impl:\n            raise ValueError('AgentExecutingComponent %s unknown' % name)\n\n        return impl[name](cfg, session)",
               "        executor_cls = impl.get(name)\n        if executor_cls is None:\n            raise ValueError('AgentExecutingComponent %s unknown' % name)\n\n        return executor_cls(cfg, session)"),
        (_LMB, "        if name not in impl:\n            raise ValueError('LaunchMethod %s unknown' % name)\n\n        return impl[name](name, lm_cfg, rm_info, log, prof)",
               "        lm_cls = impl.get(name)\n        if lm_cls is None:\n            raise ValueError('LaunchMethod %s unknown' % name)\n\n        return lm_cls(name, lm_cfg, rm_info, log, prof)"),
        (_SCB, "        if name not in impl:\n            raise ValueError('Scheduler %s unknown' % name)\n\n        return impl[name](cfg, session)",
               "        scheduler_cls = impl.get(name)\n        if scheduler_cls is None:\n            raise ValueError('Scheduler %s unknown' % name)\n\n        return scheduler_cls(cfg, session)")]),
    dict(name='corpus r4: description cached, total_nodes local, branches swapped', edits=[
        (_PML, "        backup_nodes     = pilot['description']['backup_nodes']\n        requested_nodes  = pilot['description']['nodes']\n        requested_cores  = pilot['description']['cores']\n        requested_gpus   = pilot['description']['gpus']\n",
               "        descr            = pilot['description']\n        backup_nodes     = descr['backup_nodes']\n        requested_nodes  = descr['nodes']\n        requested_cores  = descr['cores']\n        requested_gpus   = descr['gpus']\n"),
        (_PML, "        if requested_nodes:\n            if not avail_cores_per_node:\n                raise RuntimeError('use \"cores\" in PilotDescription')\n\n        else:\n",
               "        if not requested_nodes:\n"),
        (_PML, "            requested_nodes = math.ceil(requested_nodes)\n",
               "            requested_nodes = math.ceil(requested_nodes)\n\n        elif not avail_cores_per_node:\n            raise RuntimeError('use \"cores\" in PilotDescription')\n"),
        (_PML, "        allocated_cores = (\n            (requested_nodes + backup_nodes) * avail_cores_per_node) \\\n                    or requested_cores\n        allocated_gpus  = (\n            (requested_nodes + backup_nodes) * avail_gpus_per_node)  \\\n                    or requested_gpus\n",
               "        total_nodes     = requested_nodes + backup_nodes\n        allocated_cores = total_nodes * avail_cores_per_node or requested_cores\n        allocated_gpus  = total_nodes * avail_gpus_per_node  or requested_gpus\n"),
        (_PML, "        jd_dict.node_count            = requested_nodes + backup_nodes", "        jd_dict.node_count            = total_nodes")]),
    # ---- rounding direction (R17.5): rewrites of the node computation --------
    dict(name='R17.5 one integer per kind, ceil on both, max', edits=[
        (_PML, _BLK, _two(_CEIL_C, _CEIL_G))]),
    dict(name='R17.5 one integer per kind, integer ceiling idioms', edits=[
        (_PML, _BLK, _two('-(-requested_cores // avail_cores_per_node)',
                          '(requested_gpus + avail_gpus_per_node - 1) // avail_gpus_per_node'))]),
    dict(name='R17.5 floor plus remainder indicator, (a - 1) // b + 1', edits=[
        (_PML, _BLK, _two('requested_cores // avail_cores_per_node + (requested_cores % avail_cores_per_node > 0)',
                          '(requested_gpus - 1) // avail_gpus_per_node + 1'))]),
    dict(name='R17.5 conditional expressions, hand written max', edits=[
        (_PML, _BLK, "            nodes_cpu = math.ceil(requested_cores / avail_cores_per_node) \\\n                        if avail_cores_per_node else 0\n"
                     "            nodes_gpu = int(math.ceil(requested_gpus / avail_gpus_per_node)) \\\n                        if avail_gpus_per_node else 0\n"
                     "            requested_nodes = nodes_cpu if nodes_cpu >= nodes_gpu else nodes_gpu\n")]),
    dict(name='R17.5 renamed locals, hoisted quotients, list form of max, ceil at the sink side', edits=[
        (_PML, _BLK, "            frac = 0\n"
                     "            if avail_cores_per_node:\n                per_core = requested_cores / avail_cores_per_node\n                frac = per_core\n\n"
                     "            if avail_gpus_per_node:\n                per_gpu = requested_gpus / avail_gpus_per_node\n                frac = max([frac, per_gpu])\n\n"
                     "            whole = int(math.ceil(frac))\n            requested_nodes = whole\n")]),
    dict(name='R17.5 rounding skipped when the count is zero', edits=[
        (_PML, "            requested_nodes = math.ceil(requested_nodes)\n", "            if requested_nodes:\n                requested_nodes = math.ceil(requested_nodes)\n")]),
    dict(name='R17.5 core-driven count first into its own local, GPU branch in early-skip form', edits=[
        (_PML, _BLK, "            by_cores = requested_nodes\n"
                     "            if avail_cores_per_node:\n                by_cores = requested_cores / avail_cores_per_node\n\n"
                     "            if not avail_gpus_per_node:\n                requested_nodes = math.ceil(by_cores)\n"
                     "            else:\n                requested_nodes = math.ceil(max(by_cores,\n                                      requested_gpus / avail_gpus_per_node))\n")]),
    dict(name='R17.5 hand written max at statement level', edits=[
        (_PML, _BLK, _two(_CEIL_C, _CEIL_G, 'nodes_cpu\n            if nodes_gpu > requested_nodes:\n                requested_nodes = nodes_gpu'))]),
    dict(name='R17.5 floor division, one more node if there is a remainder', edits=[
        (_PML, _BLK, _two(_CEIL_C, 'requested_gpus // avail_gpus_per_node\n                if requested_gpus % avail_gpus_per_node:\n                    nodes_gpu += 1'))]),
    # ---- R17.6 ---------------------------------------------------------------
    dict(name='R17.6 mandatory_args re-bound to a new list (x = x + [..]) on the per-call config', edits=[
        (_SES, _LBL, "        rcfg.label = resource\n\n        if '%(pd.project)s' in (rcfg.default_remote_workdir or ''):\n            if 'project' not in rcfg.mandatory_args:\n                rcfg.mandatory_args = rcfg.mandatory_args + ['project']\n\n        rcfg.verify()\n")]),
    dict(name='R17.6 mandatory_args extended on a local copy which is then re-bound', edits=[
        (_SES, _LBL, "        rcfg.label = resource\n\n        required = list(rcfg.mandatory_args)\n        if '%(pd.project)s' in (rcfg.default_remote_workdir or ''):\n            if 'project' not in required:\n                required.append('project')\n        rcfg.mandatory_args = required\n\n        rcfg.verify()\n")]),
    dict(name='R17.6 mandatory_args first re-bound to a copy, then extended in place', edits=[
        (_SES, _LBL, "        rcfg.label = resource\n\n        rcfg.mandatory_args = list(rcfg.mandatory_args)\n        if '%(pd.project)s' in (rcfg.default_remote_workdir or ''):\n            rcfg.mandatory_args.append('project')\n\n        rcfg.verify()\n")]),
    dict(name='R17.6 mandatory_args extended in place after verify() re-created the list', edits=[
        (_SES, _LBL, "        rcfg.label = resource\n\n        rcfg.verify()\n\n        if '%(pd.project)s' in (rcfg.default_remote_workdir or ''):\n            if 'project' not in rcfg.mandatory_args:\n                rcfg.mandatory_args.append('project')\n")]),
    dict(name='R17.6 resolver works on a deep copy of the stored entry', edits=[
        (_SES, "        rcfg = ResourceConfig(from_dict=self._rcfgs[site][res])\n", "        rcfg = ResourceConfig(from_dict=self._rcfgs[site][res])\n        rcfg = copy.deepcopy(rcfg)\n"),
        (_SES, _LBL, "        rcfg.label = resource\n        rcfg.mandatory_args.append('project')\n        rcfg.mandatory_args.remove('project')\n\n        rcfg.verify()\n")]),
    dict(name='R17.6 label of the stored entry set through a renamed alias, lookups cached', edits=[
        (_SES, "            from_dict = self._rcfgs[site][res]\n            from_dict.label = resource\n            return ResourceConfig(from_dict=from_dict)",
               "            stored = self._rcfgs[site]\n            entry = stored[res]\n            label = resource\n            entry['label'] = label\n            return ResourceConfig(from_dict=entry)")]),
    dict(name='R17.6 _prepare_pilot stores into its own deep copy of the bulk config', edits=[
        (_PML, "        rcfg.verify()\n\n        pid = pilot[\"uid\"]", "        rcfg = copy.deepcopy(rcfg)\n        rcfg.verify()\n\n        pid = pilot[\"uid\"]"),
        (_PML, _SMT, _SMT + "            rcfg.cores_per_node = cores_per_node\n            rcfg.system_architecture['smt'] = smt\n")]),
    dict(name='R17.6 one config per pilot: resolved inside the loop of the bulk starter', edits=[
        (_PML, "            self._prepare_pilot(resource, rcfg, pilot, expand, tar_name)", "            pcfg = ResourceConfig(from_dict=rcfg)\n            self._prepare_pilot(resource, pcfg, pilot, expand, tar_name)"),
        (_PML, "from ... import utils     as rpu\n", "from ... import utils     as rpu\n\nfrom ...resource_config import ResourceConfig\n"),
        (_PML, _SMT, _SMT + "            rcfg.cores_per_node = cores_per_node\n")]),
    dict(name='R17.6 bulk-invariant label stored into the shared config', edits=[
        (_PML, "        rcfg.verify()\n\n        pid = pilot[\"uid\"]", "        rcfg.verify()\n        rcfg.label = resource\n\n        pid = pilot[\"uid\"]")]),
    dict(name='R17.6 pre_exec extended on a private copy of the shared list', edits=[
        (_PML, "        agent_cfg['task_pre_exec']       = task_pre_exec", "        task_pre_exec = list(task_pre_exec)\n        if enable_ep:\n            task_pre_exec += ['export RP_EP=1']\n            task_pre_exec.append('export RP_EP_PID=%s' % pid)\n        agent_cfg['task_pre_exec']       = task_pre_exec")]),
    dict(name='R17.6 pre_exec re-bound with x = x + [..] on the local alias', edits=[
        (_PML, "        agent_cfg['task_pre_exec']       = task_pre_exec", "        if enable_ep:\n            task_pre_exec = task_pre_exec + ['export RP_EP=1']\n        agent_cfg['task_pre_exec']       = task_pre_exec")]),
    dict(name='R17.6 placeholder expansion of the bulk starter in a helper which re-binds keys', edits=[
        (_PML, "        for k in rcfg:\n            if isinstance(rcfg[k], str):\n                orig     = rcfg[k]\n                rcfg[k]  = rcfg[k] % expand\n                expanded = rcfg[k]\n                if orig != expanded:\n                    self._log.debug('RCFG:\\n%s\\n%s', orig, expanded)\n",
               "        self._expand_cfg(rcfg, expand)\n"),
        (_PML, "    def _prepare_pilot(self, resource, rcfg, pilot, expand, tar_name):\n",
               "    def _expand_cfg(self, cfg, values):\n\n        for key in cfg:\n            if not isinstance(cfg[key], str):\n                continue\n            cfg[key] = cfg[key] % values\n\n\n"
               "    # --------------------------------------------------------------------------\n    #\n"
               "    def _prepare_pilot(self, resource, rcfg, pilot, expand, tar_name):\n")]),
    # ---- R17.7 ---------------------------------------------------------------
    dict(name='R17.7 requested schema copied into a renamed local, schemas dict hoisted', edits=[
        (_SES, _LK, "        wanted  = schema\n        choices = rcfg['schemas']\n        scfg = choices[wanted]\n")]),
    dict(name='R17.7 defaulting as a conditional expression on a hoisted default', edits=[
        (_SES, _DF, "        fallback = self._rcfgs[site][res]['default_schema']\n        schema = schema if schema else fallback\n")]),
    dict(name='R17.7 defaulting as `requested or default` into a new local used for check and merge', edits=[
        (_SES, _DF, "        requested = schema\n        schema = requested or self._rcfgs[site][res].default_schema\n")]),
    dict(name='R17.7 defaulting in if / else form binding a new name', edits=[
        (_SES, _DF, "        if schema:\n            key = schema\n        else:\n            key = self._rcfgs[site][res]['default_schema']\n        schema = key\n")]),
    dict(name='R17.7 defaulting extracted into a private helper', edits=[
        (_SES, _DF, "        schema = self._effective_schema(site, res, schema)\n"),
        (_SES, "    def get_resource_config(self, resource, schema=None):\n",
               "    def _effective_schema(self, site, res, schema):\n\n        if schema:\n            return schema\n\n        return self._rcfgs[site][res]['default_schema']\n\n\n"
               "    # --------------------------------------------------------------------------\n    #\n"
               "    def get_resource_config(self, resource, schema=None):\n")]),
    dict(name='R17.7 merged operand read inline, keyword call', edits=[
        (_SES, _LK + "\n        ru.dict_merge(rcfg, scfg, ru.OVERWRITE)", "        ru.dict_merge(rcfg, rcfg.schemas[schema], policy=ru.OVERWRITE)")]),
    # ---- round 5 ----------------------------------------------------------------
    dict(name='resolver copies through a local holding the stored entry', edits=[
        (_SES, _COPY, "        entry = self._rcfgs[site][res]\n        rcfg  = ResourceConfig(from_dict=entry)\n")]),
    dict(name='blocked cores subtracted one by one in a loop over the blocked list', edits=[
        (_RMB, _ADJ_C, "            for _ in blocked_cores:\n                rm_info.cores_per_node -= 1\n")]),
    dict(name='blocked cores / gpus subtracted after the marking loop, count in a local', edits=[
        (_RMB, _ADJ, ""),
        (_RMB, "                    node['gpus'][idx] = rpc.DOWN\n",
               "                    node['gpus'][idx] = rpc.DOWN\n\n"
               "            n_blocked = len(blocked_cores)\n"
               "            rm_info.cores_per_node -= n_blocked\n"
               "            rm_info.gpus_per_node  -= len(blocked_gpus)\n")]),
    dict(name='blocked gpus subtracted by a range() loop of the same length', edits=[
        (_RMB, _ADJ_G, "            for _ in range(len(blocked_gpus)):\n                rm_info.gpus_per_node -= 1\n")]),
    dict(name='seed C17-r9: sizing arithmetic in a static helper returning a namedtuple', edits=[
        (_PML, ) + _PS_IMPORT,
        (_PML, _SIZING, _PS_CALL +
               "        cores_per_node       = size.cores_per_node\n"
               "        avail_cores_per_node = size.avail_cores_per_node\n"
               "        requested_nodes      = size.nodes\n"
               "        allocated_cores      = size.cores\n"
               "        allocated_gpus       = size.gpus\n"),
        (_PML, _PS_DEF, _ps_helper(_PS_RET))]),
    dict(name='the same, record built by keyword, read by unpacking and by index', edits=[
        (_PML, ) + _PS_IMPORT,
        (_PML, _SIZING, _PS_CALL +
               "        cores_per_node, avail_cores_per_node, requested_nodes, _c, _g = size\n"
               "        allocated_cores      = size[3]\n"
               "        allocated_gpus       = size[-1]\n"),
        (_PML, _PS_DEF, _ps_helper(
            "        result = PilotSize(nodes=n_nodes, cores_per_node=cores_per_node,\n"
            "                           avail_cores_per_node=avail_cores,\n"
            "                           cores=n_total * avail_cores or n_cores,\n"
            "                           gpus=n_total * avail_gpus or n_gpus)\n"
            "        return result\n"))]),
    dict(name='sizing results collected in a namedtuple local of _prepare_pilot itself', edits=[
        (_PML, ) + _PS_IMPORT,
        (_PML, "        if rcfg.numa_domain_map:\n            numa_domains_per_node = len(rcfg.numa_domain_map)\n",
               "        size = PilotSize(cores_per_node, avail_cores_per_node, requested_nodes,\n"
               "                         allocated_cores, allocated_gpus)\n"
               "        requested_nodes = size.nodes\n"
               "        allocated_cores = size.cores\n"
               "        allocated_gpus  = size.gpus\n\n"
               "        if rcfg.numa_domain_map:\n            numa_domains_per_node = len(rcfg.numa_domain_map)\n")]),
    # ---- round 6: verification hooks every shipped config passes ---------------
    dict(name='hook requiring RM, scheduler, spawner and launch methods (loop over keys)', edits=[
        _rc_hook(_REQ_LOOP % '')]),
    dict(name='the same hook with attribute reads, early return and a local', edits=[
        _rc_hook("        label = self.label\n"
                 "        if self.resource_manager and self.agent_scheduler \\\n"
                 "                and self.agent_spawner and self.launch_methods:\n"
                 "            return\n\n"
                 "        raise ValueError('incomplete resource config %s' % label)\n")]),
    dict(name='the same hook through a helper method', edits=[
        _rc_hook("        self._require(RESOURCE_MANAGER, LAUNCH_METHODS)\n"
                 "        self._require(AGENT_SCHEDULER, AGENT_SPAWNER)\n\n\n" + _HK.lstrip('\n') + _REQ_HELPER)]),
    dict(name='the same hook as a comprehension, continue form and a while loop', edits=[
        _rc_hook("        missing = [k for k in (RESOURCE_MANAGER, AGENT_SPAWNER) if not self.get(k)]\n"
                 "        if missing:\n"
                 "            raise ValueError('%s: missing %s' % (self.label, missing))\n\n"
                 "        todo = [AGENT_SCHEDULER, LAUNCH_METHODS]\n"
                 "        while todo:\n"
                 "            key = todo.pop()\n"
                 "            if self[key]:\n"
                 "                continue\n"
                 "            raise ValueError('%s: missing %s' % (self.label, key))\n")]),
    dict(name='hook demanding a node size only for platforms which configure GPUs', edits=[
        _rc_hook("        if self.gpus_per_node and not self.cores_per_node:\n"
                 "            raise ValueError('%s: GPUs per node without cores per node'\n"
                 "                             % self.label)\n\n"
                 "        assert self.cores_per_node >= 0 and self.n_partitions >= 1\n")]),
    dict(name='verify() overridden, typed check through super(), requirement every config meets', edits=[
        _rc_hook("        super().verify()\n\n"
                 "        try:\n"
                 "            rm = self[RESOURCE_MANAGER]\n"
                 "        except KeyError:\n"
                 "            rm = None\n\n"
                 "        if not rm:\n"
                 "            raise ValueError('%s: no resource manager' % self.label)\n\n"
                 "        return self\n", name='verify')]),
    dict(name='hook of the nested AccessSchema demanding both endpoints', edits=[
        _as_hook("        for key in (JOB_MANAGER_ENDPOINT, FILESYSTEM_ENDPOINT):\n"
                 "            if not self.get(key):\n"
                 "                raise ValueError('access schema: %s is not set' % key)\n")]),
    dict(name='get_resource_config demands RM and launch methods after the merge', edits=[
        (_SES, _LBL, "        rcfg.label = resource\n\n"
                     "        if not rcfg.resource_manager or not rcfg.launch_methods:\n"
                     "            raise ValueError('%s: incomplete config' % resource)\n\n"
                     "        rcfg.verify()\n")]),
    dict(name='the demand through a local, after verify()', edits=[
        (_SES, _VER, "        rcfg.verify()\n\n"
                     "        spawner = rcfg.get('agent_spawner')\n"
                     "        if spawner is None or spawner == '':\n"
                     "            raise RuntimeError('no spawner for %s' % rcfg.label)\n\n"
                     "        return rcfg\n")]),
    dict(name='the demand in a new static helper of the session', edits=[
        _grc_helper('agent_scheduler'),
        (_SES, _VER, "        rcfg.verify()\n\n        return self._check_rcfg(rcfg, resource)\n")]),
    dict(name='an assert on a non-negative node size next to the RM lookup', edits=[
        (_SES, "            rm = ResourceManager.get_manager(rcfg['resource_manager'])\n",
               "            rm = ResourceManager.get_manager(rcfg['resource_manager'])\n"
               "            assert rcfg['cores_per_node'] >= 0, 'node size of %s' % resource\n")]),
    # ---- round 6: a correct memo of merged configs (R17.6) ----------------------
    dict(name='memo keyed by resource and schema, deep copies in and out, slot made in __init__', edits=
        _memo('(resource, schema)', 'copy.deepcopy(%s)', 'copy.deepcopy(rcfg)')),
    dict(name='the same memo, slot made by setdefault in the call', edits=
        _memo('(resource, schema)', 'copy.deepcopy(%s)', 'copy.deepcopy(rcfg)', slot=False)),
    dict(name='the same memo through a local alias, key order swapped', edits=
        _memo_alias('(schema, resource)')),
]
